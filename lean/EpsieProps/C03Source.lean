/-
  C03, source tie: the loop of `ParallelTemperedChain.swap_temperatures` as translated from
  `epsie/chain/ptchain.py` on every run by harness/gen_source.py (`Gen.sweepLoop`) computes, whenever
  the uniform stream is long enough for the model's sweep to succeed, the same swap index, the same
  acceptance ratios by pair and leaves the same stream as the hand-written model `Swap.sweep`
  (`Swap.loop`) about which the C03 theorems are proved.

  Differences of presentation that the tie bridges:
  * the code indexes with Python integers (`tk`, `tj = tk - 1`, `logls[-1]`), the model with naturals;
  * the code writes `ars[tj] = ar` into a zero array, the model appends in the order computed and
    reverses at the end;
  * the code reads `dbetas = numpy.diff(betas)`, the model subtracts adjacent betas;
  * the code's stream read is total (`Src.draw`), the model returns `none` when the stream ran dry.
-/
import EpsieModel.Generated.Source
import EpsieModel.Swap
namespace Epsie.C03
open Epsie Swap

/-! ### Lemmas about the prelude operations -/

theorem src_get_nat {α} [Inhabited α] (l : List α) (i : Nat) :
    Src.get l (i : Int) = l.getD i default := by
  unfold Src.get
  have h : ¬ ((i : Int) < 0) := by omega
  simp [h]

theorem src_set_nat {α} (l : List α) (i : Nat) (v : α) :
    Src.set l (i : Int) v = l.set i v := by
  unfold Src.set
  have h : ¬ ((i : Int) < 0) := by omega
  simp [h]

theorem src_get_last (l : List Rat) (n : Nat) (hl : l.length = n) (hn : 1 ≤ n) :
    Src.get l (-1) = l.getD (n - 1) 0 := by
  unfold Src.get
  have h : ((l.length : Int) + -1).toNat = n - 1 := by omega
  simp only [h]
  rfl

theorem src_rangeDown_succ (m : Nat) :
    Src.rangeDown ((m + 1 : Nat) : Int) 0 = ((m + 1 : Nat) : Int) :: Src.rangeDown (m : Int) 0 := by
  unfold Src.rangeDown
  have h1 : (((m + 1 : Nat) : Int) - 0).toNat = m + 1 := by omega
  have h2 : ((m : Int) - 0).toNat = m := by omega
  rw [h1, h2, List.range_succ_eq_map, List.map_cons, List.map_map]
  have ht : List.map ((fun (i : Nat) => ((m + 1 : Nat) : Int) - (i : Int)) ∘ Nat.succ) (List.range m)
      = List.map (fun (i : Nat) => (m : Int) - (i : Int)) (List.range m) := by
    apply List.map_congr_left
    intro i _
    show ((m + 1 : Nat) : Int) - ((i + 1 : Nat) : Int) = (m : Int) - (i : Int)
    omega
  rw [ht]
  simp

theorem src_rangeDown_zero : Src.rangeDown (0 : Int) 0 = [] := by
  simp [Src.rangeDown]

theorem src_diff_getD (l : List Rat) (m : Nat) (h : m + 1 < l.length) :
    (Src.diff l).getD m 0 = l.getD (m + 1) 0 - l.getD m 0 := by
  induction l generalizing m with
  | nil => simp at h
  | cons a t ih =>
    cases t with
    | nil => simp at h
    | cons b rest =>
      cases m with
      | zero => simp [Src.diff]
      | succ k =>
        have h' : k + 1 < (b :: rest).length := by simpa using h
        have := ih k h'
        simpa [Src.diff] using this

theorem set_replicate_append {α} (m : Nat) (z a : α) (r : List α) :
    (List.replicate (m + 1) z ++ r).set m a = List.replicate m z ++ (a :: r) := by
  induction m with
  | zero => simp
  | succ k ih =>
    rw [List.replicate_succ, List.cons_append, List.set_cons_succ, ih]
    simp [List.replicate_succ]

/-- The code's two item assignments on `swap_index` are the model's `swapIdx`. -/
theorem swap_enc (idx : List Nat) (tj : Nat) (h : tj + 1 < idx.length) :
    (((idx.map (fun (i : Nat) => (i : Int))).set (tj + 1)
        ((idx.map (fun (i : Nat) => (i : Int))).getD tj default)).set tj
        ((idx.map (fun (i : Nat) => (i : Int))).getD (tj + 1) default))
      = (swapIdx idx tj).map (fun (i : Nat) => (i : Int)) := by
  have h0 : tj < idx.length := by omega
  have e0 : idx[tj]? = some idx[tj] := List.getElem?_eq_getElem h0
  have e1 : idx[tj + 1]? = some idx[tj + 1] := List.getElem?_eq_getElem h
  unfold swapIdx
  rw [e0, e1]
  simp only [List.map_set]
  rw [List.set_comm _ _ (by omega : tj + 1 ≠ tj)]
  simp [List.getD_eq_getElem?_getD, e0, e1]

theorem swapIdx_length (idx : List Nat) (tj : Nat) : (swapIdx idx tj).length = idx.length := by
  unfold swapIdx
  split <;> simp

theorem pairStep_idx_length (logls : List Rat) (s : SweepSt) (tj : Nat) (ar : AR) (b : Bool) :
    (pairStep logls s tj ar b).idx.length = s.idx.length := by
  unfold pairStep
  cases b <;> simp [swapIdx_length]

/-! ### The loop body and the relation between the two states -/

/-- The loop-carried state of the translated loop: `(swap_index, loglk, ars, us)`. -/
abbrev GSt := List Int × Rat × List AR × List Rat

/-- The body of the `for` loop of `Gen.sweepLoop` (`Gen.sweepLoop` is literally the fold of this
    body: `sweepLoop_eq`, by `rfl`). -/
def genBody (dbetas logls : List Rat) (tk : Int) : GSt → GSt :=
  fun (swap_index, loglk, ars, us) =>
      let swk := (Src.get swap_index tk)
      let tj := (tk - 1)
      let loglj := (Src.get logls tj)
      let swj := (Src.get swap_index tj)
      let logar : Rat := ((Src.get dbetas tj) * (loglj - loglk))
      if (decide (logar > 0)) then
        let ar : AR := AR.one
        let swap := true
        if swap then
          let swap_index := Src.set swap_index tk swj
          let swap_index := Src.set swap_index tj swk
          let ars := Src.set ars tj ar
          (swap_index, loglk, ars, us)
        else
          let loglk : Rat := loglj
          let ars := Src.set ars tj ar
          (swap_index, loglk, ars, us)
      else
        let ar : AR := (AR.exp logar)
        let drawn_us := Src.draw us
        let us := us.tail
        let u := drawn_us
        let swap := (Src.uLe u ar)
        if swap then
          let swap_index := Src.set swap_index tk swj
          let swap_index := Src.set swap_index tj swk
          let ars := Src.set ars tj ar
          (swap_index, loglk, ars, us)
        else
          let loglk : Rat := loglj
          let ars := Src.set ars tj ar
          (swap_index, loglk, ars, us)

theorem sweepLoop_eq (ntemps : Int) (betas logls us : List Rat) :
    Gen.sweepLoop ntemps betas logls us =
      (let r := Src.forIn (Src.rangeDown (ntemps - 1) 0)
          (Src.arange ntemps, Src.get logls (-1), Src.zerosAR (ntemps - 1), us)
          (genBody (Src.diff betas) logls)
       (r.1, r.2.2.1, r.2.1, r.2.2.2)) := rfl

/-- The translated loop's state that corresponds to the model state `s` with `m` pairs still to
    visit and stream `us`: pairs `0 .. m-1` of `ars` still hold the initial zero, the rest holds
    the model's ratios in pair order. -/
def enc (m : Nat) (s : SweepSt) (us : List Rat) : GSt :=
  (s.idx.map (fun (i : Nat) => (i : Int)), s.loglk, List.replicate m AR.zero ++ s.ars.reverse, us)

/-- One iteration of the translated body on related states is one `pairStep` of the model. -/
theorem genBody_enc (betas logls : List Rat) (tj : Nat) (s : SweepSt) (us : List Rat)
    (hm : tj + 1 < s.idx.length) (hb : s.idx.length = betas.length) :
    genBody (Src.diff betas) logls ((tj + 1 : Nat) : Int) (enc (tj + 1) s us) =
      (let l := pairLogAR betas logls tj s.loglk
       if l > 0 then enc tj (pairStep logls s tj .one true) us
       else enc tj (pairStep logls s tj (.exp l) (decide (us.headD 0 ≤ l))) us.tail) := by
  have htj : ((tj + 1 : Nat) : Int) - 1 = (tj : Int) := by omega
  have hlog : Src.get (Src.diff betas) (tj : Int) * (logls.getD tj 0 - s.loglk)
      = pairLogAR betas logls tj s.loglk := by
    rw [src_get_nat]
    show (Src.diff betas).getD tj 0 * (logls.getD tj 0 - s.loglk) = _
    rw [src_diff_getD betas tj (by omega)]
    rfl
  have hlj : Src.get logls (tj : Int) = logls.getD tj 0 := src_get_nat logls tj
  have hars : ∀ a : AR, Src.set (List.replicate (tj + 1) AR.zero ++ s.ars.reverse) (tj : Int) a
      = List.replicate tj AR.zero ++ (a :: s.ars.reverse) := by
    intro a; rw [src_set_nat, set_replicate_append]
  have hswap : Src.set (Src.set (s.idx.map (fun (i : Nat) => (i : Int))) ((tj + 1 : Nat) : Int)
        (Src.get (s.idx.map (fun (i : Nat) => (i : Int))) (tj : Int))) (tj : Int)
        (Src.get (s.idx.map (fun (i : Nat) => (i : Int))) ((tj + 1 : Nat) : Int))
      = (swapIdx s.idx tj).map (fun (i : Nat) => (i : Int)) := by
    rw [src_set_nat, src_set_nat, src_get_nat, src_get_nat]
    exact swap_enc s.idx tj hm
  simp only [genBody, enc, htj, hlog, hlj, hars, hswap]
  by_cases hpos : pairLogAR betas logls tj s.loglk > 0
  · simp [hpos, pairStep]
  · by_cases hu : us.head?.getD 0 ≤ pairLogAR betas logls tj s.loglk
    · simp [hpos, hu, pairStep, Src.uLe, Src.draw]
    · simp [hpos, hu, pairStep, Src.uLe, Src.draw]

/-! ### The tie -/

/-- Loop invariant, generalised over the number `m` of pairs still to visit: from related states
    (`enc`), if the model's loop succeeds then the translated `for` loop over
    `range(m, 0, -1)` ends in the related final state (no zero left in `ars`). -/
theorem C03_source_loop_invariant (betas logls : List Rat) (m : Nat) (s : SweepSt) (us : List Rat)
    (s' : SweepSt) (rest : List Rat)
    (hm : m < s.idx.length) (hb : s.idx.length = betas.length)
    (h : Swap.loop betas logls m s us = some (s', rest)) :
    Src.forIn (Src.rangeDown (m : Int) 0) (enc m s us) (genBody (Src.diff betas) logls)
      = enc 0 s' rest := by
  induction m generalizing s us with
  | zero =>
    simp only [Swap.loop, Option.some.injEq, Prod.mk.injEq] at h
    obtain ⟨rfl, rfl⟩ := h
    rw [show ((0 : Nat) : Int) = 0 from rfl, src_rangeDown_zero]
    rfl
  | succ tj ih =>
    rw [src_rangeDown_succ]
    unfold Src.forIn
    rw [List.foldl_cons, genBody_enc betas logls tj s us hm hb]
    simp only [Swap.loop] at h
    by_cases hpos : pairLogAR betas logls tj s.loglk > 0
    · simp only [hpos, if_true] at h ⊢
      exact ih _ us (by rw [pairStep_idx_length]; omega) (by rw [pairStep_idx_length]; exact hb) h
    · simp only [hpos, if_false] at h ⊢
      cases us with
      | nil => simp at h
      | cons u us' =>
        simp only [List.headD_cons, List.tail_cons] at h ⊢
        exact ih _ us' (by rw [pairStep_idx_length]; omega) (by rw [pairStep_idx_length]; exact hb) h

/-- Whenever the model's sweep succeeds (the uniform stream is long enough), the translated code
    returns the same swap index, the same acceptance ratios by pair, and leaves the same stream. -/
theorem C03_source_sweep_loop (betas logls us : List Rat) (row : Row) (rest : List Rat)
    (hlen : logls.length = betas.length) (hn : 1 ≤ betas.length)
    (h : Swap.sweep betas logls us = some (row, rest)) :
    let r := Gen.sweepLoop (betas.length : Int) betas logls us
    r.1 = row.idx.map (fun (i : Nat) => (i : Int)) ∧ r.2.1 = row.ars ∧ r.2.2.2 = rest := by
  intro r
  unfold Swap.sweep at h
  simp only at h
  generalize hloop : Swap.loop betas logls (betas.length - 1)
    { idx := List.range betas.length, loglk := logls.getD (betas.length - 1) 0, ars := [] } us = o at h
  cases o with
  | none => simp at h
  | some p =>
    obtain ⟨s', rest'⟩ := p
    simp only [Option.some.injEq, Prod.mk.injEq] at h
    obtain ⟨rfl, rfl⟩ := h
    have hinv := C03_source_loop_invariant betas logls (betas.length - 1) _ us s' rest'
      (by simp; omega) (by simp) hloop
    have hn1 : (betas.length : Int) - 1 = ((betas.length - 1 : Nat) : Int) := by omega
    have hinit : (Src.arange (betas.length : Int), Src.get logls (-1),
          Src.zerosAR ((betas.length : Int) - 1), us)
        = enc (betas.length - 1)
            { idx := List.range betas.length, loglk := logls.getD (betas.length - 1) 0, ars := [] } us := by
      unfold enc
      rw [src_get_last logls betas.length hlen hn, hn1]
      simp [Src.arange, Src.zerosAR]
    have hr : r = ((enc 0 s' rest').1, (enc 0 s' rest').2.2.1, (enc 0 s' rest').2.1,
        (enc 0 s' rest').2.2.2) := by
      show Gen.sweepLoop (betas.length : Int) betas logls us = _
      rw [sweepLoop_eq]
      simp only [hinit]
      rw [hn1, hinv]
    rw [hr]
    simp [enc]

/-- Three levels, `betas = [1, 1/2, 1/4]`, `logls = [2, -3, -1]`: the pair (1,2) has `logar = 1/2 > 0`
    (swap surely, no uniform read), the pair (0,1) has `logar = -3/2` and is decided by the uniform
    with logarithm `-2 ≤ -3/2` (swap); one uniform is left. -/
example :
    Gen.sweepLoop 3 [1, 1/2, 1/4] [2, -3, -1] [-2, 7]
      = ([2, 0, 1], [AR.exp (-3/2), AR.one], -1, [7])
    ∧ Swap.sweep [1, 1/2, 1/4] [2, -3, -1] [-2, 7]
      = some ({ idx := [2, 0, 1], ars := [AR.exp (-3/2), AR.one] }, [7]) := by
  decide +kernel

/-- The same data with the uniform's logarithm `-1 > -3/2`: the second pair is rejected. -/
example :
    Gen.sweepLoop 3 [1, 1/2, 1/4] [2, -3, -1] [-1, 7]
      = ([0, 2, 1], [AR.exp (-3/2), AR.one], 2, [7])
    ∧ Swap.sweep [1, 1/2, 1/4] [2, -3, -1] [-1, 7]
      = some ({ idx := [0, 2, 1], ars := [AR.exp (-3/2), AR.one] }, [7]) := by
  decide +kernel

end Epsie.C03
