/-
  C17 — Ladder coherence: every level samples at the beta its swaps use.

  Model: `Ladder.setBetas` (the `betas` setter), `PTChain.betas` (the array the
  sweep's `dbetas` and the sampler's report read), `Chain.beta` of each level
  (what `_acceptance_ratio` multiplies the log-likelihood with), `PTChain.setBetas`
  (where an annealer call writes), `Ladder.anneal` (the annealer's recursion with
  `exp(S_i)` as oracle values).
-/
import EpsieModel.Ladder
import EpsieProofs.LadderLemmas
import Mathlib.Tactic.NormNum
import EpsieProofs.PTInv
import EpsieProofs.SweepApply
namespace Epsie.C17
open Chain

/-- Betas given in any order are held sorted from coldest to hottest, are a rearrangement of
    what was given, and each lies in [0,1]. -/
theorem C17_sorted_in_range (input out : List Rat) (h : Ladder.setBetas input = some out) :
    out.Perm input ∧ out.Pairwise (fun a b => b ≤ a) ∧ ∀ b ∈ out, 0 ≤ b ∧ b ≤ 1 := by
  unfold Ladder.setBetas at h
  split at h
  · rename_i hall
    simp only [Option.some.injEq] at h
    subst h
    have hp := List.mergeSort_perm input (fun a b => decide (b ≤ a))
    refine ⟨hp, ?_, ?_⟩
    · have := List.pairwise_mergeSort (le := fun a b => decide (b ≤ a))
        (fun a b c hab hbc => by
          simp only [decide_eq_true_eq] at hab hbc ⊢
          exact le_trans hbc hab)
        (fun a b => by
          simp only [Bool.or_eq_true, decide_eq_true_eq]
          exact le_total b a)
        input
      simpa using this
    · intro b hb
      have hb' : b ∈ input := hp.mem_iff.mp hb
      have := List.all_eq_true.mp hall b hb'
      simpa using this
  · simp at h

/-- Betas outside [0,1] are rejected (the real code raises), and only those. -/
theorem C17_out_of_range_rejected (input : List Rat) :
    Ladder.setBetas input = none ↔ ∃ b ∈ input, ¬ (0 ≤ b ∧ b ≤ 1) := by
  unfold Ladder.setBetas
  constructor
  · intro h
    split at h
    · simp at h
    · rename_i hall
      by_contra hcon
      apply hall
      rw [List.all_eq_true]
      intro b hb
      simp only [decide_eq_true_eq]
      by_contra hn
      exact hcon ⟨b, hb, hn⟩
  · rintro ⟨b, hb, hn⟩
    have : ¬ (input.all fun b => decide (0 ≤ b ∧ b ≤ 1)) = true := by
      intro hall
      have := List.all_eq_true.mp hall b hb
      simp only [decide_eq_true_eq] at this
      exact hn this
    rw [if_neg this]

/-- Coherence: level `t` samples at exactly the `t`-th entry of the ladder array. -/
def Coherent (c : PTChain) : Prop := c.levels.map (·.beta) = c.betas

theorem stepLevels_beta {ls ls' : List Chain} {is : List Chain.StepIn}
    (h : PTChain.stepLevels ls is = some ls') : ls'.map (·.beta) = ls.map (·.beta) := by
  induction ls generalizing is ls' with
  | nil => simp [PTChain.stepLevels] at h; subst h; rfl
  | cons l ls ih =>
    cases is with
    | nil => simp [PTChain.stepLevels] at h
    | cons i is =>
      simp only [PTChain.stepLevels, bind, Option.bind] at h
      cases h1 : l.step i with
      | none => simp [h1] at h
      | some l' =>
        simp only [h1] at h
        cases h2 : PTChain.stepLevels ls is with
        | none => simp [h2] at h
        | some ls'' =>
          simp [h2] at h; subst h
          obtain ⟨_, _, _, _, _, _, _, hb, _⟩ := step_fields h1
          simp [hb, ih h2]

theorem applySwap_beta (reset : Bool) (ls : List Chain) (idx : List Nat) :
    (PTChain.applySwap reset ls idx).map (·.beta) = ls.map (·.beta) := by
  apply List.ext_getElem
  · simp [applySwap_length]
  · intro t h1 h2
    have ht : t < ls.length := by simpa using h2
    simp only [List.getElem_map]
    rw [applySwap_getElem reset ls idx t ht]
    have h1 : ∀ o, (PTChain.maybeRewrite ls[t] o).beta = (ls[t]).beta := by
      intro o; cases o with
      | none => rfl
      | some st => exact (rewriteLast_fields ls[t] st).2.2.2.2.2
    have h2 : ∀ b (y : Chain), (PTChain.maybeReset b y).beta = y.beta := by
      intro b y; unfold PTChain.maybeReset; cases b <;> rfl
    rw [h2, h1]

theorem annealedBetas_length (old nb : List Rat) : (PTChain.annealedBetas old nb).length = old.length := by
  simp [PTChain.annealedBetas]

theorem setBetas_coherent (c : PTChain) (nb : List Rat) (hl : nb.length = c.levels.length) :
    Coherent (c.setBetas nb) := by
  unfold Coherent PTChain.setBetas
  simp only
  apply List.ext_getElem
  · simp [hl]
  · intro t h1 h2
    simp only [List.getElem_map, List.getElem_zip, List.getElem_range]
    simp [List.getD, List.getElem?_eq_getElem h2]

/-- `swap_temperatures` (with or without an annealer rewriting the ladder) keeps the ladder
    array and the levels' betas identical. -/
theorem coherent_swapTemperatures {c c' : PTChain} {i : PTChain.SweepIn} (h : Coherent c)
    (hs : c.swapTemperatures i = some c') : Coherent c' := by
  unfold PTChain.swapTemperatures at hs
  split at hs
  · simp only [Option.some.injEq] at hs
    subst hs
    rename_i row _
    unfold PTChain.afterSweep
    simp only
    split
    · apply setBetas_coherent
      simp only [annealedBetas_length, applySwap_length]
      rw [← h]; simp
    · unfold Coherent
      simp only
      rw [applySwap_beta]; exact h
  · simp at hs

theorem map_beta_congr (ls : List Chain) (f : Chain → Chain) (hf : ∀ l, (f l).beta = l.beta) :
    (ls.map f).map (·.beta) = ls.map (·.beta) := by
  simp [List.map_map, Function.comp_def, hf]

theorem setStarts_beta (ls : List Chain) (xs : List (List Val × Eval)) :
    (PTChain.setStarts ls xs).map (·.beta) = ls.map (·.beta) := by
  induction ls generalizing xs with
  | nil => cases xs <;> simp [PTChain.setStarts]
  | cons l ls ih =>
    cases xs with
    | nil => simp [PTChain.setStarts]
    | cons x xs =>
      obtain ⟨pos, e⟩ := x
      simp only [PTChain.setStarts, List.map_cons, ih]
      congr 1
      unfold setStart
      split <;> simp

theorem loadLevels_length (ls : List Chain) (sv : List Chain.Saved) :
    (PTChain.loadLevels ls sv).length = ls.length := by
  induction ls generalizing sv with
  | nil => cases sv <;> simp [PTChain.loadLevels]
  | cons l ls ih => cases sv <;> simp [PTChain.loadLevels, ih]

theorem loadLevels_getElem (ls : List Chain) (sv : List Chain.Saved) (t : Nat) (ht : t < ls.length) :
    ((PTChain.loadLevels ls sv)[t]'(by rw [loadLevels_length]; exact ht)).beta =
      if h : t < sv.length then (sv[t]).beta else (ls[t]).beta := by
  induction ls generalizing sv t with
  | nil => simp at ht
  | cons l ls ih =>
    cases sv with
    | nil => simp [PTChain.loadLevels]
    | cons s sv =>
      cases t with
      | zero => simp [PTChain.loadLevels, Chain.load]
      | succ t =>
        simp only [PTChain.loadLevels, List.getElem_cons_succ, List.length_cons]
        rw [ih sv t (by simpa using ht)]
        simp

theorem coherent_load (c : PTChain) (sv : List Chain.Saved) (h : Coherent c) : Coherent (c.load sv) := by
  unfold Coherent at *
  have hlen : c.betas.length = c.levels.length := by rw [← h]; simp
  simp only [PTChain.load]
  apply List.ext_getElem
  · simp [loadLevels_length, hlen]
  · intro t h1 h2
    have ht : t < c.levels.length := by simpa [loadLevels_length] using h1
    have htb : t < c.betas.length := by omega
    simp only [List.getElem_map, List.getElem_zip, List.getElem_range]
    rw [loadLevels_getElem c.levels sv t ht]
    by_cases hs : t < sv.length
    · simp only [hs, dite_true, if_true]
      have hget : (PTChain.loadLevels c.levels sv).getD t default =
          (PTChain.loadLevels c.levels sv)[t]'(by rw [loadLevels_length]; exact ht) := by
        simp [List.getD, List.getElem?_eq_getElem (by rw [loadLevels_length]; exact ht :
          t < (PTChain.loadLevels c.levels sv).length)]
      rw [hget, loadLevels_getElem c.levels sv t ht]
      simp [hs]
    · simp only [hs, dite_false, if_false]
      have := congrArg (fun l => l[t]?) h
      simp only [List.getElem?_map, List.getElem?_eq_getElem ht, List.getElem?_eq_getElem htb,
        Option.map_some] at this
      exact Option.some.inj this

/-- A LOADED LADDER IS THE SAVED ONE. After `set_state`, level `t` (for every level present in the
    saved state) samples at the beta that was saved for it — whatever ladder the target was built
    with — and, by `coherent_load`, the ladder entry used for swaps and reported by the sampler is
    that same number ("adapt during burn-in, continue with the frozen ladder"). -/
theorem C17_loaded_ladder_is_saved (c : PTChain) (sv : List Chain.Saved) (h : Coherent c) (t : Nat)
    (ht : t < c.levels.length) (hs : t < sv.length) :
    ((c.load sv).levels[t]'(by simp [PTChain.load, loadLevels_length]; exact ht)).beta = (sv[t]).beta ∧
    (c.load sv).betas[t]? = some (sv[t]).beta := by
  have h1 : ((c.load sv).levels[t]'(by simp [PTChain.load, loadLevels_length]; exact ht)).beta = (sv[t]).beta := by
    have := loadLevels_getElem c.levels sv t ht
    simp only [hs, dite_true] at this
    simpa [PTChain.load] using this
  refine ⟨h1, ?_⟩
  have hc := coherent_load c sv h
  unfold Coherent at hc
  rw [← hc, List.getElem?_map]
  have hl : t < (c.load sv).levels.length := by simp [PTChain.load, loadLevels_length]; exact ht
  rw [List.getElem?_eq_getElem hl]
  simp [h1]

/-- COHERENCE, for every reachable state: at every iteration the inverse temperature applied
    inside level `t`'s Metropolis–Hastings steps (`Chain.beta`, the `beta` of `logAR`) is the same
    number as the `t`-th beta used to decide swaps (`pairLogAR` reads `PTChain.betas`) and reported
    by the sampler — through steps, sweeps, annealer calls (whose new betas therefore take effect
    in the levels' sampling at the very next step), clears, scratch growth and loads. -/
theorem C17_coherent (c : PTChain) (ops : List PTChain.Op) (h : Coherent c) :
    Coherent (PTChain.runOps c ops) := by
  induction ops generalizing c with
  | nil => exact h
  | cons op ops ih =>
    apply ih
    cases op with
    | start xs =>
      unfold Coherent at *
      simp only [PTChain.apply]; rw [setStarts_beta]; exact h
    | step i =>
      simp only [PTChain.apply]
      cases hs : c.step i with
      | none => simpa using h
      | some c' =>
        simp only [Option.getD_some]
        unfold PTChain.step at hs
        simp only [bind, Option.bind] at hs
        cases h1 : PTChain.stepLevels c.levels i.levels with
        | none => simp [h1] at hs
        | some ls =>
          simp only [h1] at hs
          have hmid : Coherent { c with levels := ls } := by
            unfold Coherent at *; simp only; rw [stepLevels_beta h1]; exact h
          split at hs
          · exact coherent_swapTemperatures hmid hs
          · simp [pure] at hs; subst hs; exact hmid
    | clear =>
      unfold Coherent at *
      simp only [PTChain.apply, PTChain.clear]
      rw [map_beta_congr _ _ (fun l => by unfold clear; split <;> rfl)]; exact h
    | extend n =>
      unfold Coherent at *
      simp only [PTChain.apply, PTChain.extendFor, PTChain.setScratchlen]
      rw [map_beta_congr _ (fun x => x.setScratchlen _) (fun l => rfl)]; exact h
    | load sv => exact coherent_load c sv h

/-- A freshly built chain is coherent. -/
theorem C17_fresh_coherent (betas : List Rat) (s : Nat) (cfgs : List PropCfg) (reset dyn : Bool)
    (cid : Nat) : Coherent (PTChain.fresh betas s cfgs reset dyn cid) := by
  unfold Coherent PTChain.fresh
  simp [List.map_map, Function.comp_def, Chain.fresh]

/-- What the step of level `t` multiplies the log-likelihoods with is `Chain.beta`. -/
theorem C17_step_uses_level_beta (c : Chain) (cur : St) (i : StepIn) (lp : Rat)
    (hlp : i.eval.logp = some lp) :
    decision c.beta cur i.eval (hastings c.props i.rev i.fwd) =
      (if logAR c.beta cur i.eval.logl lp (hastings c.props i.rev i.fwd) > 0 then .sure
       else .draw (logAR c.beta cur i.eval.logl lp (hastings c.props i.rev i.fwd))) := by
  unfold decision; rw [hlp]

/-- With dynamic annealing the coldest and the hottest betas stay fixed: where the annealer's
    output is written, entries 0 and n-1 keep their old values whatever the annealer computed. -/
theorem C17_endpoints_fixed (old nb : List Rat) :
    (PTChain.annealedBetas old nb)[0]? = old[0]? ∧
    (PTChain.annealedBetas old nb)[old.length - 1]? = old[old.length - 1]? := by
  unfold PTChain.annealedBetas
  constructor
  · cases old with
    | nil => rfl
    | cons b bs => simp
  · by_cases h : old.length = 0
    · have : old = [] := List.eq_nil_of_length_eq_zero h
      subst this; rfl
    · have hl : old.length - 1 < old.length := by omega
      rw [List.getElem?_map, List.getElem?_eq_getElem (by simpa using hl)]
      simp only [List.getElem_zip, List.getElem_range, Option.map_some]
      rw [List.getElem?_eq_getElem hl]
      have : old.length - 1 + 1 = old.length := by omega
      simp [this]

/-- The annealer's own recursion also keeps the coldest and hottest entries. -/
theorem C17_anneal_keeps_endpoints (b0 : Rat) (rest es : List Rat) :
    (Ladder.anneal (b0 :: rest) es)[0]? = some b0 := by
  simp [Ladder.anneal]

/-- The order of the ladder is preserved by the annealer's recursion: with positive increments
    `exp(S_i)` (an exponential is positive) and a positive coldest beta, every recomputed beta is
    positive and strictly smaller than the recomputed beta of the level below it; the hottest entry
    is kept (0 with the default infinite hottest temperature, hence below all of them). -/
theorem C17_order_preserved (b0 : Rat) (hb0 : 0 < b0) (rest es : List Rat)
    (hes : ∀ e ∈ es, 0 < e) (hl : rest.length ≤ es.length + 1) :
    Ladder.DecrFrom b0 (Ladder.annealFrom b0 rest es) :=
  Ladder.decrFrom_annealFrom b0 hb0 rest es hes hl

/-! ### Non-vacuity -/

example : ∃ out, Ladder.setBetas [1/2, 1, 0, 1/4] = some out := by
  refine ⟨_, if_pos ?_⟩
  simp only [List.all_cons, List.all_nil, Bool.and_true, Bool.and_eq_true, decide_eq_true_eq]
  norm_num

example : Ladder.setBetas [1/2, 2] = none := by
  rw [C17_out_of_range_rejected]
  exact ⟨2, by simp, by norm_num⟩

example : ∀ e ∈ [(1 : Rat), 2], 0 < e := by intro e he; simp at he; rcases he with rfl | rfl <;> norm_num

example : Coherent (PTChain.fresh [1, 1/2, 0] 2 []) := C17_fresh_coherent _ _ _ _ _ _

end Epsie.C17
