/-
  C18, source tie: `Chain.step` as translated from `epsie/chain/chain.py` on every run by
  harness/gen_source.py (`Gen.stepCore`) is characterised exactly, for ALL arguments, and tied to
  the hand-written model (`Chain.stepRec`, `Chain.step`) about which the property theorems are
  proved.

  `Gen.stepCore` returns
    `(proposed, positionsW, statsW, acceptanceW, blobsW, iteration', calls, updates)`
  where the `…W` are write logs `[(index, value)]` in program order, `calls` counts the evaluations
  of the user's model and `updates` the calls of `proposal_dist.update`.  The oracles are
  `NEGINF` (the test `logp == -inf`) and `ACCEPT`, standing for the call
    `self._acceptance_ratio(logp, logl, proposal, current_logp, current_logl, current_pos)`
  whose ARGUMENT ORDER is part of what the theorems below pin down (the stats tuple is
  `(logl, logp)`, so `current_stats.2` is the current log-prior and `current_stats.1` the current
  log-likelihood).

  Everything follows from one closed form (`C18_source_closed_form`): the whole result is
  determined by the single record `written …`.
-/
import EpsieModel.Generated.Source
import EpsieModel.Chain
import EpsieProps.C01Source
namespace Epsie.C18
open Chain

/-! ### The exact closed form -/

/-- The one record a step writes, as `((position, stats, blob), (ar, accepted))`:
    forced reject when the proposed log-prior is `-inf` (`ACCEPT` not consulted), else what
    `ACCEPT`, called with the arguments in the order of the source, decides. -/
def written {α β : Type} (current_pos : α) (current_stats : Rat × Rat) (current_blob : Option β)
    (jumped : α) (r_logl r_logp : Rat) (r_blob : Option β) (NEGINF : Rat → Bool)
    (ACCEPT : Rat → Rat → α → Rat → Rat → α → Bool × AR) :
    (α × (Rat × Rat) × Option β) × (AR × Bool) :=
  if NEGINF r_logp then ((current_pos, current_stats, current_blob), (AR.zero, false))
  else
    let d := ACCEPT r_logp r_logl jumped current_stats.2 current_stats.1 current_pos
    if d.1 then ((jumped, (r_logl, r_logp), r_blob), (d.2, true))
    else ((current_pos, current_stats, current_blob), (d.2, false))

/-- `Gen.stepCore`, for all arguments: the proposed point is what the joint proposal returned; the
    record `written …` goes to row `len` of positions / stats / acceptance (one write each), its
    blob to row `len` of the blobs iff the chain has blobs; the iteration counter advances by one;
    the model was evaluated once and the proposal updated once. -/
theorem C18_source_closed_form {α β : Type} (hasblobs : Bool) (len iteration : Int) (current_pos : α)
    (current_stats : Rat × Rat) (current_blob : Option β) (jumped : α) (r_logl r_logp : Rat)
    (r_blob : Option β) (NEGINF : Rat → Bool) (ACCEPT : Rat → Rat → α → Rat → Rat → α → Bool × AR) :
    Gen.stepCore α β hasblobs len iteration current_pos current_stats current_blob jumped
        r_logl r_logp r_blob NEGINF ACCEPT
      = (let w := written current_pos current_stats current_blob jumped r_logl r_logp r_blob NEGINF ACCEPT
         (jumped, [(len, w.1.1)], [(len, w.1.2.1)], [(len, w.2)],
          (if hasblobs then [(len, w.1.2.2)] else []), iteration + 1, 1, 1)) := by
  unfold Gen.stepCore written
  cases hasblobs <;> cases hn : NEGINF r_logp <;>
    cases hd : ACCEPT r_logp r_logl jumped current_stats.2 current_stats.1 current_pos with
    | mk acc ar => cases acc <;> simp [Src.wr, hd, hn]

/-! ### The requested statements -/

/-- Exactly one evaluation of the user's model and exactly one `proposal_dist.update` per step,
    whatever the arguments. -/
theorem C18_source_one_call_one_update {α β : Type} (hasblobs : Bool) (len iteration : Int) (current_pos : α)
    (current_stats : Rat × Rat) (current_blob : Option β) (jumped : α) (r_logl r_logp : Rat)
    (r_blob : Option β) (NEGINF : Rat → Bool) (ACCEPT : Rat → Rat → α → Rat → Rat → α → Bool × AR) :
    let out := Gen.stepCore α β hasblobs len iteration current_pos current_stats current_blob jumped
        r_logl r_logp r_blob NEGINF ACCEPT
    out.2.2.2.2.2.2.1 = 1 ∧ out.2.2.2.2.2.2.2 = 1 := by
  intro out
  simp [out, C18_source_closed_form]

/-- Each of positions / stats / acceptance is written exactly once, at index `len`; the blobs
    exactly once at `len` iff `hasblobs` (else never); the iteration advances by one; the proposed
    position is the point the joint proposal returned. -/
theorem C18_source_writes {α β : Type} (hasblobs : Bool) (len iteration : Int) (current_pos : α)
    (current_stats : Rat × Rat) (current_blob : Option β) (jumped : α) (r_logl r_logp : Rat)
    (r_blob : Option β) (NEGINF : Rat → Bool) (ACCEPT : Rat → Rat → α → Rat → Rat → α → Bool × AR) :
    let out := Gen.stepCore α β hasblobs len iteration current_pos current_stats current_blob jumped
        r_logl r_logp r_blob NEGINF ACCEPT
    out.1 = jumped
    ∧ (∃ p, out.2.1 = [(len, p)])
    ∧ (∃ s, out.2.2.1 = [(len, s)])
    ∧ (∃ a, out.2.2.2.1 = [(len, a)])
    ∧ (hasblobs = true → ∃ b, out.2.2.2.2.1 = [(len, b)])
    ∧ (hasblobs = false → out.2.2.2.2.1 = [])
    ∧ out.2.2.2.2.2.1 = iteration + 1 := by
  intro out
  rw [show out = _ from C18_source_closed_form ..]
  refine ⟨rfl, ⟨_, rfl⟩, ⟨_, rfl⟩, ⟨_, rfl⟩, ?_, ?_, rfl⟩
  · intro h; subst h; exact ⟨_, rfl⟩
  · intro h; subst h; rfl

/-- A proposed point outside the prior (`logp == -inf`) is rejected without consulting
    `_acceptance_ratio`: the record written is the current one with acceptance `(0, False)`, and
    the whole result is the same whatever `ACCEPT` is. -/
theorem C18_source_forced_reject {α β : Type} (hasblobs : Bool) (len iteration : Int) (current_pos : α)
    (current_stats : Rat × Rat) (current_blob : Option β) (jumped : α) (r_logl r_logp : Rat)
    (r_blob : Option β) (NEGINF : Rat → Bool) (ACCEPT ACCEPT' : Rat → Rat → α → Rat → Rat → α → Bool × AR)
    (hneg : NEGINF r_logp = true) :
    Gen.stepCore α β hasblobs len iteration current_pos current_stats current_blob jumped
        r_logl r_logp r_blob NEGINF ACCEPT
      = (jumped, [(len, current_pos)], [(len, current_stats)], [(len, (AR.zero, false))],
         (if hasblobs then [(len, current_blob)] else []), iteration + 1, 1, 1)
    ∧ Gen.stepCore α β hasblobs len iteration current_pos current_stats current_blob jumped
        r_logl r_logp r_blob NEGINF ACCEPT
      = Gen.stepCore α β hasblobs len iteration current_pos current_stats current_blob jumped
        r_logl r_logp r_blob NEGINF ACCEPT' := by
  simp [C18_source_closed_form, written, hneg]

/-- Finite prior, `_acceptance_ratio(logp, logl, proposal, current_logp, current_logl, current_pos)`
    says accept: the record written is the proposal with the stats `(logl, logp)` the model
    returned at it (and the blob returned there, when the chain has blobs); the acceptance entry is
    `(ar, True)`. -/
theorem C18_source_accept_records_proposal {α β : Type} (hasblobs : Bool) (len iteration : Int)
    (current_pos : α) (current_stats : Rat × Rat) (current_blob : Option β) (jumped : α)
    (r_logl r_logp : Rat) (r_blob : Option β) (NEGINF : Rat → Bool)
    (ACCEPT : Rat → Rat → α → Rat → Rat → α → Bool × AR) (ar : AR)
    (hneg : NEGINF r_logp = false)
    (hacc : ACCEPT r_logp r_logl jumped current_stats.2 current_stats.1 current_pos = (true, ar)) :
    Gen.stepCore α β hasblobs len iteration current_pos current_stats current_blob jumped
        r_logl r_logp r_blob NEGINF ACCEPT
      = (jumped, [(len, jumped)], [(len, (r_logl, r_logp))], [(len, (ar, true))],
         (if hasblobs then [(len, r_blob)] else []), iteration + 1, 1, 1) := by
  simp [C18_source_closed_form, written, hneg, hacc]

/-- Finite prior, `_acceptance_ratio(…)` says reject: the record written is the current position,
    the current stats and the current blob; the acceptance entry is `(ar, False)`. -/
theorem C18_source_reject_keeps_current {α β : Type} (hasblobs : Bool) (len iteration : Int)
    (current_pos : α) (current_stats : Rat × Rat) (current_blob : Option β) (jumped : α)
    (r_logl r_logp : Rat) (r_blob : Option β) (NEGINF : Rat → Bool)
    (ACCEPT : Rat → Rat → α → Rat → Rat → α → Bool × AR) (ar : AR)
    (hneg : NEGINF r_logp = false)
    (hacc : ACCEPT r_logp r_logl jumped current_stats.2 current_stats.1 current_pos = (false, ar)) :
    Gen.stepCore α β hasblobs len iteration current_pos current_stats current_blob jumped
        r_logl r_logp r_blob NEGINF ACCEPT
      = (jumped, [(len, current_pos)], [(len, current_stats)], [(len, (ar, false))],
         (if hasblobs then [(len, current_blob)] else []), iteration + 1, 1, 1) := by
  simp [C18_source_closed_form, written, hneg, hacc]

/-- Both cases at once: with `(acc, ar)` the answer of `_acceptance_ratio`, the acceptance entry is
    `(ar, acc)`. -/
theorem C18_source_acceptance_entry {α β : Type} (hasblobs : Bool) (len iteration : Int)
    (current_pos : α) (current_stats : Rat × Rat) (current_blob : Option β) (jumped : α)
    (r_logl r_logp : Rat) (r_blob : Option β) (NEGINF : Rat → Bool)
    (ACCEPT : Rat → Rat → α → Rat → Rat → α → Bool × AR)
    (hneg : NEGINF r_logp = false) :
    (Gen.stepCore α β hasblobs len iteration current_pos current_stats current_blob jumped
        r_logl r_logp r_blob NEGINF ACCEPT).2.2.2.1
      = [(len, ((ACCEPT r_logp r_logl jumped current_stats.2 current_stats.1 current_pos).2,
                (ACCEPT r_logp r_logl jumped current_stats.2 current_stats.1 current_pos).1))] := by
  cases hd : ACCEPT r_logp r_logl jumped current_stats.2 current_stats.1 current_pos with
  | mk acc ar => cases acc <;> simp [C18_source_closed_form, written, hneg, hd]

/-! ### The tie to the model

  Encoding of a model state `cur : St` as the arguments of the translated code:
  position `cur.pos`, stats `(cur.logl, cur.logp)` (the order of the dictionary
  `['logl', 'logp']`), blob `some cur.blob`.  The translation's blob is an `Option β` (Python's
  `None` when the model returns no blob); the model's blob is a `List Val` (empty when there is
  none), so the blobs log is related to the model's record through `some`: the entry written is
  `some r.st.blob`.  When `hasblobs = false` the code writes no blob at all and the model's record
  carries whatever `i.eval.blob` / `cur.blob` is (`[]` for a chain built by `Chain.setStart`,
  which sets `hasblobs := !e.blob.isEmpty`).

  A log-prior of `-inf` (`i.eval.logp = none`) has no rational value: `r_logp` is then ANY
  rational and `NEGINF` answers `true`; the model stores `i.eval.logp.getD 0` only on accept,
  which does not happen then. -/

/-- What the model says the translated step returns: the record `r` at row `c.len`. -/
def modelOut (c : Chain) (iteration : Int) (prop : List Val) (r : Rec) :
    List Val × List (Int × List Val) × List (Int × (Rat × Rat)) × List (Int × (AR × Bool))
      × List (Int × Option (List Val)) × Int × Nat × Nat :=
  (prop, [((c.len : Int), r.st.pos)], [((c.len : Int), (r.st.logl, r.st.logp))],
   [((c.len : Int), (r.acc.ar, r.acc.accepted))],
   (if c.hasblobs then [((c.len : Int), some r.st.blob)] else []), iteration + 1, 1, 1)

/-- The tie, with `ACCEPT` answering the model's decision: the record `Gen.stepCore` writes —
    position, `logl`, `logp`, blob, `ar`, `accepted` — is `Chain.stepRec c cur i` field by field,
    written at row `c.len` (where `Chain.step` puts it with `setAt c.scratch c.len`); the proposed
    position is the model's `jointJump`; one model call, one proposal update, iteration + 1. -/
theorem C18_source_step_rec (c : Chain) (cur : St) (i : StepIn) (iteration : Int) (r_logp : Rat)
    (hlp : ∀ lp, i.eval.logp = some lp → r_logp = lp) :
    let d := decision c.beta cur i.eval (hastings c.props i.rev i.fwd)
    Gen.stepCore (List Val) (List Val) c.hasblobs (c.len : Int) iteration
        cur.pos (cur.logl, cur.logp) (some cur.blob)
        (jointJump cur.pos c.props i.jumps) i.eval.logl r_logp (some i.eval.blob)
        (fun _ => i.eval.logp.isNone)
        (fun _ _ _ _ _ _ => (d.accepted i.logu, d.ar))
      = modelOut c iteration (jointJump cur.pos c.props i.jumps) (stepRec c cur i) := by
  intro d
  rw [C18_source_closed_form]
  unfold written modelOut stepRec
  cases hp : i.eval.logp with
  | none =>
    have hd : d = .forced := by simp [d, decision, hp]
    simp [Decision.accepted, Decision.ar, decision, hp]
  | some lp =>
    have hr : r_logp = lp := hlp lp hp
    subst hr
    cases ha : d.accepted i.logu <;> simp [ha, d] <;> simp_all

/-- The same tie with `ACCEPT` SENSITIVE TO ITS ARGUMENTS: it is the translated
    `Chain._acceptance_ratio` itself (`Gen.acceptanceRatio`, tied to the model's decision in
    `C01_source_logar`), fed with the arguments in the order `stepCore` passes them
    (`logp, logl, proposal, current_logp, current_logl, current_pos`), the chain's `beta`, the joint
    proposal's symmetry flag, the joint reported densities and a uniform stream whose next value is
    `i.logu`.  A transposition of `logp`/`logl` or of `current_logp`/`current_logl` in the call
    changes `logar` whenever `beta ≠ 1` and the two values differ, so this statement pins the order.  (Finite prior: `Gen.acceptanceRatio` takes rational
    arguments.) -/
theorem C18_source_step_rec_composed (c : Chain) (cur : St) (i : StepIn) (iteration : Int) (lp : Rat)
    (us : List Rat) (hlp : i.eval.logp = some lp) :
    Gen.stepCore (List Val) (List Val) c.hasblobs (c.len : Int) iteration
        cur.pos (cur.logl, cur.logp) (some cur.blob)
        (jointJump cur.pos c.props i.jumps) i.eval.logl lp (some i.eval.blob)
        (fun _ => false)
        (fun logp logl _proposal current_logp current_logl _current_pos =>
          (Gen.acceptanceRatio logp logl c.beta current_logp current_logl (jointSymmetric c.props)
            (sumContrib c.props i.rev) (sumContrib c.props i.fwd) (i.logu :: us)).1)
      = modelOut c iteration (jointJump cur.pos c.props i.jumps) (stepRec c cur i) := by
  have h := C18_source_step_rec c cur i iteration lp (by intro lp' h'; rw [hlp] at h'; exact Option.some.inj h')
  simp only [hlp, Option.isNone_some] at h
  rw [← h]
  have hC := C01.C01_source_logar c.beta cur i.eval.logl lp (jointSymmetric c.props)
    (sumContrib c.props i.rev) (sumContrib c.props i.fwd) (i.logu :: us)
  simp only [C01.C01_source_hastings] at hC
  have hdec : decision c.beta cur { logl := i.eval.logl, logp := some lp, blob := [] }
        (hastings c.props i.rev i.fwd)
      = decision c.beta cur i.eval (hastings c.props i.rev i.fwd) := by
    simp [decision, hlp]
  rw [hdec] at hC
  simp only [C18_source_closed_form, written]
  simp [hC, Src.draw]

/-- `Chain.step` on a chain whose current state is `cur`: it stores the record that
    `Gen.stepCore` writes, at the row `Gen.stepCore` writes it to; its new iteration and proposed
    position are the ones `Gen.stepCore` returns.  (The model's `calls` additionally counts the
    virtual evaluations of componentwise adaptation, `Chain.extraCalls`, which happen inside
    `proposal_dist.update`, not in `Chain.step`.) -/
theorem C18_source_step (c : Chain) (cur : St) (i : StepIn) (r_logp : Rat)
    (hcur : c.current = some cur)
    (hlp : ∀ lp, i.eval.logp = some lp → r_logp = lp) :
    let d := decision c.beta cur i.eval (hastings c.props i.rev i.fwd)
    let out := Gen.stepCore (List Val) (List Val) c.hasblobs (c.len : Int) (c.iteration : Int)
        cur.pos (cur.logl, cur.logp) (some cur.blob)
        (jointJump cur.pos c.props i.jumps) i.eval.logl r_logp (some i.eval.blob)
        (fun _ => i.eval.logp.isNone)
        (fun _ _ _ _ _ _ => (d.accepted i.logu, d.ar))
    ∃ c', c.step i = some c' ∧ ∃ r : Rec,
      c'.scratch = setAt c.scratch c.len r
      ∧ out.2.1 = [((c.len : Int), r.st.pos)]
      ∧ out.2.2.1 = [((c.len : Int), (r.st.logl, r.st.logp))]
      ∧ out.2.2.2.1 = [((c.len : Int), (r.acc.ar, r.acc.accepted))]
      ∧ out.2.2.2.2.1 = (if c.hasblobs then [((c.len : Int), some r.st.blob)] else [])
      ∧ c'.proposed = some out.1
      ∧ (c'.iteration : Int) = out.2.2.2.2.2.1
      ∧ c'.calls = c.calls + out.2.2.2.2.2.2.1 + extraCalls c.props := by
  intro d out
  have h := C18_source_step_rec c cur i (c.iteration : Int) r_logp hlp
  simp only at h
  simp only [out, d, h, modelOut]
  refine ⟨_, by simp only [Chain.step, hcur]; rfl, stepRec c cur i, rfl, rfl, rfl, rfl, rfl, rfl, ?_, rfl⟩
  simp

/-! ### Concrete values

  (`synthInstance.maxSize` is raised only because the `DecidableEq` instance of the 8-tuple of logs
  is large; it does not affect any proof.) -/

set_option synthInstance.maxSize 4096 in
/-- Accept (`ACCEPT` is given `logp = -1`, `logl = -2`, current `logp = -3`, current `logl = -4`
    in this order and accepts iff `logp + logl > current_logp + current_logl`): the proposal, its
    stats `(logl, logp)` and its blob go to row 4. -/
example :
    Gen.stepCore Nat Nat true 4 9 10 (-4, -3) (some 7) 11 (-2) (-1) (some 8) (fun _ => false)
        (fun logp logl _ clogp clogl _ => (decide (logp + logl > clogp + clogl), AR.one))
      = (11, [(4, 11)], [(4, (-2, -1))], [(4, (AR.one, true))], [(4, some 8)], 10, 1, 1) := by
  decide +kernel

set_option synthInstance.maxSize 4096 in
/-- Reject, no blobs: the current record is repeated, nothing goes to the blobs. -/
example :
    Gen.stepCore Nat Nat false 4 9 10 (-4, -3) none 11 (-20) (-1) none (fun _ => false)
        (fun logp logl _ clogp clogl _ => (decide (logp + logl > clogp + clogl), AR.exp (-14)))
      = (11, [(4, 10)], [(4, (-4, -3))], [(4, (AR.exp (-14), false))], [], 10, 1, 1) := by
  decide +kernel

set_option synthInstance.maxSize 4096 in
/-- Forced reject: an `ACCEPT` that would always accept is not consulted. -/
example :
    Gen.stepCore Nat Nat true 0 0 10 (-4, -3) (some 7) 11 (-2) 0 (some 8) (fun _ => true)
        (fun _ _ _ _ _ _ => (true, AR.one))
      = (11, [(0, 10)], [(0, (-4, -3))], [(0, (AR.zero, false))], [(0, some 7)], 1, 1, 1) := by
  decide +kernel

end Epsie.C18
