/-
  C18 — The model is evaluated once per step per level and never otherwise.

  `Chain.calls` counts the evaluations of the user's model made by a chain
  object.  The only operations that change it are setting the start position
  (+1) and a step (+1, plus the documented virtual evaluations of componentwise
  Andrieu–Thoms scaling: one per adapted parameter while adapting).  Reading
  results (`view`, `getitem`, `current`, `save`) are pure functions of the state:
  they return no new state and therefore cannot evaluate anything.
-/
import EpsieProofs.PTInv
import EpsieProps.C08
namespace Epsie.C18
open Chain

/-- Setting a start position evaluates the model exactly once. -/
theorem C18_start_one_call {c c' : Chain} {pos : List Val} {e : Eval}
    (h : c.setStart pos e = some c') : c'.calls = c.calls + 1 := by
  unfold setStart at h
  split at h
  · simp at h
  · simp at h; subst h; rfl

/-- A step evaluates the model exactly once, at the proposed point (plus one virtual
    evaluation per adapted parameter for componentwise scaling inside its window). -/
theorem C18_step_one_call {c c' : Chain} {i : StepIn} (h : c.step i = some c') :
    c'.calls = c.calls + 1 + extraCalls c.props ∧
    ∃ cur, c.current = some cur ∧ c'.proposed = some (jointJump cur.pos c.props i.jumps) := by
  obtain ⟨cur, hc, _, _, _, _, hcalls, _, _, _, hp⟩ := step_fields h
  exact ⟨hcalls, cur, hc, hp⟩

/-- No extra evaluations unless a componentwise proposal is due and inside its window. -/
theorem C18_no_extras (ps : List PropSt)
    (h : ∀ p ∈ ps, p.cfg.comp = false ∨ p.callJump = false ∨ p.inWindow = false) :
    extraCalls ps = 0 := by
  unfold extraCalls
  induction ps with
  | nil => rfl
  | cons p ps ih =>
    simp only [List.map_cons, List.sum_cons]
    rw [ih (fun q hq => h q (by simp [hq]))]
    rcases h p (by simp) with h1 | h1 | h1 <;> simp [h1]

/-- Clear, scratch growth, loading a state, a temperature swap rewriting the last record and
    resetting proposals never evaluate the model. -/
theorem C18_others_no_call (c : Chain) :
    c.clear.calls = c.calls ∧ (∀ n, (c.setScratchlen n).calls = c.calls) ∧
    (∀ n, (c.extendFor n).calls = c.calls) ∧ (∀ s, (c.load s).calls = c.calls) ∧
    (∀ st, (PTChain.rewriteLast c st).calls = c.calls) ∧ c.resetProposals.calls = c.calls := by
  refine ⟨?_, fun _ => rfl, fun _ => rfl, ?_, ?_, rfl⟩
  · unfold clear; split <;> rfl
  · intro s; simp only [load]; unfold clear; split <;> rfl
  · intro st; exact (rewriteLast_fields c st).2.2.2.1

def totalCalls (c : PTChain) : Nat := (c.levels.map (·.calls)).sum

theorem C15_others {c c' : Chain} {i : StepIn} (hs : c.step i = some c') :
    ∃ cur, c.current = some cur ∧
      c'.props = c.props.map (fun p => p.update (stepRec c cur i).acc.accepted
                                                 (stepRec c cur i).acc.ar (stepRec c cur i).st.pos) := by
  unfold step at hs
  split at hs
  · simp at hs
  · rename_i cur hc
    simp at hs
    subst hs
    exact ⟨cur, hc, rfl⟩

theorem applySwap_calls (reset : Bool) (ls : List Chain) (idx : List Nat) :
    (PTChain.applySwap reset ls idx).map (·.calls) = ls.map (·.calls) := by
  unfold PTChain.applySwap
  simp only [List.map_map]
  have : ∀ (x : Chain × Nat), ((fun l : Chain => l.calls) ∘ fun (x : Chain × Nat) =>
      PTChain.maybeReset (reset && idx.getD x.2 x.2 != x.2)
        (PTChain.maybeRewrite x.1 ((ls.map (·.current)).getD (idx.getD x.2 x.2) none))) x = x.1.calls := by
    intro x
    simp only [Function.comp]
    have h1 : ∀ o, (PTChain.maybeRewrite x.1 o).calls = x.1.calls := by
      intro o; cases o with
      | none => rfl
      | some st => exact (rewriteLast_fields x.1 st).2.2.2.1
    have h2 : ∀ b (y : Chain), (PTChain.maybeReset b y).calls = y.calls := by
      intro b y; unfold PTChain.maybeReset; cases b <;> rfl
    rw [h2, h1]
  rw [List.map_congr_left (fun x _ => this x)]
  have : (fun x : Chain × Nat => x.1.calls) = (fun l : Chain => l.calls) ∘ Prod.fst := rfl
  rw [this, ← List.map_map, List.map_fst_zip]
  simp

/-- A temperature swap sweep (with or without `reset_after_swap`, with or without an
    annealer rewriting the ladder) never evaluates the model. -/
theorem C18_sweep_no_call {c c' : PTChain} {i : PTChain.SweepIn}
    (h : c.swapTemperatures i = some c') : totalCalls c' = totalCalls c := by
  unfold PTChain.swapTemperatures at h
  split at h
  · simp only [Option.some.injEq] at h
    subst h
    unfold totalCalls PTChain.afterSweep
    simp only
    split
    · simp only [PTChain.setBetas, List.map_map]
      have : ((fun l : Chain => l.calls) ∘ fun (x : Chain × Nat) =>
            { x.1 with beta := (PTChain.annealedBetas c.betas i.newBetas).getD x.2 x.1.beta })
          = (fun l : Chain => l.calls) ∘ Prod.fst := by funext x; rfl
      rw [this, ← List.map_map, List.map_fst_zip (by simp)]
      rw [applySwap_calls]
    · rw [applySwap_calls]
  · simp at h


/-- The virtual evaluations a PT chain makes in its next iteration. -/
def extras (c : PTChain) : Nat := (c.levels.map fun l => extraCalls l.props).sum

theorem stepLevels_calls {ls ls' : List Chain} {is : List Chain.StepIn}
    (h : PTChain.stepLevels ls is = some ls') :
    (ls'.map (·.calls)).sum = (ls.map (·.calls)).sum + ls.length
        + (ls.map fun l => extraCalls l.props).sum ∧ ls'.length = ls.length := by
  induction ls generalizing is ls' with
  | nil => simp [PTChain.stepLevels] at h; subst h; simp
  | cons l ls ih =>
    cases is with
    | nil => simp [PTChain.stepLevels] at h
    | cons i is =>
      simp only [PTChain.stepLevels, bind, Option.bind] at h
      cases h1 : l.step i with
      | none => simp [h1] at h
      | some l' =>
        simp only [h1] at h
        cases h2 : PTChain.stepLevels ls is with
        | none => simp [h2] at h
        | some ls'' =>
          simp [h2] at h; subst h
          have := ih h2
          have hc := (C18_step_one_call h1).1
          simp only [List.map_cons, List.sum_cons, List.length_cons]
          omega

/-- One iteration of a (parallel-tempered or plain) chain evaluates the model exactly once
    per level — the sweep, when due, adds nothing — plus the documented virtual evaluations. -/
theorem C18_iteration_calls {c c' : PTChain} {i : PTChain.StepIn} (h : c.step i = some c') :
    totalCalls c' = totalCalls c + c.ntemps + extras c := by
  unfold PTChain.step at h
  simp only [bind, Option.bind] at h
  cases h1 : PTChain.stepLevels c.levels i.levels with
  | none => simp [h1] at h
  | some ls =>
    simp only [h1] at h
    have hs := stepLevels_calls h1
    split at h
    · have := C18_sweep_no_call (c := { c with levels := ls }) h
      rw [this]
      simp only [totalCalls, PTChain.ntemps, extras]
      omega
    · simp [pure] at h; subst h
      simp only [totalCalls, PTChain.ntemps, extras]
      omega

theorem step_ntemps {c c' : PTChain} {i : PTChain.StepIn} (h : c.step i = some c') :
    c'.ntemps = c.ntemps := by
  unfold PTChain.step at h
  simp only [bind, Option.bind] at h
  cases h1 : PTChain.stepLevels c.levels i.levels with
  | none => simp [h1] at h
  | some ls =>
    simp only [h1] at h
    have hl := (stepLevels_calls h1).2
    split at h
    · unfold PTChain.swapTemperatures at h
      split at h
      · simp only [Option.some.injEq] at h
        subst h
        unfold PTChain.afterSweep PTChain.ntemps
        simp only
        split
        · simp [PTChain.setBetas, PTChain.applySwap, hl]
        · simp [PTChain.applySwap, hl]
      · simp at h
    · simp [pure] at h; subst h; simpa [PTChain.ntemps] using hl

/-- No proposal of the chain uses componentwise scaling. -/
def NoComp (c : PTChain) : Prop := ∀ l ∈ c.levels, ∀ p ∈ l.props, p.cfg.comp = false

theorem noComp_extras {c : PTChain} (h : NoComp c) : extras c = 0 := by
  unfold extras
  have : ∀ l ∈ c.levels, extraCalls l.props = 0 := fun l hl =>
    C18_no_extras l.props (fun p hp => Or.inl (h l hl p hp))
  generalize c.levels = ls at this
  induction ls with
  | nil => rfl
  | cons l ls ih =>
    simp only [List.map_cons, List.sum_cons]
    rw [this l (by simp), ih (fun x hx => this x (by simp [hx]))]

theorem loadProps_cfg (ps : List PropSt) (ss : List SavedProp) :
    ∀ p ∈ loadProps ps ss, ∃ q ∈ ps, p.cfg = q.cfg := by
  induction ps generalizing ss with
  | nil => intro p hp; cases ss <;> simp [loadProps] at hp
  | cons q qs ih =>
    cases ss with
    | nil => intro p hp; exact ⟨p, by simpa [loadProps] using hp, rfl⟩
    | cons s ss =>
      intro p hp
      simp only [loadProps, List.mem_cons] at hp
      rcases hp with rfl | hp
      · exact ⟨q, by simp, by simp [PropSt.load]⟩
      · obtain ⟨r, hr, he⟩ := ih ss p hp
        exact ⟨r, by simp [hr], he⟩

theorem noComp_apply (c : Chain) (op : Op) (h : ∀ p ∈ c.props, p.cfg.comp = false) :
    ∀ p ∈ (c.apply op).props, p.cfg.comp = false := by
  cases op with
  | start pos e =>
    simp only [Chain.apply]; unfold setStart
    split
    · simpa using h
    · exact h
  | step i =>
    simp only [Chain.apply]
    cases hs : c.step i with
    | none => simpa using h
    | some c' =>
      obtain ⟨cur, _, hp⟩ := C15_others hs
      intro p hpm
      simp only [Option.getD_some, hp, List.mem_map] at hpm
      obtain ⟨q, hq, rfl⟩ := hpm
      simpa [PropSt.update] using h q hq
  | clear => simp only [Chain.apply]; unfold clear; split <;> exact h
  | grow n => exact h
  | extend n => exact h
  | load s =>
    intro p hp
    have hcl : c.clear.props = c.props := by unfold clear; split <;> rfl
    simp only [Chain.apply, load, hcl] at hp
    obtain ⟨q, hq, he⟩ := loadProps_cfg _ _ p hp
    rw [he]; exact h q hq
  | rewrite st =>
    simp only [Chain.apply, (rewriteLast_fields c st).2.2.2.2.1]; exact h
  | reset =>
    intro p hp
    simp only [Chain.apply, resetProposals, List.mem_map] at hp
    obtain ⟨q, hq, rfl⟩ := hp
    unfold PropSt.reset; split <;> simpa using h q hq

/-- Running a chain for `n` iterations evaluates the model exactly `n` times per level
    (no componentwise proposals; with them add the documented virtual evaluations of
    `C18_iteration_calls`), however the run is interleaved with sweeps. -/
theorem C18_run_count {c c' : PTChain} {ins : List PTChain.StepIn} (hn : NoComp c)
    (h : Sampler.evolve c ins = some c') :
    totalCalls c' = totalCalls c + ins.length * c.ntemps ∧ c'.ntemps = c.ntemps := by
  induction ins generalizing c with
  | nil => simp [Sampler.evolve] at h; subst h; simp
  | cons i is ih =>
    simp only [Sampler.evolve, bind, Option.bind] at h
    cases h1 : c.step i with
    | none => simp [h1] at h
    | some c1 =>
      simp only [h1] at h
      have hcalls := C18_iteration_calls h1
      rw [noComp_extras hn] at hcalls
      have hn1 : NoComp c1 := by
        have := lift_apply (fun l => ∀ p ∈ l.props, p.cfg.comp = false)
          (fun l op hl => noComp_apply l op hl) (fun l b hl => hl) hn (.step i)
        simp only [PTChain.apply, h1, Option.getD_some] at this
        exact this
      have hnt : c1.ntemps = c.ntemps := by
        exact step_ntemps h1
      obtain ⟨h2, h3⟩ := ih hn1 h
      refine ⟨?_, by rw [h3, hnt]⟩
      rw [h2, hcalls, hnt]
      simp only [List.length_cons, Nat.add_mul, Nat.one_mul]
      omega

/-- The values recorded for an accepted point are those returned by that step's single
    evaluation (`i.eval`); see `C08_accept_records_proposed` for the full statement. -/
theorem C18_recorded_from_that_call {c : Chain} {cur : St} {i : StepIn}
    (hacc : (stepRec c cur i).acc.accepted = true) :
    (stepRec c cur i).st.logl = i.eval.logl ∧ i.eval.logp = some (stepRec c cur i).st.logp ∧
    (stepRec c cur i).st.blob = i.eval.blob := by
  unfold stepRec at hacc ⊢
  simp only at hacc ⊢
  split at hacc
  · rename_i ha
    obtain ⟨lp, hlp⟩ := accepted_logp_some ha
    simp [ha, hlp]
  · simp at hacc

/-! ### Non-vacuity -/

/-- The two-level chain of `C08.ops0` after its start positions were set (2 evaluations). -/
def ptS : PTChain := PTChain.runOps (PTChain.fresh [1, 1/2] 1 [C08.cfg0]) (C08.ops0.take 2)

def in1 : PTChain.StepIn :=
  { levels := [ { jumps := [[.num 3]], eval := C08.m0 [.num 3], rev := [0], fwd := [0], logu := -1 },
                { jumps := [[.num 0]], eval := C08.m0 [.num 0], rev := [0], fwd := [0], logu := 0 } ],
    sweep := { us := [], newBetas := [] } }

/-- The second iteration's sweep sees equal log-likelihoods (`logar = 0`) and draws a uniform. -/
def in2 : PTChain.StepIn := { in1 with sweep := { us := [-1], newBetas := [] } }

/-- `C18_run_count` applies: the chain has no componentwise proposal and the run succeeds;
    two iterations with two sweeps on two levels made exactly four more evaluations. -/
example : NoComp ptS := by
  have h : ptS.levels.all (fun l => l.props.all fun p => !p.cfg.comp) = true := by decide +kernel
  intro l hl p hp
  have := List.all_eq_true.mp (List.all_eq_true.mp h l hl) p hp
  simpa using this

example : ((Sampler.evolve ptS [in1, in2]).map totalCalls) = some (totalCalls ptS + 2 * 2) ∧
    totalCalls ptS = 2 := by decide +kernel

/-- A componentwise Andrieu–Thoms proposal on two parameters inside its window makes two
    virtual evaluations per update and none outside the window. -/
example :
    let cfg : PropCfg := { params := [0, 1], symmetric := true, adaptive := true, k := 1, dur := 0,
                           window := .at, T := 10, start0 := 1, comp := true, savesNsteps := true }
    extraCalls [{ cfg := cfg, raw := 3, startStep := 1, events := [] }] = 2 ∧
    extraCalls [{ cfg := cfg, raw := 0, startStep := 1, events := [] }] = 0 ∧
    extraCalls [{ cfg := cfg, raw := 12, startStep := 1, events := [] }] = 0 := by decide +kernel

end Epsie.C18
