/-
  C15, generated obligation: every exported proposal class passes a requested
  `jump_interval` through to the base class (measured on the live classes by
  harness/gen_tables.py on every run).
-/
import EpsieModel.Generated.Tables
namespace Epsie.C15

theorem C15_table_jump_interval_honoured : JumpIntervalHonoured Generated.families := by decide

theorem C15_table_all_known : ∀ f ∈ Generated.families, f.known = true := by decide

end Epsie.C15
