/-
  C14 — Adaptive proposals stay usable: finite scales, no crash, no stall.

  Statements only (helper lemmas: EpsieProofs/AdaptLemmas.lean).  Level: proof,
  **partial** — what is proved is (i) the admissibility invariants of the
  exact-arithmetic recursions under every history whose acceptance ratios lie in
  `[0,1]` (positive widths, positive semidefinite covariances, positive
  concentration, explicit bounds on the scale factors in terms of the gains of the
  window), (ii) the acceptance mass of the rejection loops as a function of
  scale / width, and (iii) what (i) and (ii) force on the code as it is:
    * `C14_at_stall_witness` — the Andrieu–Thoms / eigenvector scale factor has no
      cap: always-accepted histories drive `log λ` to `(1-ξ)(1.5 T^0.4 - 10/3)`,
      and a rejection loop on a bounded domain then needs `≥ σ/(L w)` draws
      (recorded finding F19);
    * `C14_vmf_norm_underflow_witness` — always-rejected histories with
      `adaptation_duration ≥ 1200` drive the exact concentration above 709, where
      IEEE doubles evaluate `κ/(4π sinh κ)` to 0 (threshold ≈ 707.94).  Since the
      repair of F18 the `norm` setter accepts 0, `_logpdf` uses the log-space
      `_lognormalisation` and `_new_point` does not use `norm`: no update raises
      for any finite `κ > 0` (`C14_vmf_no_raise`).
  The Veitch widths start from a free input (`initial_std`, per parameter; default
  `(1-ξ) 0.09 Δ`): `C14_veitch_pos` — every width stays strictly positive under every
  history (the guard tests `≤ 0`, repo fix 36b7cfa); `C14_veitch_guard_per_parameter` /
  `C14_veitch_guard_mixed` state the guard parameter by parameter, `C14_veitch_proportional`
  shows why only widths that are not proportional to the prior widths can exercise it;
  `C14_veitch_zero_width_excluded`: with `target_rate = 1/2` the first rejected update would
  make the default widths exactly 0 — the guard keeps the old width.
  IEEE arithmetic enters only through `Representable lk := -745 < lk < 709` (the
  range on which `numpy.exp` is positive and finite): `C14_vmf_logkappa_representable`
  proves that the exact `log κ` stays inside it for every history and every
  adaptation duration up to 10^6.
-/
import EpsieProofs.AdaptLemmas
import EpsieProps.C13
set_option linter.unusedSectionVars false
set_option linter.unusedVariables false
namespace Epsie.C14
open Epsie.Adapt Epsie.C13

/-! ## Rejection loops -/

/-- A bounded / angular / bounded-discrete `_jump` redraws `N(x, σ)` until it lands in
    `[lo, hi]`; the draws needed are geometric with success probability
    `p = F((hi-x)/σ) - F((lo-x)/σ)` (`F` the standard cdf: symmetric, concave on `[0,∞)`).
    From every `x` inside the domain, boundaries included, `p ≥ F(w/σ) - ½`. -/
theorem C14_retry_bound (F : ℝ → ℝ) (hsym : ∀ t, F (-t) = 1 - F t)
    (hconc : ConcaveOn ℝ (Set.Ici 0) F) (lo hi x σ : ℝ) (hσ : 0 < σ) (h1 : lo ≤ x) (h2 : x ≤ hi) :
    F ((hi - lo) / σ) - 1 / 2 ≤ F ((hi - x) / σ) - F ((lo - x) / σ) :=
  retry_bound F hsym hconc lo hi x σ hσ h1 h2

/-- Without concavity (any symmetric monotone `F`): `p ≥ F(w/(2σ)) - ½`. -/
theorem C14_retry_bound_monotone (F : ℝ → ℝ) (hmono : Monotone F) (hsym : ∀ t, F (-t) = 1 - F t)
    (lo hi x σ : ℝ) (hσ : 0 < σ) (h1 : lo ≤ x) (h2 : x ≤ hi) :
    F ((hi - lo) / (2 * σ)) - 1 / 2 ≤ F ((hi - x) / σ) - F ((lo - x) / σ) :=
  retry_bound_monotone F hmono hsym lo hi x σ hσ h1 h2

/-- Hence a scale capped at `c` widths (`σ ≤ c w`; Sivia–Skilling: `c = 1.49`) keeps the
    success probability `≥ F(1/c) - ½`, i.e. the expected number of draws per parameter
    `≤ 1/(F(1/c) - ½)` (≈ 4.0 for the normal cdf and `c = 1.49`), at every position. -/
theorem C14_retry_bound_scale (F : ℝ → ℝ) (hmono : Monotone F) (hsym : ∀ t, F (-t) = 1 - F t)
    (hconc : ConcaveOn ℝ (Set.Ici 0) F) (lo hi x σ c : ℝ) (hσ : 0 < σ) (hc : 0 < c)
    (hw : lo < hi) (hcap : σ ≤ c * (hi - lo)) (h1 : lo ≤ x) (h2 : x ≤ hi) :
    F (1 / c) - 1 / 2 ≤ F ((hi - x) / σ) - F ((lo - x) / σ) := by
  have hb := retry_bound F hsym hconc lo hi x σ hσ h1 h2
  have : 1 / c ≤ (hi - lo) / σ := by
    rw [div_le_div_iff₀ hc hσ]
    linarith
  have := hmono this
  linarith

/-- The other direction: if the proposal density is at most `L` (normal: `1/√(2π)`), the
    success probability is at most `L w/σ`: a scale of `s` widths needs `≥ s/L` draws. -/
theorem C14_accept_mass_le (F : ℝ → ℝ) (L : ℝ) (hL : ∀ s t, s ≤ t → F t - F s ≤ L * (t - s))
    (lo hi x σ : ℝ) (hσ : 0 < σ) (h : lo ≤ hi) :
    F ((hi - x) / σ) - F ((lo - x) / σ) ≤ L * ((hi - lo) / σ) :=
  accept_mass_le F L hL lo hi x σ hσ h

section Generic
variable {α : Type} [Field α] [LinearOrder α] [IsStrictOrderedRing α]

/-! ## Sivia–Skilling -/

/-- Under every accept/reject history: every entry of the scale stays positive, and with a
    cap no entry ever exceeds `max(σ₀, max_std)` (`B` any bound on both): narrowing is always
    allowed, widening only within the cap.  (Default caps: `1.49 w` bounded
    normal / discrete, `1.49·2π` angular ⇒ `C14_retry_bound_scale` with `c = 1.49`.) -/
theorem C14_ss_bounded {m : Nat} (c : SSCfg α) (hup : ∀ n, 0 < c.alphaUp n)
    (hdn : ∀ n, 0 < c.alphaDown n) (hs : List Bool) (a a' : Ad (SSSt α m))
    (hpos : ∀ i : Fin m, 0 < a.num.vals[i])
    (hr : Ad.run (fun (acc : Bool) dk _ s => ssBody c acc dk s) id a hs = some a') :
    (∀ i : Fin m, 0 < a'.num.vals[i]) ∧
    (∀ cap B, c.cap = some cap → cap ≤ B → (∀ i : Fin m, a.num.vals[i] ≤ B) →
      ∀ i : Fin m, a'.num.vals[i] ≤ B) := by
  refine ⟨?_, ?_⟩
  · refine Ad.run_inv _ id (fun b : Ad (SSSt α m) => ∀ i : Fin m, 0 < b.num.vals[i]) ?_ hs a a' hpos hr
    intro b x b' hb hu
    rcases (Ad.update_eq_some hu).2 with ⟨_, hbody⟩ | ⟨_, hnum⟩
    · exact ssBody_pos hup hdn hbody hb
    · rw [hnum]; exact hb
  · intro cap B hc hB hle
    have := Ad.run_inv _ id
      (fun b : Ad (SSSt α m) => (∀ i : Fin m, 0 < b.num.vals[i]) ∧ ∀ i : Fin m, b.num.vals[i] ≤ B)
      ?_ hs a a' ⟨hpos, hle⟩ hr
    · exact this.2
    intro b x b' hb hu
    rcases (Ad.update_eq_some hu).2 with ⟨_, hbody⟩ | ⟨_, hnum⟩
    · exact ⟨ssBody_pos hup hdn hbody hb.1, ssBody_le hc hup hdn hbody hB hb.1 hb.2⟩
    · rw [hnum]; exact hb

/-- The Sivia–Skilling update never raises from a clock with `start_step ≤ nsteps + 1`
    (constructor: `start_step = 1`; `_reset_adaptation`: `start_step = nsteps`), under any
    history: `n_iter ≥ 1`, no division by zero. -/
theorem C14_ss_never_raises {m : Nat} (c : SSCfg α) (hs : List Bool) :
    ∀ (a : Ad (SSSt α m)), a.clock.startStep ≤ a.clock.nsteps + 1 →
      ∃ a', Ad.run (fun (acc : Bool) dk _ s => ssBody c acc dk s) id a hs = some a' := by
  induction hs with
  | nil => intro a _; exact ⟨a, rfl⟩
  | cons x xs ih =>
    intro a h
    have hdk : ¬ (a.clock.dkUpdate + 1 ≤ 0) := by unfold PropSt.dkUpdate; omega
    have hbody : ∃ s', ssBody c x a.clock.dkUpdate a.num = some s' := by
      unfold ssBody; simp [hdk]
    obtain ⟨s', hs'⟩ := hbody
    have hup : ∃ b, a.update (fun dk _ s => ssBody c x dk s) x = some b ∧
        b.clock = a.clock.update x (arTag x) [] := by
      unfold Ad.update
      by_cases hu : (a.clock.callJump && a.clock.inWindow) = true
      · simp [hu, hs']
      · simp [hu]
    obtain ⟨b, hb, hbc⟩ := hup
    have hb' : b.clock.startStep ≤ b.clock.nsteps + 1 := by
      rw [hbc, update_startStep]
      have := nsteps_update_ge a.clock x (arTag x) []
      omega
    obtain ⟨a', ha'⟩ := ih b hb'
    exact ⟨a', by simp [Ad.run, id, hb, ha']⟩

/-! ## Veitch -/

/-- Under every accept/reject history: every width stays `≥ 0` and is at most its initial
    value plus `(1-ξ) Δ/10` times the gains absorbed, which never exceed the gains of the
    whole window `Σ_{1 ≤ d < T} g_d` (explicit in `T`; `g_d ≤ 1`, `C14_veitch_gain_le`). -/
theorem C14_veitch_bounded {n : Nat} (c : VeitchCfg α n) (hxi : 0 < c.xi ∧ c.xi < 1)
    (hd : ∀ i : Fin n, 0 < c.deltas[i]) (hs : List Bool) (a a' : Ad (Vector α n))
    (hw : a.clock.cfg.window = .veitch) (hci : ClockInv a)
    (hg : VeitchGainOK a.clock.cfg.T c.gain) (h0 : ∀ i : Fin n, 0 ≤ a.num[i])
    (hr : Ad.run (fun (acc : Bool) dk _ s => some (veitchBody c acc dk s)) id a hs = some a') :
    (∀ i : Fin n, 0 ≤ a'.num[i] ∧
      a'.num[i] ≤ a.num[i] + (1 - c.xi) * (gsum c.gain a'.clock - gsum c.gain a.clock) * c.deltas[i] / 10) ∧
    gsum c.gain a'.clock ≤ ∑ d ∈ Finset.Ioo (0 : Int) (a.clock.cfg.T : Int), c.gain d := by
  have key := Ad.run_inv (fun (acc : Bool) dk _ s => some (veitchBody c acc dk s)) id
    (fun b => b.clock.cfg = a.clock.cfg ∧ ClockInv b ∧ ∀ i : Fin n, 0 ≤ b.num[i] ∧
      b.num[i] ≤ a.num[i] + (1 - c.xi) * (gsum c.gain b.clock - gsum c.gain a.clock) * c.deltas[i] / 10)
    (by
      intro b x b' ⟨hcfg, hcb, hb⟩ hu
      have hw' : b.clock.cfg.window = .veitch := by rw [hcfg]; exact hw
      have hg' : VeitchGainOK b.clock.cfg.T c.gain := by rw [hcfg]; exact hg
      obtain ⟨hc, hcase⟩ := Ad.update_eq_some hu
      replace hc : b'.clock = b.clock.update x (arTag x) [] := hc
      have hdir := C13_veitch_dir c hw' hg' hxi hd (fun i => (hb i).1) hu
      refine ⟨by rw [hc, update_cfg]; exact hcfg, clockInv_step hcb hu, fun i => ⟨hdir.2.2 i, ?_⟩⟩
      have hgs := gsum_update c.gain b.clock x (arTag x) []
      rw [← hc] at hgs
      rcases hcase with ⟨hup, hbody⟩ | ⟨hup, hnum⟩
      · simp only [Option.some.injEq] at hbody
        have hin : b.clock.inWindow = true := by
          cases hcw : b.clock.inWindow <;> simp [hcw] at hup ⊢
        have hbd := inWindow_bounds (Or.inl hw') hin
        rw [hw'] at hbd
        have hgp : 0 < c.gain b.clock.dkUpdate :=
          hg' _ (by have := hbd.1; simp [winLo] at this; omega) hbd.2
        rw [hgs, ← hbody, veitchBody_getElem]
        simp only [hup, if_true]
        have h1 := veitchComp_le (s := b.num[i]) hxi.1.le hxi.2.le hgp.le (hd i).le x
        have h2 := (hb i).2
        have e : a.num[i] + (1 - c.xi) * (gsum c.gain b.clock + c.gain b.clock.dkUpdate - gsum c.gain a.clock) * c.deltas[i] / 10
            = (a.num[i] + (1 - c.xi) * (gsum c.gain b.clock - gsum c.gain a.clock) * c.deltas[i] / 10)
              + (1 - c.xi) * c.gain b.clock.dkUpdate * c.deltas[i] / 10 := by ring
        rw [e]
        linarith
      · rw [hgs, hnum]
        simp only [hup, Bool.false_eq_true, if_false, add_zero]
        exact (hb i).2)
    hs a a' ⟨rfl, hci, fun i => ⟨h0 i, by simp⟩⟩ hr
  obtain ⟨hcfg, hcb, hb⟩ := key
  refine ⟨hb, ?_⟩
  have := gsum_le_window c.gain hcb.2.2 (by
    intro d h1 h2
    rw [hcfg, hw] at h1
    rw [hcfg] at h2
    exact (hg d (by simp [winLo] at h1; omega) h2).le)
  rw [hcfg, hw] at this
  exact this

/-- **Positive widths, every history.**  The guard keeps the old width whenever the new one
    would be `≤ 0`, so one update maps positive widths to positive widths — for every target
    rate, gain (any sign: any `adaptation_decay`), prior width and accepted flag ... -/
theorem C14_veitch_pos_step {n : Nat} (c : VeitchCfg α n) (acc : Bool) (dk : Int)
    (std : Vector α n) (i : Fin n) (hpos : 0 < std[i]) : 0 < (veitchBody c acc dk std)[i] := by
  rw [veitchBody_getElem]
  exact veitchComp_pos hpos

/-- ... hence under EVERY accept/reject history (any length, start step, duration, jump
    interval), from any positive initial widths (`initial_std` per parameter, or the default
    `C14_veitch_default_std_pos`), every width stays strictly positive.  No hypothesis on the
    configuration is needed. -/
theorem C14_veitch_pos {n : Nat} (c : VeitchCfg α n) (hs : List Bool) (a a' : Ad (Vector α n))
    (h0 : ∀ i : Fin n, 0 < a.num[i])
    (hr : Ad.run (fun (acc : Bool) dk _ s => some (veitchBody c acc dk s)) id a hs = some a') :
    ∀ i : Fin n, 0 < a'.num[i] := by
  refine Ad.run_inv _ id (fun b : Ad (Vector α n) => ∀ i : Fin n, 0 < b.num[i]) ?_ hs a a' h0 hr
  intro b x b' hb hu
  rcases (Ad.update_eq_some hu).2 with ⟨_, hbody⟩ | ⟨_, hnum⟩
  · simp only [Option.some.injEq] at hbody
    intro i
    rw [← hbody]
    exact C14_veitch_pos_step c x b.clock.dkUpdate b.num i (hb i)
  · rw [hnum]; exact hb

/-- The Veitch update never raises (its body is total). -/
theorem C14_veitch_never_raises {n : Nat} (c : VeitchCfg α n) (hs : List Bool) :
    ∀ a : Ad (Vector α n),
      ∃ a', Ad.run (fun (acc : Bool) dk _ s => some (veitchBody c acc dk s)) id a hs = some a' := by
  induction hs with
  | nil => intro a; exact ⟨a, rfl⟩
  | cons x xs ih =>
    intro a
    have hup : ∃ b, a.update (fun dk _ s => some (veitchBody c x dk s)) x = some b := by
      unfold Ad.update
      by_cases hu : (a.clock.callJump && a.clock.inWindow) = true
      · simp [hu]
      · simp [hu]
    obtain ⟨b, hb⟩ := hup
    obtain ⟨a', ha'⟩ := ih b
    exact ⟨a', by simp [Ad.run, id, hb, ha']⟩

/-- The guard is decided **for every parameter separately**.  The initial widths are a free input
    (`initial_std`: any array, in no fixed proportion to the prior widths), so one update can take
    one width to or below zero and leave another positive: width `i` is left unchanged iff ITS OWN
    new value `σ_i + α g Δ_i/10` would be `≤ 0`, and is moved by exactly `α g Δ_i/10` otherwise —
    whatever happens to the other widths. -/
theorem C14_veitch_guard_per_parameter {n : Nat} (c : VeitchCfg α n) (acc : Bool) (dk : Int)
    (std : Vector α n) (i : Fin n) :
    (std[i] + veitchAlpha c.xi acc * c.gain dk * c.deltas[i] / 10 ≤ 0 →
      (veitchBody c acc dk std)[i] = std[i]) ∧
    (0 < std[i] + veitchAlpha c.xi acc * c.gain dk * c.deltas[i] / 10 →
      (veitchBody c acc dk std)[i] = std[i] + veitchAlpha c.xi acc * c.gain dk * c.deltas[i] / 10) := by
  rw [veitchBody_getElem]
  exact ⟨fun h => veitchComp_guard h, fun h => veitchComp_step h⟩

/-- ... in particular after a rejected step that would make width `i` non-positive but not width
    `j`: width `i` keeps its value, width `j` shrinks, and both stay positive (no update is
    skipped or applied for all widths together). -/
theorem C14_veitch_guard_mixed {n : Nat} (c : VeitchCfg α n) (hxi : 0 < c.xi) (dk : Int)
    (hg : 0 < c.gain dk) (std : Vector α n) (i j : Fin n) (hdj : 0 < c.deltas[j]) (hsi : 0 < std[i])
    (hi : std[i] + -c.xi * c.gain dk * c.deltas[i] / 10 ≤ 0)
    (hj : 0 < std[j] + -c.xi * c.gain dk * c.deltas[j] / 10) :
    (veitchBody c false dk std)[i] = std[i] ∧ 0 < (veitchBody c false dk std)[i] ∧
    (veitchBody c false dk std)[j] < std[j] ∧ 0 < (veitchBody c false dk std)[j] := by
  have hi' := (C14_veitch_guard_per_parameter c false dk std i).1
    (by simpa [veitchAlpha] using hi)
  have hj' := (C14_veitch_guard_per_parameter c false dk std j).2
    (by simpa [veitchAlpha] using hj)
  simp only [veitchAlpha, Bool.false_eq_true, if_false] at hj'
  refine ⟨hi', by rw [hi']; exact hsi, ?_, by rw [hj']; exact hj⟩
  rw [veitchBody_getElem]
  simp only [veitchAlpha, Bool.false_eq_true, if_false]
  exact veitchComp_reject_lt hxi hg hdj hj

/-- The documented default initial widths `(1-ξ) 0.09 Δ` are positive ... -/
theorem C14_veitch_default_std_pos {n : Nat} (xi : α) (hxi : xi < 1) (deltas : Vector α n)
    (hd : ∀ i : Fin n, 0 < deltas[i]) (i : Fin n) : 0 < (veitchDefaultStd xi deltas)[i] := by
  rw [veitchDefaultStd_getElem]
  have h1 : (0 : α) < 1 - xi := by linarith
  have h2 : (0 : α) < (10 - 1) / (10 * 10) := by norm_num
  exact mul_pos (mul_pos h1 h2) (hd i)

/-- ... and proportional to the prior widths, and proportionality `σ = t Δ` is preserved by every
    update: all widths then meet the guard at the same update.  (This is why only widths that
    are NOT proportional to the prior widths — a user-supplied `initial_std` — can tell a
    per-parameter guard from an all-or-nothing one.) -/
theorem C14_veitch_proportional {n : Nat} (c : VeitchCfg α n) (hd : ∀ i : Fin n, 0 < c.deltas[i])
    (acc : Bool) (dk : Int) (std : Vector α n) (t : α) (ht : ∀ i : Fin n, std[i] = t * c.deltas[i]) :
    ∀ i : Fin n, (veitchBody c acc dk std)[i] =
      (if t + veitchAlpha c.xi acc * c.gain dk / 10 ≤ 0 then t
       else t + veitchAlpha c.xi acc * c.gain dk / 10) * c.deltas[i] := by
  intro i
  rw [veitchBody_getElem, veitchComp_eq, ht i]
  have e : t * c.deltas[i] + veitchAlpha c.xi acc * c.gain dk * c.deltas[i] / 10
      = (t + veitchAlpha c.xi acc * c.gain dk / 10) * c.deltas[i] := by ring
  rw [e]
  by_cases h : t + veitchAlpha c.xi acc * c.gain dk / 10 ≤ 0
  · rw [if_pos (mul_nonpos_of_nonpos_of_nonneg h (hd i).le), if_pos h]
  · rw [if_neg (not_le.mpr (mul_pos (not_le.mp h) (hd i))), if_neg h]

theorem C14_veitch_default_proportional {n : Nat} (xi : α) (deltas : Vector α n) (i : Fin n) :
    (veitchDefaultStd xi deltas)[i] = ((1 - xi) * ((10 - 1) / (10 * 10))) * deltas[i] :=
  veitchDefaultStd_getElem xi deltas i

/-- **The exact-zero candidate is excluded by the guard** (repo fix 36b7cfa).  With
    `target_rate = 1/2` and the default initial widths `σ₀ = (1-ξ) 0.09 Δ = 0.045 Δ`, the first
    update of the window (`dk = 1`, gain `1 - T^-β = 0.9` for the default decay,
    `C14_veitch_gain_one`) after a rejected step proposes the new width
    `σ₀ - ξ 0.9 Δ/10 = 0` — exactly zero, not a coincidence of rounding, and not `< 0` (a guard
    testing only `< 0` would install it: numpy then returns the current point for `scale = 0`,
    which the non-successive discrete proposals redraw for ever and for which the bounded
    normal's density is NaN).  The guard tests `≤ 0`: the same inputs keep the old, positive
    width. -/
theorem C14_veitch_zero_width_excluded {n : Nat} (c : VeitchCfg α n) (hxi : c.xi = 1 / 2)
    (hg : c.gain 1 = 9 / 10) (hd : ∀ i : Fin n, 0 < c.deltas[i]) (i : Fin n) :
    (veitchDefaultStd c.xi c.deltas)[i] + veitchAlpha c.xi false * c.gain 1 * c.deltas[i] / 10 = 0 ∧
    (veitchBody c false 1 (veitchDefaultStd c.xi c.deltas))[i] = (veitchDefaultStd c.xi c.deltas)[i] ∧
    0 < (veitchBody c false 1 (veitchDefaultStd c.xi c.deltas))[i] := by
  have e : (veitchDefaultStd c.xi c.deltas)[i]
      + veitchAlpha c.xi false * c.gain 1 * c.deltas[i] / 10 = 0 := by
    rw [veitchDefaultStd_getElem]
    simp only [veitchAlpha, Bool.false_eq_true, if_false]
    rw [hxi, hg]; ring
  have hk := (C14_veitch_guard_per_parameter c false 1 (veitchDefaultStd c.xi c.deltas) i).1 (le_of_eq e)
  refine ⟨e, hk, ?_⟩
  rw [hk]
  exact C14_veitch_default_std_pos c.xi (by rw [hxi]; norm_num) c.deltas hd i

/-- More generally: whenever `σ_i = ξ g Δ_i/10` exactly, a rejected update keeps `σ_i`. -/
theorem C14_veitch_zero_width_excluded_exact {n : Nat} (c : VeitchCfg α n) (dk : Int)
    (std : Vector α n) (i : Fin n) (h : std[i] = c.xi * c.gain dk * c.deltas[i] / 10) :
    (veitchBody c false dk std)[i] = std[i] := by
  refine (C14_veitch_guard_per_parameter c false dk std i).1 (le_of_eq ?_)
  simp only [veitchAlpha, Bool.false_eq_true, if_false]
  rw [h]; ring

/-! ## Andrieu–Thoms, eigenvector -/

/-- Under every history with acceptance ratios in `[0,1]`: `log λ` of every coordinate stays
    within `max(ξ, 1-ξ)` times the gains absorbed of its initial value, and these never
    exceed the gains of the whole window `Σ_{1 < d < T} g_d`. -/
theorem C14_at_loglambda_bounded {n : Nat} (c : ATCfg α) (hs : List (Bool × ATIn α n))
    (hall : ∀ x ∈ hs, (0 ≤ x.2.ar ∧ x.2.ar ≤ 1) ∧ ∀ j : Fin n, 0 ≤ x.2.vars[j] ∧ x.2.vars[j] ≤ 1)
    (a a' : Ad (ATSt α n)) (hw : a.clock.cfg.window = .at) (hci : ClockInv a)
    (hg : ATGainOK a.clock.cfg.T c.gain)
    (hr : Ad.run (fun (x : Bool × ATIn α n) dk _ s => some (atBody c x.2 dk s)) (·.1) a hs = some a') :
    (∀ j : Fin n, |lamAt a'.num.logLam j - lamAt a.num.logLam j|
        ≤ max c.xi (1 - c.xi) * (gsum c.gain a'.clock - gsum c.gain a.clock)) ∧
    gsum c.gain a'.clock ≤ ∑ d ∈ Finset.Ioo (1 : Int) (a.clock.cfg.T : Int), c.gain d := by
  have key : ∀ (hs : List (Bool × ATIn α n)) (b : Ad (ATSt α n)),
      (∀ x ∈ hs, (0 ≤ x.2.ar ∧ x.2.ar ≤ 1) ∧ ∀ j : Fin n, 0 ≤ x.2.vars[j] ∧ x.2.vars[j] ≤ 1) →
      b.clock.cfg = a.clock.cfg → ClockInv b →
      Ad.run (fun (x : Bool × ATIn α n) dk _ s => some (atBody c x.2 dk s)) (·.1) b hs = some a' →
      a'.clock.cfg = a.clock.cfg ∧ ClockInv a' ∧
      ∀ j : Fin n, |lamAt a'.num.logLam j - lamAt b.num.logLam j|
        ≤ max c.xi (1 - c.xi) * (gsum c.gain a'.clock - gsum c.gain b.clock) := by
    intro hs
    induction hs with
    | nil =>
      intro b _ hcfg hcb hrun
      simp [Ad.run] at hrun; subst hrun
      exact ⟨hcfg, hcb, fun j => by simp⟩
    | cons x xs ih =>
      intro b hall hcfg hcb hrun
      simp only [Ad.run, Option.bind_eq_some_iff] at hrun
      obtain ⟨b', hb', hrun⟩ := hrun
      obtain ⟨hc, hcase⟩ := Ad.update_eq_some hb'
      have hcfg' : b'.clock.cfg = a.clock.cfg := by rw [hc, update_cfg]; exact hcfg
      obtain ⟨h1, h2, h3⟩ := ih b' (fun y hy => hall y (List.mem_cons_of_mem _ hy)) hcfg'
        (clockInv_step hcb hb') hrun
      refine ⟨h1, h2, fun j => ?_⟩
      have hx := hall x (List.mem_cons_self ..)
      have hw' : b.clock.cfg.window = .at := by rw [hcfg]; exact hw
      have hgs := gsum_update c.gain b.clock x.1 (arTag x.1) []
      rw [← hc] at hgs
      have hstep : |lamAt b'.num.logLam j - lamAt b.num.logLam j|
          ≤ max c.xi (1 - c.xi) * (gsum c.gain b'.clock - gsum c.gain b.clock) := by
        rcases hcase with ⟨hup, hbody⟩ | ⟨hup, hnum⟩
        · simp only [Option.some.injEq] at hbody
          have hin : b.clock.inWindow = true := by
            cases hcw : b.clock.inWindow <;> simp [hcw] at hup ⊢
          have hbd := inWindow_bounds (Or.inr hw') hin
          rw [hw', hcfg] at hbd
          have hgp := (hg _ (by simpa [winLo] using hbd.1) hbd.2).1
          rw [hgs, ← hbody, atBody_lamAt]
          simp only [hup, if_true, add_sub_cancel_left]
          have har : 0 ≤ arAt b.num.logLam x.2 j ∧ arAt b.num.logLam x.2 j ≤ 1 := by
            unfold arAt
            cases b.num.logLam with
            | glob _ => exact hx.1
            | comp _ => exact hx.2 j
          have := atLam_abs (g := c.gain b.clock.dkUpdate) (xi := c.xi) (l := lamAt b.num.logLam j)
            hgp.le har.1 har.2
          rw [mul_comm] at this
          exact this
        · rw [hgs, hnum]
          simp [hup]
      have h3j := h3 j
      calc |lamAt a'.num.logLam j - lamAt b.num.logLam j|
          = |(lamAt a'.num.logLam j - lamAt b'.num.logLam j) + (lamAt b'.num.logLam j - lamAt b.num.logLam j)| := by
            congr 1; ring
        _ ≤ |lamAt a'.num.logLam j - lamAt b'.num.logLam j| + |lamAt b'.num.logLam j - lamAt b.num.logLam j| :=
            abs_add_le _ _
        _ ≤ max c.xi (1 - c.xi) * (gsum c.gain a'.clock - gsum c.gain b'.clock)
            + max c.xi (1 - c.xi) * (gsum c.gain b'.clock - gsum c.gain b.clock) := add_le_add h3j hstep
        _ = max c.xi (1 - c.xi) * (gsum c.gain a'.clock - gsum c.gain b.clock) := by ring
  obtain ⟨hcfg, hca, hb⟩ := key hs a hall rfl hci hr
  refine ⟨hb, ?_⟩
  have := gsum_le_window c.gain hca.2.2 (by
    intro d h1 h2
    rw [hcfg, hw] at h1
    rw [hcfg] at h2
    exact (hg d (by simpa [winLo] using h1) h2).1.le)
  rw [hcfg, hw] at this
  exact this

/-- The shape stays admissible under every history (any positions, any acceptance ratios):
    a diagonal `_unit_cov` stays entrywise positive, a full one positive semidefinite — each
    update is a convex combination with weight `0 < g < 1`. -/
theorem C14_at_shape_admissible {n : Nat} (c : ATCfg α) (hs : List (Bool × ATIn α n))
    (a a' : Ad (ATSt α n)) (hw : a.clock.cfg.window = .at) (hg : ATGainOK a.clock.cfg.T c.gain)
    (hr : Ad.run (fun (x : Bool × ATIn α n) dk _ s => some (atBody c x.2 dk s)) (·.1) a hs = some a') :
    (∀ v, a.num.ucov = .diag v → (∀ j : Fin n, 0 < v[j]) →
      ∃ v', a'.num.ucov = .diag v' ∧ ∀ j : Fin n, 0 < v'[j]) ∧
    (∀ M, a.num.ucov = .full M → PSD M → ∃ M', a'.num.ucov = .full M' ∧ PSD M') := by
  have step : ∀ (b b' : Ad (ATSt α n)) (x : Bool × ATIn α n), b.clock.cfg = a.clock.cfg →
      b.update (fun dk _ s => some (atBody c x.2 dk s)) x.1 = some b' →
      ((∃ v, b.num.ucov = .diag v ∧ ∀ j : Fin n, 0 < v[j]) →
        ∃ v', b'.num.ucov = .diag v' ∧ ∀ j : Fin n, 0 < v'[j]) ∧
      ((∃ M, b.num.ucov = .full M ∧ PSD M) → ∃ M', b'.num.ucov = .full M' ∧ PSD M') := by
    intro b b' x hcfg hu
    obtain ⟨_, hcase⟩ := Ad.update_eq_some hu
    rcases hcase with ⟨hup, hbody⟩ | ⟨_, hnum⟩
    · simp only [Option.some.injEq] at hbody
      have hw' : b.clock.cfg.window = .at := by rw [hcfg]; exact hw
      have hin : b.clock.inWindow = true := by
        cases hcw : b.clock.inWindow <;> simp [hcw] at hup ⊢
      have hbd := inWindow_bounds (Or.inr hw') hin
      rw [hw', hcfg] at hbd
      obtain ⟨hg0, hg1⟩ := hg _ (by simpa [winLo] using hbd.1) hbd.2
      constructor
      · rintro ⟨v, hv, hpos⟩
        rw [← hbody]
        unfold atBody
        simp only [hv]
        refine ⟨_, rfl, fun j => ?_⟩
        simp only [Fin.getElem_fin, Vector.getElem_ofFn]
        exact conv_pos hg0.le hg1 (hpos j) (mul_self_nonneg _)
      · rintro ⟨M, hM, hpsd⟩
        rw [← hbody]
        unfold atBody
        simp only [hM]
        exact ⟨_, rfl, psd_convex hpsd _ hg0.le hg1.le⟩
    · rw [hnum]; exact ⟨id, id⟩
  have inv := Ad.run_inv (fun (x : Bool × ATIn α n) dk _ s => some (atBody c x.2 dk s)) (·.1)
    (fun b => b.clock.cfg = a.clock.cfg ∧
      ((∃ v, a.num.ucov = .diag v ∧ ∀ j : Fin n, 0 < v[j]) →
        ∃ v', b.num.ucov = .diag v' ∧ ∀ j : Fin n, 0 < v'[j]) ∧
      ((∃ M, a.num.ucov = .full M ∧ PSD M) → ∃ M', b.num.ucov = .full M' ∧ PSD M'))
    (by
      intro b x b' ⟨hcfg, h1, h2⟩ hu
      obtain ⟨s1, s2⟩ := step b b' x hcfg hu
      exact ⟨by rw [(Ad.update_eq_some hu).1, update_cfg]; exact hcfg,
        fun h => s1 (h1 h), fun h => s2 (h2 h)⟩)
    hs a a' ⟨rfl, id, id⟩ hr
  exact ⟨fun v hv hpos => inv.2.1 ⟨v, hv, hpos⟩, fun M hM hpsd => inv.2.2 ⟨M, hM, hpsd⟩⟩

/-- ... and so is the scale the proposal jumps with, for any positive values `sl j` of
    `exp(log λ_j)^½`: positive variances (diagonal), positive semidefinite covariance. -/
theorem C14_at_scale_admissible {n : Nat} (sl : Fin n → α) (hsl : ∀ j, 0 < sl j) (s : ATSt α n) :
    (∀ v, s.ucov = .diag v → (∀ j : Fin n, 0 < v[j]) →
      ∃ v', atScale sl s = .diag v' ∧ ∀ j : Fin n, 0 < v'[j]) ∧
    (∀ M, s.ucov = .full M → PSD M → ∃ M', atScale sl s = .full M' ∧ PSD M') := by
  constructor
  · intro v hv hpos
    unfold atScale
    simp only [hv]
    refine ⟨_, rfl, fun j => ?_⟩
    simp only [Fin.getElem_fin, Vector.getElem_ofFn]
    exact mul_pos (mul_pos (hsl j) (hsl j)) (hpos j)
  · intro M hM hpsd
    unfold atScale
    simp only [hM]
    exact ⟨_, rfl, psd_scale hpsd sl⟩

/-- Adaptive eigenvector: inside the window `N = nsteps ≥ 2` (no division by zero in
    `recursive_covariance`), and an update keeps the covariance positive semidefinite. -/
theorem C14_eig_cov_admissible {n : Nat} (c : ATCfg α) (tol : α) {a a' : Ad (EigSt α n)}
    {acc : Bool} {i : EigIn α n} (hw : a.clock.cfg.window = .at) (hst : 1 ≤ a.clock.startStep)
    (hpsd : PSD a.num.cov) (h : eigUpdate c tol a acc i = some a') :
    ((a.clock.callJump && a.clock.inWindow) = true → 2 ≤ a.clock.nsteps) ∧ PSD a'.num.cov := by
  obtain ⟨_, hcase⟩ := Ad.update_eq_some h
  have hN : (a.clock.callJump && a.clock.inWindow) = true → 2 ≤ a.clock.nsteps := by
    intro hu
    have hin : a.clock.inWindow = true := by
      cases hcw : a.clock.inWindow <;> simp [hcw] at hu ⊢
    have := (inWindow_at_iff a.clock hw).mp hin
    omega
  refine ⟨hN, ?_⟩
  rcases hcase with ⟨hu, hb⟩ | ⟨_, hnum⟩
  · unfold eigBody at hb
    simp only at hb
    split at hb
    · cases hb
    · simp only [Option.some.injEq] at hb
      rw [← hb]
      have h2 : (2 : α) ≤ (a.clock.nsteps : α) := by exact_mod_cast hN hu
      exact psd_eigCov hpsd _ h2
  · rw [hnum]; exact hpsd

/-! ## von Mises–Fisher -/

/-- Whenever an update returns, the concentration it leaves is positive and the
    normalisation non-negative (the setters raise otherwise): `κ > 0` always. -/
theorem C14_vmf_kappa_pos (c : ATCfg α) (hs : List (Bool × VmfIn α)) (a a' : Ad (VmfSt α))
    (h0 : 0 < a.num.kappa ∧ 0 ≤ a.num.norm)
    (hr : Ad.run (fun (x : Bool × VmfIn α) dk _ s => vmfBody c x.2 dk s) (·.1) a hs = some a') :
    0 < a'.num.kappa ∧ 0 ≤ a'.num.norm := by
  refine Ad.run_inv _ (·.1) (fun b : Ad (VmfSt α) => 0 < b.num.kappa ∧ 0 ≤ b.num.norm) ?_ hs a a' h0 hr
  intro b x b' hb hu
  rcases (Ad.update_eq_some hu).2 with ⟨_, hbody⟩ | ⟨_, hnum⟩
  · obtain ⟨h1, h2, h3, h4, _⟩ := vmfBody_eq_some hbody
    rw [h3, h4]; exact ⟨h1, h2⟩
  · rw [hnum]; exact hb

/-- An update raises in exactly two cases: the evaluated `exp(log κ)` is not positive, or the
    evaluated normalisation is negative.  In particular it returns for every positive
    concentration whose normalisation evaluates to a number `≥ 0` — 0 included, which is
    what IEEE doubles give for `κ > 707.94`. -/
theorem C14_vmf_no_raise (c : ATCfg α) (i : VmfIn α) (dk : Int) (s : VmfSt α) :
    (vmfBody c i dk s = none ↔ ¬ (0 < i.ek) ∨ i.nm < 0) ∧
    (0 < i.ek → 0 ≤ i.nm → ∃ s', vmfBody c i dk s = some s') := by
  unfold vmfBody
  constructor
  · by_cases h1 : 0 < i.ek
    · by_cases h2 : 0 ≤ i.nm
      · simp [h1, h2]
      · simp [h1, h2, not_le.mp h2]
    · simp [h1]
  · intro h1 h2
    simp [h1, h2]

/-- `log κ` obeys the same bound as `log λ`: within `max(ξ,1-ξ)` times the gain per update. -/
theorem C14_vmf_logkappa_step (g xi l ar : α) (hg : 0 ≤ g) (h0 : 0 ≤ ar) (h1 : ar ≤ 1) :
    |vmfLogKappa g xi l ar - l| ≤ g * max xi (1 - xi) := by
  have := atLam_abs (g := g) (xi := xi) (l := -l) hg h0 h1
  unfold atLam at this
  unfold vmfLogKappa
  have e : l + g * (xi - ar) - l = -(-l + g * (ar - xi) - -l) := by ring
  rw [e, abs_neg]
  exact this

/-- Under every history with acceptance ratios in `[0,1]`: `log κ` stays within
    `max(ξ, 1-ξ)` times the gains absorbed of its initial value, and these never exceed the
    gains of the whole window `Σ_{1 < d < T} g_d`; histories on which an update raises are
    excluded by `hr` (`C14_vmf_no_raise`: there are none for finite positive evaluations). -/
theorem C14_vmf_logkappa_bounded (c : ATCfg α) (hs : List (Bool × VmfIn α))
    (hall : ∀ x ∈ hs, 0 ≤ x.2.ar ∧ x.2.ar ≤ 1)
    (a a' : Ad (VmfSt α)) (hw : a.clock.cfg.window = .at) (hci : ClockInv a)
    (hg : ATGainOK a.clock.cfg.T c.gain)
    (hr : Ad.run (fun (x : Bool × VmfIn α) dk _ s => vmfBody c x.2 dk s) (·.1) a hs = some a') :
    |a'.num.logKappa - a.num.logKappa|
        ≤ max c.xi (1 - c.xi) * (gsum c.gain a'.clock - gsum c.gain a.clock) ∧
    gsum c.gain a'.clock ≤ ∑ d ∈ Finset.Ioo (1 : Int) (a.clock.cfg.T : Int), c.gain d := by
  have key : ∀ (hs : List (Bool × VmfIn α)) (b : Ad (VmfSt α)),
      (∀ x ∈ hs, 0 ≤ x.2.ar ∧ x.2.ar ≤ 1) →
      b.clock.cfg = a.clock.cfg → ClockInv b →
      Ad.run (fun (x : Bool × VmfIn α) dk _ s => vmfBody c x.2 dk s) (·.1) b hs = some a' →
      a'.clock.cfg = a.clock.cfg ∧ ClockInv a' ∧
      |a'.num.logKappa - b.num.logKappa|
        ≤ max c.xi (1 - c.xi) * (gsum c.gain a'.clock - gsum c.gain b.clock) := by
    intro hs
    induction hs with
    | nil =>
      intro b _ hcfg hcb hrun
      simp [Ad.run] at hrun; subst hrun
      exact ⟨hcfg, hcb, by simp⟩
    | cons x xs ih =>
      intro b hall hcfg hcb hrun
      simp only [Ad.run, Option.bind_eq_some_iff] at hrun
      obtain ⟨b', hb', hrun⟩ := hrun
      obtain ⟨hc, hcase⟩ := Ad.update_eq_some hb'
      have hcfg' : b'.clock.cfg = a.clock.cfg := by rw [hc, update_cfg]; exact hcfg
      obtain ⟨h1, h2, h3⟩ := ih b' (fun y hy => hall y (List.mem_cons_of_mem _ hy)) hcfg'
        (clockInv_step hcb hb') hrun
      refine ⟨h1, h2, ?_⟩
      have hx := hall x (List.mem_cons_self ..)
      have hw' : b.clock.cfg.window = .at := by rw [hcfg]; exact hw
      have hgs := gsum_update c.gain b.clock x.1 (arTag x.1) []
      rw [← hc] at hgs
      have hstep : |b'.num.logKappa - b.num.logKappa|
          ≤ max c.xi (1 - c.xi) * (gsum c.gain b'.clock - gsum c.gain b.clock) := by
        rcases hcase with ⟨hup, hbody⟩ | ⟨hup, hnum⟩
        · have hin : b.clock.inWindow = true := by
            cases hcw : b.clock.inWindow <;> simp [hcw] at hup ⊢
          have hbd := inWindow_bounds (Or.inr hw') hin
          rw [hw', hcfg] at hbd
          have hgp := (hg _ (by simpa [winLo] using hbd.1) hbd.2).1
          obtain ⟨_, _, _, _, hlk⟩ := vmfBody_eq_some hbody
          rw [hgs, hlk]
          simp only [hup, if_true, add_sub_cancel_left]
          have := C14_vmf_logkappa_step (c.gain b.clock.dkUpdate) c.xi b.num.logKappa x.2.ar
            hgp.le hx.1 hx.2
          rw [mul_comm] at this
          exact this
        · rw [hgs, hnum]
          simp [hup]
      calc |a'.num.logKappa - b.num.logKappa|
          = |(a'.num.logKappa - b'.num.logKappa) + (b'.num.logKappa - b.num.logKappa)| := by
            congr 1; ring
        _ ≤ |a'.num.logKappa - b'.num.logKappa| + |b'.num.logKappa - b.num.logKappa| :=
            abs_add_le _ _
        _ ≤ max c.xi (1 - c.xi) * (gsum c.gain a'.clock - gsum c.gain b'.clock)
            + max c.xi (1 - c.xi) * (gsum c.gain b'.clock - gsum c.gain b.clock) := add_le_add h3 hstep
        _ = max c.xi (1 - c.xi) * (gsum c.gain a'.clock - gsum c.gain b.clock) := by ring
  obtain ⟨hcfg, hca, hb⟩ := key hs a hall rfl hci hr
  refine ⟨hb, ?_⟩
  have := gsum_le_window c.gain hca.2.2 (by
    intro d h1 h2
    rw [hcfg, hw] at h1
    rw [hcfg] at h2
    exact (hg d (by simpa [winLo] using h1) h2).1.le)
  rw [hcfg, hw] at this
  exact this

/-! ## The negative results -/

/-- Exact identity behind the stall: from a fresh default clock (`start_step = 1`,
    `jump_interval = 1`), under a history of accepted steps with acceptance ratio 1 (a flat
    target, `β = 0`) at least as long as the window, the global `log λ` ends at its
    initial value plus `(1-ξ)` times ALL the gains of the window. -/
theorem C14_at_stall_exact {n : Nat} (c : ATCfg α) (hs : List (Bool × ATIn α n))
    (hall : ∀ x ∈ hs, x.2.ar = 1) (a a' : Ad (ATSt α n)) (l0 : α)
    (hl : a.num.logLam = .glob l0) (hclk : SimpleAT a.clock) (hraw : a.clock.raw = 0)
    (hev : a.clock.events = []) (hlen : a.clock.cfg.T ≤ hs.length)
    (hr : Ad.run (fun (x : Bool × ATIn α n) dk _ s => some (atBody c x.2 dk s)) (·.1) a hs = some a') :
    a'.num.logLam = .glob (l0 + (1 - c.xi) * ∑ d ∈ Finset.Ioo (1 : Int) (a.clock.cfg.T : Int), c.gain d) := by
  have key : ∀ (hs : List (Bool × ATIn α n)) (b : Ad (ATSt α n)), (∀ x ∈ hs, x.2.ar = 1) →
      b.num.logLam = .glob (l0 + (1 - c.xi) * (gsum c.gain b.clock - gsum c.gain a.clock)) →
      Ad.run (fun (x : Bool × ATIn α n) dk _ s => some (atBody c x.2 dk s)) (·.1) b hs = some a' →
      a'.num.logLam = .glob (l0 + (1 - c.xi) * (gsum c.gain a'.clock - gsum c.gain a.clock)) := by
    intro hs
    induction hs with
    | nil => intro b _ hb hrun; simp [Ad.run] at hrun; subst hrun; exact hb
    | cons x xs ih =>
      intro b hall hb hrun
      simp only [Ad.run, Option.bind_eq_some_iff] at hrun
      obtain ⟨b', hb', hrun⟩ := hrun
      refine ih b' (fun y hy => hall y (List.mem_cons_of_mem _ hy)) ?_ hrun
      obtain ⟨hc, hcase⟩ := Ad.update_eq_some hb'
      have hgs := gsum_update c.gain b.clock x.1 (arTag x.1) []
      rw [← hc] at hgs
      rcases hcase with ⟨hup, hbody⟩ | ⟨hup, hnum⟩
      · simp only [Option.some.injEq] at hbody
        rw [hgs, ← hbody]
        unfold atBody
        simp only [hb, hup, if_true, hall x (List.mem_cons_self ..)]
        congr 1
        unfold atLam; ring
      · rw [hgs, hnum, hb]; simp [hup]
  have hfin := key hs a hall (by rw [hl]; simp) hr
  rw [hfin]
  have hclock := Ad.run_clock _ _ hs a a' hr
  have hcomplete := gsum_complete_window c.gain a.clock hclk hraw hev (hs.map (·.1)) (by simpa using hlen)
  rw [hclock, hcomplete]
  simp [gsum, hev]

end Generic

/-- With the exact gains `g_d = d^-0.6 - T^-0.6` the window's gains add up to at least
    `1.5 T^0.4 - 10/3`. -/
theorem C14_window_gain_ge (T : ℕ) (hT : 2 ≤ T) :
    (3 / 2) * (T : ℝ) ^ (0.4 : ℝ) - 10 / 3 ≤ ∑ d ∈ Finset.Ioo (1 : ℤ) (T : ℤ), gainAT T d :=
  sum_gainAT_ge T hT

/-- ... and to at most `2.5 T^0.4`. -/
theorem C14_window_gain_le (T : ℕ) (hT : 2 ≤ T) :
    ∑ d ∈ Finset.Ioo (1 : ℤ) (T : ℤ), gainAT T d ≤ 2.5 * (T : ℝ) ^ (0.4 : ℝ) :=
  sum_gainAT_le T hT

/-- The range of `log κ` on which IEEE doubles evaluate `exp(log κ)` to a positive finite
    number (`exp` overflows to `inf` above 709.78 — the `norm` setter then raises on the NaN
    normalisation — and underflows to 0 below -745.13 — the `kappa` setter then raises). -/
def Representable (lk : ℝ) : Prop := -745 < lk ∧ lk < 709

/-- The remaining floating-point hazard is out of reach: with the code's gains, from the
    constructor's `κ = 5`, for EVERY target rate in `(0,1)`, EVERY history (acceptance ratios
    in `[0,1]`), start step and jump interval, and every `adaptation_duration ≤ 10^6`, the
    exact `log κ` stays within `log 5 ± 630`, inside the representable range; by
    `C14_vmf_no_raise` no update then raises. -/
theorem C14_vmf_logkappa_representable (T : ℕ) (hT : T ≤ 1000000) (xi : ℝ) (hxi : 0 < xi ∧ xi < 1)
    (hs : List (Bool × VmfIn ℝ)) (hall : ∀ x ∈ hs, 0 ≤ x.2.ar ∧ x.2.ar ≤ 1)
    (a a' : Ad (VmfSt ℝ)) (hl : a.num.logKappa = Real.log 5)
    (hw : a.clock.cfg.window = .at) (hci : ClockInv a) (hev : a.clock.events = [])
    (hTT : a.clock.cfg.T = T)
    (hr : Ad.run (fun (x : Bool × VmfIn ℝ) dk _ s =>
      vmfBody { xi := xi, gain := gainAT T } x.2 dk s) (·.1) a hs = some a') :
    Representable a'.num.logKappa ∧ |a'.num.logKappa - Real.log 5| ≤ 630 := by
  have hg : ATGainOK a.clock.cfg.T (gainAT T) := by rw [hTT]; exact C13_gain_exact_at T
  obtain ⟨h1, h2⟩ := C14_vmf_logkappa_bounded { xi := xi, gain := gainAT T } hs hall a a' hw hci hg hr
  simp only at h1 h2
  have hg0 : gsum (gainAT T) a.clock = 0 := by simp [gsum, hev]
  rw [hg0, sub_zero, hl] at h1
  rw [hTT] at h2
  have hmax : max xi (1 - xi) ≤ 1 := max_le hxi.2.le (by linarith)
  have hmax0 : 0 ≤ max xi (1 - xi) := le_trans hxi.1.le (le_max_left _ _)
  have hsum : ∑ d ∈ Finset.Ioo (1 : ℤ) (T : ℤ), gainAT T d ≤ 630 := by
    by_cases hT2 : 2 ≤ T
    · have := sum_gainAT_le T hT2
      have := rpow_le_of_1e6 T hT
      linarith
    · have : Finset.Ioo (1 : ℤ) (T : ℤ) = ∅ := by
        ext d; simp only [Finset.mem_Ioo, Finset.notMem_empty, iff_false]; omega
      rw [this]; norm_num
  have hgs0 : 0 ≤ gsum (gainAT T) a'.clock := by
    by_contra hneg
    have := abs_nonneg (a'.num.logKappa - Real.log 5)
    have hmaxpos : 0 < max xi (1 - xi) := lt_of_lt_of_le hxi.1 (le_max_left _ _)
    have := mul_neg_of_pos_of_neg hmaxpos (not_le.mp hneg)
    linarith
  have hbound : |a'.num.logKappa - Real.log 5| ≤ 630 := by
    calc |a'.num.logKappa - Real.log 5| ≤ max xi (1 - xi) * gsum (gainAT T) a'.clock := h1
      _ ≤ 1 * gsum (gainAT T) a'.clock := mul_le_mul_of_nonneg_right hmax hgs0
      _ ≤ 630 := by linarith
  obtain ⟨hl1, hl2⟩ := log_five_bounds
  rw [abs_le] at hbound
  exact ⟨⟨by linarith [hbound.1], by linarith [hbound.2]⟩, abs_le.mpr hbound⟩

/-- The first gain of the Veitch window is `0.9` with the default decay (`1 - T^-β` in general; hypothesis `hg` of
    `C14_veitch_zero_width_excluded` at `α = ℝ`). -/
theorem C14_veitch_gain_one (T : ℕ) (hT : 1 < T) : gainV T (1 / Real.logb 10 T) 1 = 9 / 10 :=
  gainV_one_default T hT

/-- The Veitch gain is at most `1` (for any decay `≥ 0`; `≤ 1 - T^-β`): with `C14_veitch_bounded`,
    `σ ≤ σ₀ + 0.1 (1-ξ) Δ (T-1)`. -/
theorem C14_veitch_gain_le (T : ℕ) (β : ℝ) (hβ : 0 ≤ β) (dk : ℤ) (h1 : 1 ≤ dk) : gainV T β dk ≤ 1 :=
  gainV_le T β hβ dk h1

/-- **The stall** (F19).  Exact arithmetic, the code's own gains: after a window of always
    accepted steps (`β ≈ 0` on a bounded domain) the Andrieu–Thoms scale factor is
    `log λ ≥ (1-ξ)(1.5 T^0.4 - 10/3)` — nothing caps it — so the scale
    `σ = (e^{log λ} unit_cov)^½` grows like `e^{0.57 T^0.4}` while the domain does not:
    by `C14_accept_mass_le` a rejection loop then needs at least `σ/(L w)` draws per
    jump, beyond any fixed budget once `T` is in the thousands (`T = 1000`: `log λ ≥ 15.6`,
    `T = 3000`: `≥ 25.7`). -/
theorem C14_at_stall_witness {n : Nat} (T : ℕ) (hT : 2 ≤ T) (xi : ℝ) (hxi : xi < 1)
    (hs : List (Bool × ATIn ℝ n)) (hall : ∀ x ∈ hs, x.2.ar = 1) (a a' : Ad (ATSt ℝ n)) (l0 : ℝ)
    (hl : a.num.logLam = .glob l0) (hclk : SimpleAT a.clock) (hraw : a.clock.raw = 0)
    (hev : a.clock.events = []) (hTT : a.clock.cfg.T = T) (hlen : T ≤ hs.length)
    (hr : Ad.run (fun (x : Bool × ATIn ℝ n) dk _ s =>
      some (atBody { xi := xi, gain := gainAT T } x.2 dk s)) (·.1) a hs = some a') :
    ∃ l, a'.num.logLam = .glob l ∧
      l0 + (1 - xi) * ((3 / 2) * (T : ℝ) ^ (0.4 : ℝ) - 10 / 3) ≤ l := by
  have h := C14_at_stall_exact { xi := xi, gain := gainAT T } hs hall a a' l0 hl hclk hraw hev
    (by rw [hTT]; exact hlen) hr
  refine ⟨_, h, ?_⟩
  rw [hTT]
  have := sum_gainAT_ge T hT
  have h1 : 0 < 1 - xi := by linarith
  simp only
  nlinarith

/-- **Why the normalisation may be 0** (F18, repaired).  Exact arithmetic: from the
    constructor's `κ = 5` (`log κ = log 5`), target rate `0.234`, a fresh default clock and
    `adaptation_duration = T ≥ 1200`, a window of always-rejected steps (acceptance ratio
    0: a sharply peaked target) drives the concentration above 709, where numpy's
    `4π sinh κ` is `inf` and the normalisation evaluates to 0.  The pinned tree raised
    `ValueError` there inside `_update`; the repaired `norm` setter accepts 0
    (`C14_vmf_no_raise`).  (`T ≥ 1200` is what this proof's constants give; the real code
    crosses 707.94 from `T ≈ 1050` on.) -/
theorem C14_vmf_norm_underflow_witness (T : ℕ) (hT : 1200 ≤ T)
    (hs : List (Bool × VmfIn ℝ)) (hall : ∀ x ∈ hs, x.2.ar = 0) (a a' : Ad (VmfSt ℝ))
    (hl : a.num.logKappa = Real.log 5) (hclk : SimpleAT a.clock) (hraw : a.clock.raw = 0)
    (hev : a.clock.events = []) (hTT : a.clock.cfg.T = T) (hlen : T ≤ hs.length)
    (hr : Ad.run (fun (x : Bool × VmfIn ℝ) dk _ s =>
      vmfBody { xi := 0.234, gain := gainAT T } x.2 dk s) (·.1) a hs = some a') :
    709 < Real.exp a'.num.logKappa := by
  have key : ∀ (hs : List (Bool × VmfIn ℝ)) (b : Ad (VmfSt ℝ)), (∀ x ∈ hs, x.2.ar = 0) →
      b.num.logKappa = Real.log 5 + 0.234 * (gsum (gainAT T) b.clock - gsum (gainAT T) a.clock) →
      Ad.run (fun (x : Bool × VmfIn ℝ) dk _ s =>
        vmfBody { xi := 0.234, gain := gainAT T } x.2 dk s) (·.1) b hs = some a' →
      a'.num.logKappa = Real.log 5 + 0.234 * (gsum (gainAT T) a'.clock - gsum (gainAT T) a.clock) := by
    intro hs
    induction hs with
    | nil => intro b _ hb hrun; simp [Ad.run] at hrun; subst hrun; exact hb
    | cons x xs ih =>
      intro b hall hb hrun
      simp only [Ad.run, Option.bind_eq_some_iff] at hrun
      obtain ⟨b', hb', hrun⟩ := hrun
      refine ih b' (fun y hy => hall y (List.mem_cons_of_mem _ hy)) ?_ hrun
      obtain ⟨hc, hcase⟩ := Ad.update_eq_some hb'
      have hgs := gsum_update (gainAT T) b.clock x.1 (arTag x.1) []
      rw [← hc] at hgs
      rcases hcase with ⟨hup, hbody⟩ | ⟨hup, hnum⟩
      · obtain ⟨_, _, _, _, hlk⟩ := vmfBody_eq_some hbody
        rw [hgs, hlk, hb, hall x (List.mem_cons_self ..)]
        simp only [hup, if_true]
        unfold vmfLogKappa; ring
      · rw [hgs, hnum, hb]; simp [hup]
  have hfin := key hs a hall (by rw [hl]; simp) hr
  have hclock := Ad.run_clock _ _ hs a a' hr
  have hcomplete := gsum_complete_window (gainAT T) a.clock hclk hraw hev (hs.map (·.1))
    (by rw [hTT]; simpa using hlen)
  rw [hclock, hcomplete, hTT] at hfin
  have hg0 : gsum (gainAT T) a.clock = 0 := by simp [gsum, hev]
  rw [hg0, sub_zero] at hfin
  have hsum := sum_gainAT_ge T (by omega)
  have hpow := rpow_ge_of_1200 T hT
  have h5 : (5 : ℝ) ≤ 0.234 * ∑ d ∈ Finset.Ioo (1 : ℤ) (T : ℤ), gainAT T d := by nlinarith
  have hexp : 709 < Real.exp a'.num.logKappa := by
    rw [hfin, Real.exp_add, Real.exp_log (by norm_num)]
    have h1 : Real.exp 5 ≤ Real.exp (0.234 * ∑ d ∈ Finset.Ioo (1 : ℤ) (T : ℤ), gainAT T d) :=
      Real.exp_le_exp.mpr h5
    have h2 := exp_five_gt
    nlinarith
  exact hexp

/-- In exact arithmetic the update itself can never raise: `exp` is positive and so is the
    true normalisation `κ/(4π sinh κ)`. -/
theorem C14_vmf_exact_never_raises (c : ATCfg ℝ) (ar : ℝ) (dk : Int) (s : VmfSt ℝ) :
    let lk := vmfLogKappa (c.gain dk) c.xi s.logKappa ar
    ∃ s', vmfBody c (VmfIn.mk ar (Real.exp lk)
      (Real.exp lk / (4 * Real.pi * Real.sinh (Real.exp lk)))) dk s = some s' := by
  intro lk
  unfold vmfBody
  simp [Real.exp_pos, (vmf_norm_pos _ (Real.exp_pos lk)).le]

/-! ## Non-vacuity -/

/-- hypotheses of the retry bounds are consistent (a linear "cdf" satisfies them) -/
example : ∃ F : ℝ → ℝ, Monotone F ∧ (∀ t, F (-t) = 1 - F t) ∧ ConcaveOn ℝ (Set.Ici 0) F :=
  ⟨fun t => 1 / 2 + t, fun s t h => by simp only; linarith, fun t => by ring,
    ⟨convex_Ici 0, fun x _ y _ a b _ _ hab => by
      simp only [smul_eq_mul]
      have : a * (1 / 2 + x) + b * (1 / 2 + y) = (a + b) * (1 / 2) + (a * x + b * y) := by ring
      rw [this, hab]; linarith⟩⟩

/-- a default clock as the witnesses want it -/
def clk0 (T : Nat) : PropSt :=
  PropSt.fresh { params := [0, 1], symmetric := true, adaptive := true, k := 1, dur := 0,
                 window := .at, T := T, start0 := 1, comp := false, savesNsteps := true }
example : SimpleAT (clk0 1500) ∧ (clk0 1500).raw = 0 ∧ (clk0 1500).events = [] ∧
    (clk0 1500).cfg.T = 1500 := ⟨⟨rfl, rfl, rfl⟩, rfl, rfl, rfl⟩
example : ClockInv ({ clock := clk0 1500, num := () } : Ad Unit) :=
  ⟨⟨rfl, by decide, Or.inl rfl⟩, Or.inr rfl, evOK_fresh _⟩
/-- Sivia–Skilling tables and a start as `C14_ss_bounded` wants them -/
def ssq : SSCfg Rat :=
  { xi := 117 / 500, cap := some (149 / 100), alphaUp := fun n => 1 + 1 / (n + 1),
    alphaDown := fun n => 1 / 2 + 1 / (2 * (n + 2)) }
example : (∀ n, 0 < ssq.alphaUp n) ∧ (∀ n, 0 < ssq.alphaDown n) ∧
    (∀ i : Fin 2, 0 < (#v[1 / 2, 3 / 4] : Vector Rat 2)[i]) := by
  refine ⟨fun n => ?_, fun n => ?_, fun i => ?_⟩
  · show (0 : Rat) < 1 + 1 / ((n : Rat) + 1); positivity
  · show (0 : Rat) < 1 / 2 + 1 / (2 * ((n : Rat) + 2)); positivity
  · fin_cases i <;> simp
/-- a Veitch configuration as `C14_veitch_bounded` wants it: widths, target, gain table `1/d - 1/10` -/
def vq : VeitchCfg Rat 2 :=
  { xi := 117 / 500, deltas := #v[2, 4], gain := fun d => 1 / (d : Rat) - 1 / 10 }
example : (0 < vq.xi ∧ vq.xi < 1) ∧ (∀ i : Fin 2, 0 < vq.deltas[i]) ∧ VeitchGainOK (α := Rat) 10 vq.gain := by
  refine ⟨by norm_num [vq], fun i => by fin_cases i <;> simp [vq], fun d h1 h2 => ?_⟩
  have hd : (1 : Rat) ≤ d := by exact_mod_cast h1
  have hd10 : (d : Rat) < 10 := by exact_mod_cast h2
  have hpos : (0 : Rat) < d := by linarith
  show (0 : Rat) < 1 / (d : Rat) - 1 / 10
  have : (1 : Rat) / 10 < 1 / d := by
    rw [div_lt_div_iff₀ (by norm_num) hpos]; linarith
  linarith
/-- user-supplied initial widths that are not proportional to the prior widths: the first rejected
    update (`g = 9/10`) would take width 0 below zero and not width 1 — the hypotheses of
    `C14_veitch_guard_mixed` are met -/
example : (0 < vq.xi) ∧ (0 < vq.gain 1) ∧ (0 < vq.deltas[(1 : Fin 2)]) ∧
    ((#v[1 / 1000, 2 / 5] : Vector Rat 2)[(0 : Fin 2)] + -vq.xi * vq.gain 1 * vq.deltas[(0 : Fin 2)] / 10 ≤ 0) ∧
    (0 < (#v[1 / 1000, 2 / 5] : Vector Rat 2)[(1 : Fin 2)] + -vq.xi * vq.gain 1 * vq.deltas[(1 : Fin 2)] / 10) := by
  refine ⟨by norm_num [vq], by norm_num [vq], by simp [vq], ?_, ?_⟩
  · show (1 / 1000 : Rat) + -(117 / 500) * (1 / ((1 : Int) : Rat) - 1 / 10) * 2 / 10 ≤ 0
    norm_num
  · show (0 : Rat) < 2 / 5 + -(117 / 500) * (1 / ((1 : Int) : Rat) - 1 / 10) * 4 / 10
    norm_num
/-- a configuration as `C14_veitch_zero_width_excluded` wants it (target rate 1/2, gain table
    `1/d - 1/10`, positive prior widths): both default widths are kept -/
def vqHalf : VeitchCfg Rat 2 := { vq with xi := 1 / 2 }
example : vqHalf.xi = 1 / 2 ∧ vqHalf.gain 1 = 9 / 10 ∧ (∀ i : Fin 2, 0 < vqHalf.deltas[i]) ∧
    ∀ i : Fin 2, (veitchBody vqHalf false 1 (veitchDefaultStd vqHalf.xi vqHalf.deltas))[i]
      = (veitchDefaultStd vqHalf.xi vqHalf.deltas)[i] := by
  have hg : vqHalf.gain 1 = 9 / 10 := by norm_num [vqHalf, vq]
  have hd : ∀ i : Fin 2, 0 < vqHalf.deltas[i] := fun i => by fin_cases i <;> simp [vqHalf, vq]
  exact ⟨rfl, hg, hd, fun i => (C14_veitch_zero_width_excluded vqHalf rfl hg hd i).2.1⟩
/-- a positive semidefinite start (the identity, 2×2) -/
example : PSD (α := Rat) (#v[#v[1, 0], #v[0, 1]] : Mat Rat 2) := by
  intro v
  unfold quad
  simp [Fin.sum_univ_two]
  nlinarith [mul_self_nonneg (v 0), mul_self_nonneg (v 1)]

end Epsie.C14
