/-
  C07 — Chains are independent of the pool, of scheduling and of each other.

  Statements only (helper lemmas: EpsieProofs/StreamsLemmas.lean; model:
  EpsieModel/Streams.lean, part 2).  A sampler is `n` chains over a heap of
  mutable objects (`Heap V`, any value type); `S.fp i` are the identities of the
  objects reachable from chain `i`; `S.step i` is `_evolve_chain` on chain `i`
  (any number of iterations) as a heap transformer, about which only the frame
  condition `S.Framed` is assumed: it writes objects it can reach, and what it
  writes depends on objects it can reach.  `S.shared` is the `Shared` store: the
  objects reachable from two different chains.  A pool with `map` semantics is a
  list of chunks covering every chain exactly once (`Pool.ValidFor`); each chunk is
  evaluated serially, in its listed order, on a private copy of the objects —
  the built-in `map` (`Pool.serial`), a `map` that deep-copies its arguments or a
  process pool with chunk size 1 (`Pool.copying`), in-process evaluation in any
  order (`Pool.permuted`), and any chunking by any number of workers are instances.

  What is proved: with an empty `Shared` store the pool is irrelevant and chains do
  not see each other (all `n`, all pools, all step functions, any number of `run`
  calls); the sampler construction of /repo (all configurations, every code
  variant) shares at most the annealer instance, and nothing when there is no
  annealer or each chain gets its own.  What is measured on every run instead of
  proved: that the real objects have the footprints the model says
  (`C07_generated_*`), and the frame condition itself (no module-level mutable
  state: scan table).  OS scheduling and pickling fidelity are exercised by
  harness/streams.py, not proved.

  Class-level state.  An attribute bound in a class body to a mutable value is one
  object per process: every chain that holds an instance reaches it, no pickled or
  deep-copied chain contains it, and a worker process has its own version of it
  (whatever it was when the worker was created).  `C07_class_state_is_shared` says
  that such an object, as soon as two chains reach it, falsifies the hypothesis
  `Shared = ∅` of everything above; `C07_worker_class_state_irrelevant` says that a
  pool whose workers hold *another* version of the class-level objects still returns
  what the serial run returns provided no chain reaches a class-level object, and
  `C07_pinned_counterexample_class_state` that this proviso is necessary (a reset
  that restores from a class-level dictionary: seeded change C07-D).  That the
  package has no such object is not proved but measured on every run:
  `C07_generated_no_shared_class_state` (`decide` over the table of class-level
  mutable attributes that gen_sharing.py regenerates from the source), and the
  harness compares the class-level attributes before and after the runs.
-/
import EpsieProofs.StreamsLemmas
import EpsieModel.Generated.Sharing
namespace Epsie.C07
open Epsie.Streams

/-- `Shared = ∅` ⇒ every pool honouring `map` semantics — serial, copying, any
    permutation, any chunking — hands back, for every chain, the objects that the
    built-in `map` hands back. -/
theorem C07_pool_irrelevant {V : Type} (S : Sys V) (hframe : S.Framed) (hshared : S.shared = [])
    (p : Pool) (hp : p.ValidFor S.n) (h0 : Heap V) :
    ∀ i, i < S.n → ∀ l, l ∈ S.fp i → result S p h0 i l = result S (Pool.serial S.n) h0 i l := by
  intro i hi l hl
  have hd := disjoint_of_shared_nil S hshared
  rw [result_eq_step S hframe hd p hp h0 i hi l hl,
      result_eq_step S hframe hd _ (serial_valid S.n) h0 i hi l hl]

/-- The named pools are pools with `map` semantics. -/
theorem C07_named_pools_valid (n : Nat) (π : List Nat) (hπ : π.Perm (List.range n)) :
    (Pool.serial n).ValidFor n ∧ (Pool.copying n).ValidFor n ∧ (Pool.permuted π).ValidFor n :=
  ⟨serial_valid n, copying_valid n, permuted_valid π n hπ⟩

/-- The same for the whole sampler state and any number of successive `run` calls, each
    through a pool of its own. -/
theorem C07_pool_irrelevant_runs {V : Type} (S : Sys V) (hframe : S.Framed) (hshared : S.shared = [])
    (pools : List Pool) (hp : ∀ p, p ∈ pools → p.ValidFor S.n) (h0 : Heap V) :
    runMany S pools h0 = runMany S (pools.map (fun _ => Pool.serial S.n)) h0 := by
  have hd := disjoint_of_shared_nil S hshared
  unfold runMany
  induction pools generalizing h0 with
  | nil => rfl
  | cons p ps ih =>
    simp only [List.foldl_cons, List.map_cons]
    rw [runPool_eq S hframe hd p (Pool.serial S.n) (hp p (List.mem_cons_self ..)) (serial_valid S.n) h0]
    exact ih (fun q hq => hp q (List.mem_cons_of_mem _ hq)) _

/-- `Shared = ∅` ⇒ chain `i` is a function of chain `i` alone: changing anything that
    belongs to another chain `j` (its start position, its proposals, its generator) —
    and running through whatever pools — leaves every object of chain `i` unchanged. -/
theorem C07_chain_local {V : Type} (S : Sys V) (hframe : S.Framed) (hshared : S.shared = [])
    (p p' : Pool) (hp : p.ValidFor S.n) (hp' : p'.ValidFor S.n) (h0 h0' : Heap V)
    (i j : Nat) (hi : i < S.n) (hj : j < S.n) (hij : i ≠ j)
    (hsame : ∀ l, l ∉ S.fp j → h0 l = h0' l) :
    ∀ l, l ∈ S.fp i → result S p h0 i l = result S p' h0' i l := by
  intro l hl
  have hd := disjoint_of_shared_nil S hshared
  rw [result_eq_step S hframe hd p hp h0 i hi l hl, result_eq_step S hframe hd p' hp' h0' i hi l hl]
  exact (hframe i).2 h0 h0' (fun l' hl' => hsame l' (hd i j hi hj hij l' hl')) l hl

/-- The construction of /repo (every configuration, session and code variant): an object
    reachable from two different chains of a built sampler can only be the one annealer
    instance handed to every chain. Proposals, births, generators are per chain. -/
theorem C07_built_sampler_shares_only_the_annealer {v : Variant} {cfg : Cfg} {env : Env} {s : SamplerO}
    (h : build v cfg env = some s) :
    ∀ (i j : Nat) (ci cj : AnyChain), i ≠ j → s.chains[i]? = some ci → s.chains[j]? = some cj →
      ∀ n, n ∈ ci.ids → n ∈ cj.ids →
        v.annealerPerChain = false ∧ (prepare v cfg env).2.1 = some n ∧ cfg.kind.hasAnnealer = true := by
  intro i j ci cj hne hi hj n hni hnj
  obtain ⟨h1, h2⟩ := build_shared_only_annealer h i j ci cj hne hi hj n hni hnj
  refine ⟨h1, h2, ?_⟩
  cases hk : cfg.kind.hasAnnealer with
  | true => rfl
  | false =>
    rw [(prepare_annealer v cfg env).mpr hk] at h2
    exact absurd h2 (by simp)

/-- Hence, without an annealer, or when every chain gets its own: `Shared = ∅` for every
    sampler the code can build, and the two theorems above apply to it, for every
    evolution that respects the object graph. -/
theorem C07_built_sampler_pool_irrelevant {V : Type} {v : Variant} {cfg : Cfg} {env : Env} {s : SamplerO}
    (h : build v cfg env = some s)
    (hann : cfg.kind.hasAnnealer = false ∨ v.annealerPerChain = true)
    (step : Nat → Heap V → Heap V) (hframe : (s.sys step).Framed)
    (p : Pool) (hp : p.ValidFor s.chains.length) (h0 : Heap V) :
    (s.sys step).shared = [] ∧
    ∀ i, i < s.chains.length → ∀ l, l ∈ s.footprint i →
      result (s.sys step) p h0 i l = result (s.sys step) (Pool.serial s.chains.length) h0 i l := by
  have hs : (s.sys step).shared = [] := by rw [sys_shared_eq]; exact build_shared_nil h hann
  exact ⟨hs, C07_pool_irrelevant (s.sys step) hframe hs p hp h0⟩

/-! ### The hypothesis is necessary: a shared store couples the chains under `map` -/

/-- Two chains that both advance one shared object (identity 0) and record what they saw
    in a private one (identities 1, 2): the skeleton of two PT chains adapting one annealer. -/
def coupled : Sys Nat :=
  { n := 2
    fp := fun i => [0, i + 1]
    step := fun i h l => if l = 0 then h 0 + 1 else if l = i + 1 then h 0 + 1 else h l }

theorem coupled_framed : coupled.Framed := by
  intro i
  constructor
  · intro h l hl
    simp only [coupled, List.mem_cons, List.not_mem_nil, or_false, not_or] at hl
    simp [coupled, hl.1, hl.2]
  · intro h h' hagree l _
    have h00 : h 0 = h' 0 := hagree 0 (by simp [coupled])
    simp only [coupled]
    split
    · rw [h00]
    · split
      · rw [h00]
      · rename_i h1 h2
        rename_i hl
        simp only [coupled, List.mem_cons, List.not_mem_nil, or_false] at hl
        rcases hl with hl | hl
        · exact absurd hl h1
        · exact absurd hl h2

/-- F5: with a non-empty `Shared` store the serial run and a copying pool disagree (chain 1
    sees the update of chain 0 in one and not in the other), and chain 1 depends on chain 0. -/
theorem C07_pinned_counterexample_shared_store :
    coupled.Framed ∧ coupled.shared ≠ [] ∧ (Pool.copying 2).ValidFor 2 ∧
    result coupled (Pool.serial 2) (fun _ => 0) 1 2 ≠ result coupled (Pool.copying 2) (fun _ => 0) 1 2 := by
  refine ⟨coupled_framed, by decide, copying_valid 2, by decide⟩

/-- A PT sampler with an annealer (replay: harness/streams.py `F5`). -/
def cfgAnnealed : Cfg :=
  { params := [0], props := [.plain [0] false], kind := .pt 3 true, nchains := 2, seed := some 1 }

/-- F5 on the construction: when the sampler hands its one annealer to every chain, the
    built sampler has a non-empty `Shared` store. -/
theorem C07_pinned_counterexample_shared_annealer (v : Variant) (hv : v.annealerPerChain = false) :
    ∃ s, build v cfgAnnealed Env.canonical = some s ∧ s.shared ≠ [] ∧ s.sharedKinds = ["annealer"] := by
  obtain ⟨d, r, a⟩ := v
  simp only at hv
  subst hv
  cases d <;> cases r <;> exact ⟨_, rfl, by decide, by decide⟩

/-! ### Class-level state: shared by construction, and not copied to workers -/

/-- Independence needs no shared mutable class state: an object that two different
    chains can reach — a class-level dictionary is reachable from every instance of the
    class, whatever was deep-copied per chain — makes the `Shared` store non-empty, so
    none of the theorems above applies to such a sampler. -/
theorem C07_class_state_is_shared {V : Type} (S : Sys V) (l i j : Nat) (hi : i < S.n) (hj : j < S.n)
    (hij : i ≠ j) (hli : l ∈ S.fp i) (hlj : l ∈ S.fp j) : S.shared ≠ [] := by
  intro hs
  exact disjoint_of_shared_nil S hs i j hi hj hij l hli hlj

/-- What a worker process works on: the pickled objects as the parent sent them, except
    the class-level objects `cls`, of which the worker has its own version `hw` (class
    attributes are not part of a pickled instance; a worker created before the proposals
    were constructed, or with the spawn start method, never saw the parent's values). -/
def workerHeap {V : Type} (cls : List Nat) (hw h0 : Heap V) : Heap V :=
  fun l => if l ∈ cls then hw l else h0 l

/-- `Shared = ∅` and no chain reaches a class-level object ⇒ a pool whose workers hold any
    other version of the class-level objects hands back, for every chain, what the
    built-in `map` hands back in the parent process. -/
theorem C07_worker_class_state_irrelevant {V : Type} (S : Sys V) (hframe : S.Framed) (hshared : S.shared = [])
    (cls : List Nat) (hcls : ∀ i, i < S.n → ∀ l, l ∈ S.fp i → l ∉ cls)
    (p : Pool) (hp : p.ValidFor S.n) (h0 hw : Heap V) :
    ∀ i, i < S.n → ∀ l, l ∈ S.fp i →
      result S p (workerHeap cls hw h0) i l = result S (Pool.serial S.n) h0 i l := by
  intro i hi l hl
  have hd := disjoint_of_shared_nil S hshared
  rw [result_eq_step S hframe hd p hp _ i hi l hl,
      result_eq_step S hframe hd _ (serial_valid S.n) h0 i hi l hl]
  refine (hframe i).2 _ _ (fun l' hl' => ?_) l hl
  simp [workerHeap, hcls i hi l' hl']

/-- Two chains with private proposals (identities 1, 2); stepping chain 0 *resets* its
    proposal to the value kept in a class-level dictionary (identity 0), chain 1 adapts its
    own.  Nothing is shared between the chains. -/
def resetsFromClass : Sys Nat :=
  { n := 2
    fp := fun i => if i = 0 then [0, 1] else [2]
    step := fun i h l => if i = 0 then (if l = 1 then h 0 else h l) else (if l = 2 then h 2 + 1 else h l) }

theorem resetsFromClass_framed : resetsFromClass.Framed := by
  intro i
  constructor
  · intro h l hl
    by_cases hi : i = 0
    · subst hi
      simp only [resetsFromClass, if_true, List.mem_cons, List.not_mem_nil, or_false, not_or] at hl
      simp [resetsFromClass, hl.2]
    · simp only [resetsFromClass, if_neg hi, List.mem_singleton] at hl
      simp [resetsFromClass, hi, hl]
  · intro h h' hagree l hl
    by_cases hi : i = 0
    · subst hi
      have h0 : h 0 = h' 0 := hagree 0 (by simp [resetsFromClass])
      simp only [resetsFromClass, if_true, List.mem_cons, List.not_mem_nil, or_false] at hl
      simp only [resetsFromClass, if_true]
      split
      · exact h0
      · exact hagree l (by simp [resetsFromClass, hl])
    · simp only [resetsFromClass, if_neg hi, List.mem_singleton] at hl
      subst hl
      have h2 : h 2 = h' 2 := hagree 2 (by simp [resetsFromClass, hi])
      simp [resetsFromClass, hi, h2]

/-- Seeded change C07-D: the system is framed and shares nothing, yet a copying pool whose
    workers hold an *empty* class-level dictionary (value 0 instead of the parent's 5)
    returns another proposal for chain 0 than the serial run: the proviso of
    `C07_worker_class_state_irrelevant` (no chain reaches a class-level object) is necessary. -/
theorem C07_pinned_counterexample_class_state :
    resetsFromClass.Framed ∧ resetsFromClass.shared = [] ∧ (Pool.copying 2).ValidFor 2 ∧
    (0 ∈ resetsFromClass.fp 0 ∧ 0 ∈ [0]) ∧
    result resetsFromClass (Pool.copying 2) (workerHeap [0] (fun _ => 0) (fun l => if l = 0 then 5 else 1)) 0 1 ≠
      result resetsFromClass (Pool.serial 2) (fun l => if l = 0 then 5 else 1) 0 1 := by
  refine ⟨resetsFromClass_framed, by decide, copying_valid 2, by decide, by decide⟩

/-! ### Obligations about the tables regenerated from /repo on every run -/

open Epsie.Generated.Sharing in
/-- The model, under the measured variant, predicts which kinds of mutable objects are
    reachable from two different chains of every freshly built real sampler kind
    (pickle-style traversal of the real object graph, user model excluded). -/
theorem C07_generated_cross_chain_match_model :
    ∀ r, r ∈ rows → modelShared variant r.cfg = some r.crossChain := by decide +kernel

open Epsie.Generated.Sharing in
/-- On the measured rows themselves: wherever `C07_built_sampler_pool_irrelevant` applies
    under the measured variant, the real sampler has no cross-chain mutable object. -/
theorem C07_generated_nothing_shared_where_proved :
    ∀ r, r ∈ rows → (r.cfg.kind.hasAnnealer = false ∨ variant.annealerPerChain = true) →
      r.crossChain = [] := by decide

open Epsie.Generated.Sharing in
/-- Generators are never shared between chains of a real sampler: the generator-object
    classes of two different chains are disjoint (all rows, whatever the variant). -/
theorem C07_generated_generators_private :
    ∀ r, r ∈ rows → sharedIds (r.chains.map (fun ch => ch.map (·.genClass))) = [] := by decide +kernel

open Epsie.Generated.Sharing in
/-- No module-level mutable state, foreign generator or unordered container that the model
    does not know about (the frame condition's side of the scan table). -/
theorem C07_generated_scan_sites_accounted :
    ∀ s, s ∈ scanSites → s.accounted variant = true := by decide

open Epsie.Generated.Sharing in
/-- No class-level (or module-level) attribute of the package bound to a mutable value is
    mutated through an instance, the class or an alias (outside the justified allow-list):
    the sharing edge that the traversal behind `crossChain` cannot see — and that a worker
    process would not receive (`C07_worker_class_state_irrelevant`) — does not exist in the
    source scanned today. -/
theorem C07_generated_no_shared_class_state :
    classState.filter (fun s => !s.allowed) = [] := by decide

/-! ### Non-vacuity -/

/-- three chains with private counters: framed, nothing shared, any pool allowed -/
def independent : Sys Nat :=
  { n := 3
    fp := fun i => [i]
    step := fun i h l => if l = i then h i + (i + 1) else h l }

theorem independent_framed : independent.Framed := by
  intro i
  constructor
  · intro h l hl
    simp only [independent, List.mem_singleton] at hl
    simp [independent, hl]
  · intro h h' hagree l hl
    simp only [independent, List.mem_singleton] at hl
    subst hl
    simp [independent, hagree l (by simp [independent])]

example : independent.shared = [] := by decide
example : Pool.ValidFor [[2, 0], [1]] 3 := by decide
example : result independent [[2, 0], [1]] (fun _ => 0) 0 0 = result independent (Pool.serial 3) (fun _ => 0) 0 0 :=
  C07_pool_irrelevant independent independent_framed (by decide) [[2, 0], [1]] (by decide) _ 0 (by decide) 0 (by simp [independent])

/-- the worker theorem is not vacuous: `independent` reaches no object of `cls = [7]`, and a chunked pool
    whose workers see 99 there returns what the serial run returns -/
example : result independent [[2, 0], [1]] (workerHeap [7] (fun _ => 99) (fun _ => 0)) 2 2 =
    result independent (Pool.serial 3) (fun _ => 0) 2 2 :=
  C07_worker_class_state_irrelevant independent independent_framed (by decide) [7]
    (by intro i hi l hl; simp only [independent, List.mem_singleton] at hi hl; simp only [List.mem_singleton]; omega)
    [[2, 0], [1]] (by decide) _ _ 2 (by decide) 2 (by simp [independent])

/-- and the sharing theorem applies to `coupled` (object 0 is in both footprints) -/
example : coupled.shared ≠ [] :=
  C07_class_state_is_shared coupled 0 0 1 (by decide) (by decide) (by decide) (by simp [coupled]) (by simp [coupled])

def repaired : Variant := ⟨.asGiven, true, true⟩

/-- the construction theorems are not vacuous: an annealed transdimensional PT sampler is built
    under the repaired variant and shares nothing; under today's variant a plain PT sampler does -/
example : ∃ s, build repaired { C07.cfgAnnealed with props := [.nested none 0 []] } Env.canonical = some s ∧ s.shared = [] :=
  ⟨_, rfl, by decide⟩
example : ∃ s, build ⟨.hashSet, false, false⟩ { C07.cfgAnnealed with kind := .pt 3 false } Env.canonical = some s ∧
    s.shared = [] ∧ s.chains.length = 2 := ⟨_, rfl, by decide, by decide⟩

end Epsie.C07
