/-
  C03, source tie composed with the refinement theorem: the sweep loop *as translated from the
  source* computes the sequential specification — adjacent exchanges from the hottest pair down,
  each comparing the states currently in the two slots with the betas of the slots
  (`specLoop`, EpsieProofs/SwapLemmas.lean) — for every ladder, all log-likelihoods and every
  uniform stream on which the specification completes.
-/
import EpsieProps.C03Source
import EpsieProps.C03
namespace Epsie.C03
open Epsie Swap

theorem C03_source_sweep_is_sequential_spec (betas logls us : List Rat)
    (hlen : logls.length = betas.length) (hn : 1 ≤ betas.length)
    (r : List Nat × List AR) (rest : List Rat)
    (h : specLoop betas logls (betas.length - 1) (List.range betas.length, []) us = some (r, rest)) :
    let g := Gen.sweepLoop (betas.length : Int) betas logls us
    g.1 = r.1.map (fun (i : Nat) => (i : Int)) ∧ g.2.1 = r.2.reverse ∧ g.2.2.2 = rest := by
  have hs := C03_sweep_eq_sequential_spec betas logls us (by omega)
  rw [h] at hs
  simp only [Option.map_some] at hs
  exact C03_source_sweep_loop betas logls us _ rest hlen hn hs

end Epsie.C03
