/-
  C20 — Checkpoint files round-trip any state, also when overwriting a checkpoint.

  Statements only (helper lemmas are in EpsieProofs/CheckpointLemmas.lean).  The model
  (EpsieModel/Checkpoint.lean) is the control flow of `dump_pickle_to_hdf`, `load_state`,
  `dump_state`, `BaseSampler.checkpoint`, `BaseSampler.set_state_from_checkpoint` over a
  file = groups + finite map (group location, dataset name) ↦ resizable array of
  one-byte 'S1' elements, with the h5py calls used and their failure cases.

  All theorems quantify over ALL files (whatever they held, however they were built),
  ALL byte strings (every `UInt8`, zero included, any length, empty included) and ALL
  paths/names; sequences are arbitrary lists.  Nothing is assumed about `pickle` in the
  byte-level theorems; the object-level ones assume only `loads (dumps p v) = some v`.

  `dump_pickle_to_hdf` is a public entry point of its own: its argument is a stream = bytes +
  position, and the theorems `C20_stream_*` say that ALL bytes are stored whatever the
  position (0, inside, at the end as `pickle.dump` leaves it, beyond the end).  Several files
  open in one process do not influence each other (`C20_other_files_untouched`,
  `C20_file_as_if_alone`, `C20_world_projection`): the code keeps no state between calls.

  Trusted, not proved: that h5py/HDF5 implement the calls as modelled (h5py is absent from
  this sandbox; the real epsie code runs against `harness/h5stub.py`, whose observable
  behaviour is compared with this model on every run).
-/
import EpsieProofs.CheckpointLemmas
namespace Epsie.C20
open Checkpoint

/-! ## one dump, then a load -/

/-- **Round trip.**  Whenever a dump returns, loading the same place (spelled the same way
    or not: `path=None` and the top level are one place) returns exactly the dumped bytes —
    whatever the file held at that key before: nothing, a shorter, a longer or an equally
    long checkpoint, of unlimited or limited maximal size. -/
theorem C20_roundtrip {f f' : File} {path path' : Option Loc} {name : String} {b : Bytes}
    (h : dumpBytes f path name b = .ok f') (hp : resolve path' = resolve path) :
    loadBytes f' path' name = .ok b := by
  obtain ⟨g, hg, hgr, ⟨m, hd, _⟩, _⟩ := dump_ok_spec (dumpBytes_ok_iff.mp h)
  obtain ⟨hres, hisg⟩ := getGroup_ok hg
  have hg' : f'.getGroup path' = .ok g := by
    have : f'.isGroup (resolve path') = true := by
      rw [hp, ← hres, isGroup_congr hgr]; exact hisg
    rw [getGroup_of_isGroup path' this, hp, hres]
  rw [loadBytes_eq hg', hd]
  simp

/-- The dump goes through exactly when the group exists and the key is free (and not the
    name of a subgroup) or holds a dataset that has the right length already or may be
    resized to it.  These are all the ways `dump_state` can raise. -/
theorem C20_dump_succeeds_iff {f : File} {path : Option Loc} {name : String} {b : Bytes} :
    (∃ f', dumpBytes f path name b = .ok f') ↔ Accepts f path name b.length :=
  dump_succeeds_iff

/-- **Overwriting an earlier checkpoint** (a dataset of unlimited maximal size, as
    `dump_state` creates them) of ANY previous content and length — shorter, longer, equal,
    empty — succeeds and reads back the new bytes, with no residue of the old ones. -/
theorem C20_overwrite {f : File} {path : Option Loc} {name : String} {g : Loc}
    (old : List S1) (b : Bytes)
    (hg : f.getGroup path = .ok g) (hold : f.getDset ⟨g, name⟩ = some ⟨old, none⟩) :
    ∃ f', dumpBytes f path name b = .ok f' ∧ loadBytes f' path name = .ok b := by
  have hacc : Accepts f path name b.length := ⟨g, hg, by simp [hold]⟩
  obtain ⟨f', hf'⟩ := dump_succeeds_iff.mpr hacc
  exact ⟨f', hf', C20_roundtrip hf' rfl⟩

/-- **First checkpoint at a key**: an existing group, nothing of that name in it. -/
theorem C20_fresh {f : File} {path : Option Loc} {name : String} {g : Loc} (b : Bytes)
    (hg : f.getGroup path = .ok g) (hnone : f.getDset ⟨g, name⟩ = none)
    (hng : (g ++ [name]) ∉ f.groups) :
    ∃ f', dumpBytes f path name b = .ok f' ∧ loadBytes f' path name = .ok b ∧
      f'.getDset ⟨g, name⟩ = some ⟨frombuffer b, none⟩ := by
  have hacc : Accepts f path name b.length := ⟨g, hg, by simp [hnone, hng]⟩
  obtain ⟨f', hf'⟩ := dump_succeeds_iff.mpr hacc
  refine ⟨f', hf', C20_roundtrip hf' rfl, ?_⟩
  obtain ⟨g', hg', _, ⟨m, hd, hm⟩, _⟩ := dump_ok_spec (dumpBytes_ok_iff.mp hf')
  rw [hg] at hg'; cases hg'
  simp only [hnone] at hm
  rw [hd, hm]

/-- The assignment `fp[dsetname][:] = bdata` is always between arrays of equal length:
    numpy's broadcasting (a length-1 source filling a longer dataset) and its shape errors
    are unreachable from `dump_pickle_to_hdf`, for every file and every data. -/
theorem C20_assign_exact {f f1 : File} {k : Key} {b : Bytes}
    (h : prepare f k (frombuffer b) = .ok f1) :
    ∃ d, f1.getDset k = some d ∧ d.elems.length = b.length ∧
      f1.assign k (frombuffer b) = .ok (f1.setDset k { d with elems := frombuffer b }) := by
  obtain ⟨_, ⟨d, hd, hlen, _⟩, _⟩ := prepare_spec h
  refine ⟨d, hd, by simpa using hlen, ?_⟩
  unfold File.assign
  simp [File.dataset_ok_iff.mpr hd, Dataset.assign_eq_len hlen.symm]

/-- Zero bytes: the 'S1' array built from a byte string gives the same bytes back through
    `tobytes()` — the path `load_state` takes — for every byte string. -/
theorem C20_tobytes_keeps_every_byte (b : Bytes) : tobytes (frombuffer b) = b :=
  tobytes_frombuffer b

/-- ... whereas reading the elements as Python `bytes` objects (which numpy strips of
    trailing NULs) would lose exactly the zero bytes.  The code does not do this; the
    theorem records why the choice of `tobytes()` matters. -/
theorem C20_elementwise_read_drops_zero_bytes (b : Bytes) :
    joinItems (frombuffer b) = b.filter (· ≠ 0) := by
  induction b with
  | nil => rfl
  | cons x r ih =>
    have ih' : (List.map S1.item (List.map S1.mk r)).flatten = List.filter (· ≠ 0) r := ih
    by_cases hx : x = 0
    · simp only [joinItems, frombuffer, List.map_cons, List.flatten_cons, ih']
      simp [S1.item, hx]
    · simp only [joinItems, frombuffer, List.map_cons, List.flatten_cons, ih']
      simp [S1.item, hx]

/-! ## other keys -/

/-- **Frame.**  A dump to one (path, name) changes the result of loading no other
    (path, name): same bytes if there was a dataset, the same exception if not.  Groups
    are never created or removed. -/
theorem C20_frame {f f' : File} {path path' : Option Loc} {name name' : String} {b : Bytes}
    (h : dumpBytes f path name b = .ok f')
    (hne : (⟨resolve path', name'⟩ : Key) ≠ ⟨resolve path, name⟩) :
    loadBytes f' path' name' = loadBytes f path' name' ∧ f'.groups = f.groups := by
  obtain ⟨g, hg, hgr, _, hfr⟩ := dump_ok_spec (dumpBytes_ok_iff.mp h)
  obtain ⟨hres, _⟩ := getGroup_ok hg
  refine ⟨?_, hgr⟩
  have hgg := getGroup_congr hgr path'
  cases hg' : f.getGroup path' with
  | error e => simp [loadBytes, hgg, hg']
  | ok g' =>
    obtain ⟨hres', _⟩ := getGroup_ok hg'
    have hk : (⟨g', name'⟩ : Key) ≠ ⟨g, name⟩ := by rw [hres, hres']; exact hne
    rw [loadBytes_eq (hgg.trans hg'), loadBytes_eq hg', hfr _ hk, hgr]

/-- Frame, on the file itself: every other dataset is the same object as before (content
    and maximal size), and the addressed one keeps its maximal size. -/
theorem C20_frame_datasets {f f' : File} {path : Option Loc} {name : String} {b : Bytes}
    (h : dumpBytes f path name b = .ok f') :
    ∀ k', k' ≠ ⟨resolve path, name⟩ → f'.getDset k' = f.getDset k' := by
  obtain ⟨g, hg, _, _, hfr⟩ := dump_ok_spec (dumpBytes_ok_iff.mp h)
  obtain ⟨hres, _⟩ := getGroup_ok hg
  rw [← hres]; exact hfr

/-- **A dump that raises has no effect at all** on the file (no half-written checkpoint,
    no other key touched): every failing call comes before the first mutation. -/
theorem C20_failed_dump_no_effect {f : File} {path : Option Loc} {name : String} {b : Bytes}
    {e : Err} (h : (dumpPickleToHdf f path name b).2 = some e) :
    (dumpPickleToHdf f path name b).1 = f :=
  dump_error_unchanged h

/-- Files written by epsie alone keep all datasets resizable without limit. -/
theorem C20_unlimited_preserved {f f' : File} {path : Option Loc} {name : String} {b : Bytes}
    (hu : AllUnlimited f) (h : dumpBytes f path name b = .ok f') : AllUnlimited f' := by
  obtain ⟨g, _, _, ⟨m, hd, hm⟩, hfr⟩ := dump_ok_spec (dumpBytes_ok_iff.mp h)
  intro k d hk
  by_cases hkk : k = ⟨g, name⟩
  · subst hkk
    rw [hd] at hk
    cases hk
    cases h0 : f.getDset ⟨g, name⟩ with
    | none => simpa [h0] using hm
    | some d0 => simp only [h0] at hm; rw [hm]; exact hu ⟨g, name⟩ d0 h0
  · rw [hfr k hkk] at hk
    exact hu k d hk

/-! ## histories -/

/-- **Sequences.**  After ANY sequence of dumps (to the same and to different keys, of
    growing, shrinking, equal or zero sizes), every (path, name) that was dumped to reads
    back the bytes of its LAST dump, and every (path, name) that was not reads (or fails)
    exactly as before the sequence. -/
theorem C20_sequences {ops : List DumpOp} : ∀ {f f' : File}, runDumps f ops = .ok f' →
    f'.groups = f.groups ∧
    ∀ (path : Option Loc) (name : String),
      (∀ b, lastDump ⟨resolve path, name⟩ ops = some b → loadBytes f' path name = .ok b) ∧
      (lastDump ⟨resolve path, name⟩ ops = none → loadBytes f' path name = loadBytes f path name) := by
  induction ops with
  | nil =>
    intro f f' h
    simp [runDumps] at h
    subst h
    exact ⟨rfl, fun _ _ => ⟨fun b hb => by simp [lastDump] at hb, fun _ => rfl⟩⟩
  | cons o r ih =>
    intro f f' h
    unfold runDumps at h
    cases hd : dumpBytes f o.path o.name o.bytes with
    | error e => simp [hd] at h
    | ok f1 =>
      simp only [hd] at h
      obtain ⟨hgr, hrest⟩ := ih h
      have hgr1 : f1.groups = f.groups := by
        obtain ⟨_, _, hg1, _, _⟩ := dump_ok_spec (dumpBytes_ok_iff.mp hd); exact hg1
      refine ⟨hgr.trans hgr1, ?_⟩
      intro path name
      obtain ⟨hsome, hnone⟩ := hrest path name
      cases hl : lastDump ⟨resolve path, name⟩ r with
      | some b' =>
        refine ⟨fun b hb => ?_, fun hn => ?_⟩
        · simp [lastDump, hl] at hb
          subst hb
          exact hsome b' hl
        · simp [lastDump, hl] at hn
      | none =>
        by_cases hk : o.key = ⟨resolve path, name⟩
        · refine ⟨fun b hb => ?_, fun hn => ?_⟩
          · simp [lastDump, hl, hk] at hb
            subst hb
            rw [hnone hl]
            have hk' := hk
            simp only [DumpOp.key, Key.mk.injEq] at hk'
            obtain ⟨hp, hn⟩ := hk'
            subst hn
            exact C20_roundtrip hd hp.symm
          · simp [lastDump, hl, hk] at hn
        · refine ⟨fun b hb => ?_, fun _ => ?_⟩
          · simp [lastDump, hl, hk] at hb
          · rw [hnone hl]
            exact (C20_frame hd (fun hh => hk hh.symm)).1

/-- Such sequences never fail on files written by epsie alone: starting from a file whose
    datasets are all of unlimited maximal size (e.g. no datasets), every sequence of dumps
    into existing groups, to names that are not subgroups, runs to the end. -/
theorem C20_sequences_total {ops : List DumpOp} : ∀ {f : File}, AllUnlimited f →
    (∀ o ∈ ops, f.isGroup (resolve o.path) = true ∧ (resolve o.path ++ [o.name]) ∉ f.groups) →
    ∃ f', runDumps f ops = .ok f' ∧ AllUnlimited f' := by
  induction ops with
  | nil => intro f hu _; exact ⟨f, rfl, hu⟩
  | cons o r ih =>
    intro f hu hops
    obtain ⟨hisg, hng⟩ := hops o (List.mem_cons_self ..)
    have hg := getGroup_of_isGroup o.path hisg
    have hacc : Accepts f o.path o.name o.bytes.length := by
      refine ⟨_, hg, ?_⟩
      cases h0 : f.getDset ⟨resolve o.path, o.name⟩ with
      | none => simpa using hng
      | some d => simp [hu _ _ h0]
    obtain ⟨f1, hf1⟩ := dump_succeeds_iff.mpr hacc
    have hgr1 : f1.groups = f.groups := by
      obtain ⟨_, _, hg1, _, _⟩ := dump_ok_spec (dumpBytes_ok_iff.mp hf1); exact hg1
    obtain ⟨f', hf', hu'⟩ := ih (C20_unlimited_preserved hu hf1) (fun o' ho' => by
      obtain ⟨h1, h2⟩ := hops o' (List.mem_cons_of_mem _ ho')
      exact ⟨by rw [isGroup_congr hgr1]; exact h1, by rw [hgr1]; exact h2⟩)
    exact ⟨f', by simp [runDumps, hf1, hf'], hu'⟩

/-- With failing dumps caught and the run continued, the run is the run of the successful
    dumps only (a failed dump is a no-op). -/
theorem C20_sequences_catching (o : DumpOp) (r : List DumpOp) (f : File) :
    runDumpsCatching f (o :: r) =
      match dumpBytes f o.path o.name o.bytes with
      | .ok f1 => runDumpsCatching f1 r
      | .error _ => runDumpsCatching f r := by
  unfold dumpBytes
  cases hres : dumpPickleToHdf f o.path o.name o.bytes with
  | mk f2 oe =>
    cases oe with
    | none => simp [runDumpsCatching, hres]
    | some e =>
      have h2 : (dumpPickleToHdf f o.path o.name o.bytes).2 = some e := by rw [hres]
      have := dump_error_unchanged h2
      rw [hres] at this
      simp only at this
      subst this
      simp [runDumpsCatching, hres]

/-! ## objects: `dump_state` / `load_state`, `checkpoint` / `set_state_from_checkpoint` -/

/-- Whatever object is dumped with whatever protocol, `load_state` hands exactly the dumped
    pickle bytes to `pickle.load`, hence returns an equal object as soon as pickle itself
    round-trips it (the only hypothesis; nothing about junk after the pickle is needed,
    because there is none). -/
theorem C20_state_roundtrip {α : Type} (P : Pickle α) {f f' : File} {path : Option Loc}
    {name : String} {protocol : Option Nat} {v : α}
    (hpickle : P.loads (P.dumps protocol v) = some v)
    (h : dumpState P f path name protocol v = .ok f') :
    loadBytes f' path name = .ok (P.dumps protocol v) ∧
    loadState P f' path name = .ok (some v) := by
  have hb := C20_roundtrip (path' := path) h rfl
  exact ⟨hb, by simp [loadState, hb, hpickle]⟩

/-- `sampler.checkpoint(fp, path)` followed by `sampler.set_state_from_checkpoint(fp, path)`
    passes a state equal to `sampler.state` to `set_state` (default dataset name). -/
theorem C20_checkpoint_roundtrip {α : Type} (P : Pickle α) {f f' : File} {path : Option Loc}
    {state : α} (hpickle : P.loads (P.dumps none state) = some state)
    (h : checkpoint P f path defaultName state = .ok f') :
    stateFromCheckpoint P f' path = .ok (some state) :=
  (C20_state_roundtrip P hpickle h).2

/-- `set_state_from_checkpoint` has no `dsetname` parameter: a checkpoint written under any
    other name is not what it reads — it reads `sampler_state`, which that checkpoint left
    untouched.  (An interface asymmetry of the code, recorded as it is.) -/
theorem C20_checkpoint_other_name {α : Type} (P : Pickle α) {f f' : File} {path : Option Loc}
    {name : String} {state : α} (hname : name ≠ defaultName)
    (h : checkpoint P f path name state = .ok f') :
    stateFromCheckpoint P f' path = stateFromCheckpoint P f path := by
  have hfr := (C20_frame (path' := path) (name' := defaultName) h
    (by intro hh; simp only [Key.mk.injEq] at hh; exact hname hh.2.symm)).1
  simp [stateFromCheckpoint, loadState, hfr]

/-! ## `dump_pickle_to_hdf` as an entry point of its own: streams in any position

  Everything above is stated for the bytes `b` the h5py part receives.  `dump_pickle_to_hdf`
  is public and receives a *stream*; a caller's stream may be positioned anywhere. -/

/-- **The position of the stream is irrelevant**: `dump_pickle_to_hdf` stores ALL the bytes
    the stream holds — and raises, resp. leaves the file, exactly as for those bytes —
    whether the stream is positioned at 0, at its end (just written, not rewound), in the
    middle (partially read) or beyond its end. -/
theorem C20_stream_position_irrelevant (f : File) (path : Option Loc) (name : String)
    (data : Bytes) (pos : Nat) :
    (dumpPickleStream f path name ⟨data, pos⟩).1 = dumpPickleToHdf f path name data := by
  rw [dumpPickleStream_eq]

/-- Two streams holding the same bytes — whatever their positions, however they were filled —
    are dumped identically. -/
theorem C20_stream_same_data {s t : Stream} (h : s.data = t.data) (f : File) (path : Option Loc)
    (name : String) : (dumpPickleStream f path name s).1 = (dumpPickleStream f path name t).1 := by
  rw [dumpPickleStream_eq, dumpPickleStream_eq, h]

/-- **Round trip for streams.**  Whenever `dump_pickle_to_hdf` returns, loading the same place
    returns every byte the stream held, from its first byte on, wherever it was positioned
    and whatever the key held before. -/
theorem C20_stream_roundtrip {f f' : File} {path path' : Option Loc} {name : String} {s : Stream}
    (h : (dumpPickleStream f path name s).1 = (f', none)) (hp : resolve path' = resolve path) :
    loadBytes f' path' name = .ok s.data := by
  rw [dumpPickleStream_eq] at h
  exact C20_roundtrip (dumpBytes_ok_iff.mpr h) hp

/-- The caller's stream afterwards: the same bytes, positioned at its end. -/
theorem C20_stream_left_at_end (f : File) (path : Option Loc) (name : String) (s : Stream) :
    (dumpPickleStream f path name s).2 = ⟨s.data, s.data.length⟩ := by
  rw [dumpPickleStream_eq]

/-- Why the rewind matters: a bare `memfp.read()` returns everything only from position 0
    (or when there is nothing to return).  From anywhere else it returns a proper suffix —
    nothing at all for a stream that was just written to. -/
theorem C20_bare_read_is_everything_iff (s : Stream) :
    s.read.1 = s.data ↔ s.pos = 0 ∨ s.data = [] := by
  rw [Stream.read_fst]
  constructor
  · intro h
    have hl := congrArg List.length h
    rw [List.length_drop] at hl
    by_cases hp : s.pos = 0
    · exact Or.inl hp
    · right
      have : s.data.length = 0 := by omega
      exact List.eq_nil_of_length_eq_zero this
  · rintro (h | h)
    · rw [h, List.drop_zero]
    · rw [h, List.drop_nil]

/-- A stream that was just written to and not rewound — what `pickle.dump(state, memfp)`
    leaves, and what `dump_state` passes on — is positioned at its end, a bare `read()`
    would return nothing, and yet it is stored whole. -/
theorem C20_stream_just_written (f : File) (path : Option Loc) (name : String) (b : Bytes) :
    (Stream.empty.write b).pos = b.length ∧ (Stream.empty.write b).read.1 = [] ∧
    (dumpPickleStream f path name (Stream.empty.write b)).1 = dumpPickleToHdf f path name b := by
  rw [Stream.empty_write, dumpPickleStream_eq]
  exact ⟨rfl, by simp [Stream.read], rfl⟩

/-- `dump_state` as written — pickle into a fresh `BytesIO`, hand it over positioned at its
    end — is the `dumpState` of the theorems above. -/
theorem C20_dump_state_via_stream {α : Type} (P : Pickle α) (f : File) (path : Option Loc)
    (name : String) (protocol : Option Nat) (v : α) :
    dumpStateViaStream P f path name protocol v = dumpState P f path name protocol v := by
  unfold dumpStateViaStream dumpState dumpBytes
  simp only [Stream.empty_write, dumpPickleStream_eq]

/-! ## several files in one process -/

/-- A dump to one file leaves every other open file as it was. -/
theorem C20_other_files_untouched (w : World) {i j : Nat} (h : j ≠ i) (path : Option Loc)
    (name : String) (s : Stream) : (w.dump i path name s).1 j = w j := by
  rw [World.dump_eq]; exact World.set_ne w h _

/-- ... and what it does to the addressed file (and whether it raises) is what it would do
    were that file the only one: nothing is remembered from calls on other files. -/
theorem C20_file_as_if_alone (w : World) (i : Nat) (path : Option Loc) (name : String) (s : Stream) :
    (w.dump i path name s).1 i = (dumpPickleToHdf (w i) path name s.data).1 ∧
    (w.dump i path name s).2 = (dumpPickleToHdf (w i) path name s.data).2 := by
  rw [World.dump_eq]; exact ⟨World.set_same _ _ _, rfl⟩

/-- **Interleaving.**  After ANY interleaved sequence of dumps to several files, each file is
    what the dumps addressed to it alone, in their order, make of it (so `C20_sequences`
    applies to each file separately). -/
theorem C20_world_projection (ops : List WorldOp) : ∀ (w : World) (i : Nat),
    runWorld w ops i =
      runDumpsCatching (w i) ((ops.filter (fun o => decide (o.file = i))).map (·.op)) := by
  induction ops with
  | nil => intro w i; rfl
  | cons o r ih =>
    intro w i
    unfold runWorld
    rw [ih, World.dump_eq]
    by_cases h : o.file = i
    · subst h
      simp [runDumpsCatching, Stream.ofBytes]
    · have h' : i ≠ o.file := fun hh => h hh.symm
      simp [h, World.set_ne w h']

/-! ## non-vacuity: concrete files, byte strings with zero bytes, all four overwrite cases -/

section Examples

/-- a file with groups `/a`, `/a/b` -/
def f0 : File := (File.empty.requireGroup ["a", "b"])

example : f0.groups = [["a"], ["a", "b"]] := by decide

def pA : Option Loc := some ["a", "b"]

/-- absent key, bytes with leading, inner and trailing zeros -/
example : (dumpBytes f0 pA "s" [0, 1, 0, 255, 0]).toOption.map (loadBytes · pA "s")
    = some (.ok [0, 1, 0, 255, 0]) := by decide

/-- only zero bytes -/
example : (dumpBytes f0 none "s" [0, 0, 0]).toOption.map (loadBytes · none "s")
    = some (.ok [0, 0, 0]) := by decide

/-- the empty byte string -/
example : (dumpBytes f0 none "s" []).toOption.map (loadBytes · none "s") = some (.ok []) := by decide

def twice (b1 b2 : Bytes) : Option (Except Err Bytes) :=
  match dumpBytes f0 pA "s" b1 with
  | .ok f1 => (dumpBytes f1 pA "s" b2).toOption.map (loadBytes · pA "s")
  | .error _ => none

/-- overwrite: shorter then longer; longer then shorter; equal length; down to length 1 and 0 -/
example : twice [7, 0] [1, 2, 0, 0, 3] = some (.ok [1, 2, 0, 0, 3]) := by decide
example : twice [1, 2, 0, 0, 3] [9, 0] = some (.ok [9, 0]) := by decide
example : twice [1, 2, 3] [0, 0, 0] = some (.ok [0, 0, 0]) := by decide
example : twice [1, 2, 3] [5] = some (.ok [5]) := by decide
example : twice [1, 2, 3] [] = some (.ok []) := by decide

/-- the hypotheses of `C20_overwrite` and `C20_fresh` are met by concrete files -/
example : f0.getGroup pA = .ok ["a", "b"] ∧ f0.getDset ⟨["a", "b"], "s"⟩ = none ∧
    (["a", "b"] ++ ["s"]) ∉ f0.groups := by decide

example : ∃ f1, dumpBytes f0 pA "s" [1, 0] = .ok f1 ∧
    f1.getDset ⟨["a", "b"], "s"⟩ = some ⟨[⟨1⟩, ⟨0⟩], none⟩ :=
  ⟨_, rfl, by decide⟩

/-- the rejections are real: missing group; the name of a subgroup; a dataset that may not grow -/
example : dumpBytes f0 (some ["zz"]) "s" [1] = .error .noGroup := by decide
example : dumpBytes f0 (some ["a"]) "b" [1] = .error .notDataset := by decide
example : dumpBytes (f0.setDset ⟨[], "s"⟩ ⟨[⟨1⟩, ⟨2⟩], some 3⟩) none "s" [1, 2, 3, 4]
    = .error .cannotResize := by decide
/-- ... while within the limit it succeeds -/
example : (dumpBytes (f0.setDset ⟨[], "s"⟩ ⟨[⟨1⟩, ⟨2⟩], some 3⟩) none "s" [4, 0, 6]).toOption.map
    (loadBytes · none "s") = some (.ok [4, 0, 6]) := by decide
example : loadBytes f0 none "s" = .error .noObject := by decide

/-- frame, concretely: two keys differing in path only and in name only -/
def ops3 : List DumpOp :=
  [⟨none, "s", [1, 1, 1, 1]⟩, ⟨pA, "s", [2, 0]⟩, ⟨none, "t", [3]⟩, ⟨none, "s", [0]⟩, ⟨some [], "t", [4, 4]⟩]

example : (runDumps f0 ops3).toOption.map
    (fun f => (loadBytes f none "s", loadBytes f pA "s", loadBytes f none "t", loadBytes f none "u"))
    = some (.ok [0], .ok [2, 0], .ok [4, 4], .error .noObject) := by decide

example : lastDump ⟨[], "s"⟩ ops3 = some [0] ∧ lastDump ⟨[], "t"⟩ ops3 = some [4, 4] ∧
    lastDump ⟨[], "u"⟩ ops3 = none := by decide

/-- hypotheses of `C20_sequences_total` on a concrete file and history -/
example : AllUnlimited f0 ∧
    ∀ o ∈ ops3, f0.isGroup (resolve o.path) = true ∧ (resolve o.path ++ [o.name]) ∉ f0.groups := by
  refine ⟨fun k d h => by simp [f0, File.getDset, File.requireGroup, File.empty, lookup] at h, ?_⟩
  decide

/-- a pickle for which the hypothesis of the object-level theorems holds, with trailing junk
    tolerated by `loads` (as `pickle.load` stops at STOP): length-prefixed bytes -/
def toyPickle : Pickle (List UInt8) where
  dumps := fun _ v => UInt8.ofNat v.length :: v
  loads := fun b => match b with
    | [] => none
    | n :: r => if n.toNat ≤ r.length then some (r.take n.toNat) else none

example : toyPickle.loads (toyPickle.dumps none [0, 9, 0]) = some [0, 9, 0] := by decide

example : (checkpoint toyPickle f0 none defaultName [0, 9, 0]).toOption.map
    (stateFromCheckpoint toyPickle · none) = some (.ok (some [0, 9, 0])) := by decide

/-- the element-wise reading really differs -/
example : joinItems (frombuffer [0, 1, 0]) = [1] ∧ tobytes (frombuffer [0, 1, 0]) = [0, 1, 0] := by
  decide

/-- streams positioned at 0, in the middle, at the end and beyond it, the same bytes (with
    zeros): a bare read differs, the dump does not -/
def sbytes : Bytes := [128, 0, 5, 0, 46]

example : ((⟨sbytes, 0⟩ : Stream).read.1, (⟨sbytes, 2⟩ : Stream).read.1, (⟨sbytes, 5⟩ : Stream).read.1,
    (⟨sbytes, 9⟩ : Stream).read.1) = (sbytes, [5, 0, 46], [], []) := by decide

example : ∀ pos ∈ [0, 2, 5, 9],
    ((dumpPickleStream f0 pA "s" ⟨sbytes, pos⟩).1.1, (dumpPickleStream f0 pA "s" ⟨sbytes, pos⟩).1.2)
      = ((dumpPickleToHdf f0 pA "s" sbytes).1, none) ∧
    loadBytes (dumpPickleStream f0 pA "s" ⟨sbytes, pos⟩).1.1 pA "s" = .ok sbytes := by decide

/-- a stream filled in two writes, then overwritten in the middle: position 3 of 5 -/
example : ((((Stream.empty.write [1, 2]).write [3, 4, 5]).seek 1).write [0, 0]) = ⟨[1, 0, 0, 4, 5], 3⟩ := by
  decide

/-- writing after a seek beyond the end zero-fills the gap; writing nothing does not -/
example : (((Stream.ofBytes [7]).seek 3).write [9]) = ⟨[7, 0, 0, 9], 4⟩ := by decide
example : (((Stream.ofBytes [7]).seek 3).write []) = ⟨[7], 3⟩ := by decide

/-- overwriting a longer / shorter / equally long checkpoint from a stream left at its end -/
def twiceS (b1 b2 : Bytes) : Option (Except Err Bytes) :=
  match dumpBytes f0 pA "s" b1 with
  | .ok f1 => match (dumpPickleStream f1 pA "s" (Stream.empty.write b2)).1 with
    | (f2, none) => some (loadBytes f2 pA "s")
    | _ => none
  | .error _ => none

example : twiceS [1, 2, 0, 0, 3] [9, 0] = some (.ok [9, 0]) := by decide
example : twiceS [7, 0] [1, 2, 0, 0, 3] = some (.ok [1, 2, 0, 0, 3]) := by decide
example : twiceS [1, 2, 3] [0, 0, 0] = some (.ok [0, 0, 0]) := by decide
example : twiceS [1, 2, 3] [] = some (.ok []) := by decide

/-- the refusals are the same for a stream in any position -/
example : (dumpPickleStream f0 (some ["zz"]) "s" ⟨[1, 2], 1⟩).1.2 = some .noGroup := by decide

example : dumpStateViaStream toyPickle f0 none defaultName none [0, 9, 0]
    = dumpState toyPickle f0 none defaultName none [0, 9, 0] := by decide

/-- two files: interleaved dumps under the same (path, name) -/
def w0 : World := fun _ => f0

def wops : List WorldOp :=
  [⟨0, ⟨none, "s", [1, 1, 1]⟩⟩, ⟨1, ⟨none, "s", [1, 1, 1]⟩⟩, ⟨0, ⟨pA, "s", [2, 0]⟩⟩, ⟨1, ⟨none, "s", [0]⟩⟩,
   ⟨0, ⟨some ["zz"], "s", [5]⟩⟩, ⟨1, ⟨pA, "s", []⟩⟩]

example : (loadBytes (runWorld w0 wops 0) none "s", loadBytes (runWorld w0 wops 0) pA "s",
           loadBytes (runWorld w0 wops 1) none "s", loadBytes (runWorld w0 wops 1) pA "s",
           loadBytes (runWorld w0 wops 2) none "s")
    = (.ok [1, 1, 1], .ok [2, 0], .ok [0], .ok [], .error .noObject) := by decide

end Examples

end Epsie.C20
