/-
  C02 — A proposal's reported density is the law of its jumps; symmetric is
  symmetric; the reported density depends on the two points and the current
  settings only, never on earlier queries.

  The model (`EpsieModel/Density.lean`) says, per family, which library calls
  `_logpdf` makes with which arguments and how `_jump` turns the generator's
  draws into a point; the correspondence suite `harness/density.py` ties that
  to the code.  Here the arguments are shown to describe the jump law.

  Proved for every base CDF `F` / even base density `g` of the standard draw
  (in particular Φ, φ):
    * rejection loops (geometric series) and cell discretisation (`round`,
      floor/ceil) — draw map ⇒ probability, no assumption;
    * the algebra of every family: truncation points = acceptance set,
      telescoping normalisers, wrapped difference, dot product, chord
      parametrisation, parametrisations of the births;
    * cache coherence for per-parameter dict objects, and a concrete
      counterexample for one shared dict object.
  Assumed (definitions, trusted reading — see `termPdf`, `tnPdf`, `tnCdf`):
    what scipy's `norm`/`truncnorm` functions are in terms of `F`, `g`; that a
    rejection loop's *density* is the base density over the acceptance mass
    (the mass statement is proved, the step to densities is the monotone change
    of variables `x ↦ μ + σx`); that a rotation preserves solid angle.
-/
import EpsieProofs.DensityLemmas
import EpsieModel.Generated.Tables
import Mathlib.Analysis.SpecialFunctions.Log.Basic
import Mathlib.Analysis.Normed.Module.Basic

namespace Epsie.C02
open Epsie.Density

/-! ## rejection loops -/

/-- The law of a draw-until-accepted loop (`BoundedNormal`, `Angular`, `BoundedDiscrete`,
    `BoundedEigenvector`): one draw lands in the target set with probability `w` and is accepted
    with probability `p`; after `k` rejections the loop outputs in the target with probability
    `(1-p)^k·w`; in total `w / p`. -/
theorem C02_rejection_normalises {p w : ℝ} (hp : 0 < p) (hp1 : p ≤ 1) :
    HasSum (fun k : ℕ => (1 - p) ^ k * w) (w / p) :=
  rejection_hasSum hp hp1

example : HasSum (fun k : ℕ => (1 - (1/4 : ℝ)) ^ k * (1/8)) ((1/8) / (1/4)) :=
  C02_rejection_normalises (by norm_num) (by norm_num)

/-! ## discretisation: which draws give which integer step -/

/-- `round` (ties to even) sends the open cell `(k - 1/2, k + 1/2)` to `k` and nothing outside the
    closed cell; floor/ceil sends `(k-1, k]` to `k > 0`, `[k, k+1)` to `k < 0` and only `0` to `0`.
    Hence `P(step = d) = stepCell F σ succ d` for a draw `σ·z`, `z ∼ F` continuous. -/
theorem C02_step_cells (z : ℚ) (k : ℤ) :
    ((k : ℚ) - 1/2 < z → z < (k : ℚ) + 1/2 → discStep true z = k) ∧
    (discStep true z = k → (k : ℚ) - 1/2 ≤ z ∧ z ≤ (k : ℚ) + 1/2) ∧
    (0 < k → (discStep false z = k ↔ (k : ℚ) - 1 < z ∧ z ≤ k)) ∧
    (k < 0 → (discStep false z = k ↔ (k : ℚ) ≤ z ∧ z < k + 1)) ∧
    (discStep false z = 0 ↔ z = 0) := by
  refine ⟨fun h0 h1 => ?_, fun h => ?_, fun hk => ?_, fun hk => ?_, ?_⟩
  · simpa [discStep] using roundHalfEven_of_mem_cell h0 h1
  · exact mem_cell_of_roundHalfEven (by simpa [discStep] using h)
  · simpa [discStep] using floorceil_eq_pos (z := z) hk
  · simpa [discStep] using floorceil_eq_neg (z := z) hk
  · simpa [discStep] using floorceil_eq_zero (z := z)

example : discStep true (12/5) = 2 ∧ discStep false (1/3) = 1 :=
  ⟨(C02_step_cells (12/5) 2).1 (by norm_num) (by norm_num),
   ((C02_step_cells (1/3) 1).2.2.1 (by norm_num)).mpr (by norm_num)⟩

/-- The cells of consecutive steps telescope: the steps `a, …, a+n-1` have total mass
    `edge(a+n) - edge(a)`, for either discretisation and every `F`. -/
theorem C02_discrete_cells_telescope (F : ℚ → ℚ) (σ : ℚ) (succ : Bool) (a : ℤ) (n : ℕ) :
    ∑ i ∈ Finset.range n, stepCell F σ succ (a + i)
      = stepEdge F σ succ (a + n) - stepEdge F σ succ a :=
  sum_stepCell F σ succ a n

example : ∑ i ∈ Finset.range 4, stepCell (fun z => z / 10) 2 true (-1 + i)
    = stepEdge (fun z => z / 10) 2 true 3 - stepEdge (fun z => z / 10) 2 true (-1) :=
  C02_discrete_cells_telescope _ _ _ _ _

/-! ## discrete families -/

/-- Queries of a discrete family at integer points: per parameter `(successive, std, x', x)`. -/
def fwdQ (ps : List (Bool × ℚ × ℤ × ℤ)) : List DQ :=
  ps.map fun p => { succ := p.1, std := p.2.1, xi := (p.2.2.1 : ℚ), given := (p.2.2.2 : ℚ) }

def revQ (ps : List (Bool × ℚ × ℤ × ℤ)) : List DQ :=
  ps.map fun p => { succ := p.1, std := p.2.1, xi := (p.2.2.2 : ℚ), given := (p.2.2.1 : ℚ) }

theorem ndCells_symm (s : Bool) (σ : ℚ) (x y : ℤ) :
    ndCells { succ := s, std := σ, xi := (x : ℚ), given := (y : ℚ) }
      = ndCells { succ := s, std := σ, xi := (y : ℚ), given := (x : ℚ) } := by
  have e1 : ((x : ℚ) - (y : ℚ)) = ((x - y : ℤ) : ℚ) := by push_cast; ring
  have e2 : ((y : ℚ) - (x : ℚ)) = ((y - x : ℤ) : ℚ) := by push_cast; ring
  have habs : absInt (x - y) = absInt (y - x) := by unfold absInt; omega
  unfold ndCells
  simp only [e1, e2, roundHalfEven_intCast, rat_floor_eq, Int.floor_intCast, habs]
  cases s with
  | true => simp
  | false =>
      simp only [Bool.false_eq_true, if_false]
      by_cases h : x - y = 0
      · rw [if_pos h, if_pos (by omega)]
      · rw [if_neg h, if_neg (by omega)]

theorem ndSpecLoop_symm (G : Key → ℚ → ℚ) : ∀ (ps : List (Bool × ℚ × ℤ × ℤ)) (acc : List ℚ),
    ndSpecLoop G (fwdQ ps) acc = ndSpecLoop G (revQ ps) acc
  | [], _ => rfl
  | p :: ps, acc => by
      obtain ⟨s, σ, x, y⟩ := p
      simp only [fwdQ, revQ, List.map_cons, ndSpecLoop]
      rw [ndCells_symm s σ x y]
      cases ndCells { succ := s, std := σ, xi := (y : ℚ), given := (x : ℚ) } with
      | none => rfl
      | some kk =>
          simp only []
          split
          · rfl
          · exact ndSpecLoop_symm G ps _

/-- `NormalDiscrete` (declared symmetric) reports the same mass for `x → x'` and `x' → x`, for
    every library CDF, every mix of `successive` flags and scales, at integer points (the points
    a discrete proposal produces). With per-parameter caches this also holds for the literal
    cached code after any history (`C02_cache_coherent`). -/
theorem C02_normal_discrete_symmetric (G : Key → ℚ → ℚ) (ps : List (Bool × ℚ × ℤ × ℤ)) :
    ndSpec G (fwdQ ps) = ndSpec G (revQ ps) :=
  ndSpecLoop_symm G ps []

example : ndSpec (ndG fun z => z / 10) (fwdQ [(true, 2, 3, 1), (false, 1, -2, 0)])
    = ndSpec (ndG fun z => z / 10) (revQ [(true, 2, 3, 1), (false, 1, -2, 0)]) :=
  C02_normal_discrete_symmetric _ _

/-- The mass `NormalDiscrete` reports for one parameter is the probability of the step
    (`stepCell`, the law of `discStep` by `C02_step_cells`) when `F` is symmetric
    (`F(-z) = 1 - F(z)`, needed because the code evaluates `|dx|`). -/
theorem C02_normal_discrete_eq_true (F : ℚ → ℚ) (hF : ∀ z, F (-z) = 1 - F z) {σ : ℚ} (succ : Bool)
    (x y : ℤ) (hne : succ = false → x ≠ y)
    (hpos : succ = false → stepCell F σ false (x - y) ≠ 0) :
    ndSpec (ndG F) [{ succ := succ, std := σ, xi := (x : ℚ), given := (y : ℚ) }]
      = some [stepCell F σ succ (x - y)] := by
  have e1 : ((x : ℚ) - (y : ℚ)) = ((x - y : ℤ) : ℚ) := by push_cast; ring
  have hneg : ∀ u : ℚ, F (-u / σ) = 1 - F (u / σ) := fun u => by rw [neg_div]; exact hF _
  cases succ with
  | true =>
      simp only [ndSpec, ndSpecLoop, ndCells, if_true, e1, roundHalfEven_intCast, ndG,
        Bool.not_true, Bool.false_and, Bool.false_eq_true, if_false, List.reverse_cons,
        List.reverse_nil, List.nil_append, stepCell]
      rcases le_or_gt 0 (x - y) with h | h
      · have : absInt (x - y) = x - y := by unfold absInt; omega
        rw [this]
      · have : absInt (x - y) = -(x - y) := by unfold absInt; omega
        rw [this]
        have a1 : ((-(x - y) : ℤ) : ℚ) + 1/2 = -(((x - y : ℤ) : ℚ) - 1/2) := by push_cast; ring
        have a2 : ((-(x - y) : ℤ) : ℚ) - 1/2 = -(((x - y : ℤ) : ℚ) + 1/2) := by push_cast; ring
        rw [a1, a2, hneg, hneg]
        congr 2; ring
  | false =>
      have hne' : x - y ≠ 0 := fun h => hne rfl (by omega)
      have hpos' := hpos rfl
      simp only [ndSpec, ndSpecLoop, ndCells, Bool.false_eq_true, if_false, e1, rat_floor_eq,
        Int.floor_intCast, if_neg hne', ndG, Bool.not_false, Bool.true_and, beq_iff_eq]
      have key : F (((absInt (x - y) : ℤ) : ℚ) / σ) - F ((((absInt (x - y) : ℤ) : ℚ) - 1) / σ)
          = stepCell F σ false (x - y) := by
        unfold stepCell
        simp only [Bool.false_eq_true, if_false]
        rcases lt_or_gt_of_ne hne' with h | h
        · have : absInt (x - y) = -(x - y) := by unfold absInt; omega
          rw [this, if_neg (by omega), if_pos h]
          have a1 : ((-(x - y) : ℤ) : ℚ) = -((x - y : ℤ) : ℚ) := by push_cast; ring
          have a2 : ((-(x - y) : ℤ) : ℚ) - 1 = -(((x - y : ℤ) : ℚ) + 1) := by push_cast; ring
          rw [a2, a1, hneg, hneg]; ring
        · have : absInt (x - y) = x - y := by unfold absInt; omega
          rw [this, if_pos h]
      rw [key, if_neg hpos']
      simp

example : ndSpec (ndG fun z => 1/2 + z / 10) [{ succ := true, std := 2, xi := ((-3 : ℤ) : ℚ), given := ((0 : ℤ) : ℚ) }]
    = some [stepCell (fun z => 1/2 + z / 10) 2 true (-3 - 0)] :=
  C02_normal_discrete_eq_true _ (fun z => by ring) true (-3) 0 (by simp) (by simp)

/-- `BoundedDiscrete` (successive off **and** on), one parameter, integer points inside the
    bounds: the reported mass equals the true mass of the rejection sampler — the cell of the step
    over the total mass of the steps that stay inside `[lo, hi]` (`C02_rejection_normalises` with
    `w` = cell, `p` = that total) — for every `F`. Independent parameters multiply. -/
theorem C02_bounded_discrete_eq_true (F : ℚ → ℚ) {σ : ℚ} (hσ : 0 < σ) (succ : Bool) {lo hi k mu : ℤ}
    (hmu0 : lo ≤ mu) (hmu1 : mu ≤ hi) (hk0 : lo ≤ k) (hk1 : k ≤ hi) (hne : succ = false → k ≠ mu) :
    bdSpec (bdG F) [{ succ := succ, std := σ, lo := lo, hi := hi, xi := (k : ℚ), given := (mu : ℚ) }]
      = some [stepCell F σ succ (k - mu) /
          ∑ i ∈ Finset.range (hi - lo + 1).toNat, stepCell F σ succ (lo - mu + i)] :=
  bd_param_mass F hσ succ hmu0 hmu1 hk0 hk1 hne

example : bdSpec (bdG fun z => 1/2 + z / 10) [{ succ := true, std := 2, lo := 0, hi := 3, xi := ((2 : ℤ) : ℚ), given := ((0 : ℤ) : ℚ) }]
    = some [stepCell (fun z => 1/2 + z / 10) 2 true (2 - 0) /
        ∑ i ∈ Finset.range ((3 : ℤ) - 0 + 1).toNat, stepCell (fun z => 1/2 + z / 10) 2 true (0 - 0 + i)] :=
  C02_bounded_discrete_eq_true _ (by norm_num) true (by norm_num) (by norm_num) (by norm_num) (by norm_num) (by simp)

/-- The accepted steps of `BoundedDiscrete._jump` are exactly those that stay inside the bounds,
    so the normaliser above is the acceptance probability of its loop. -/
theorem C02_bounded_discrete_accept (succ : Bool) (σ : ℚ) (lo hi : ℤ) (mu : ℤ) (d : ℚ) (rest : List ℚ) :
    (bdJumpParam succ σ lo hi (mu : ℚ) (d :: rest)).2 =
      if lo ≤ mu + discStep succ d ∧ mu + discStep succ d ≤ hi then some (mu + discStep succ d, 1)
      else ((bdJumpParam succ σ lo hi (mu : ℚ) rest).2).map fun r => (r.1, r.2 + 1) := by
  simp only [bdJumpParam, firstAccepted, ceilfloor_intCast, Bool.and_eq_true, decide_eq_true_eq]
  split
  · simp
  · simp [Option.map_map, Function.comp_def]

/-! ## caches -/

/-- ∀ histories of density queries with arbitrary scale changes in between: when the
    per-parameter caches are distinct dict objects, every answer of the literal cached code
    equals the cache-free value at the scales current at that query — a function of the two
    points and the current settings only. (Both discrete families; start: fresh caches.) -/
theorem C02_cache_coherent (bounded : Bool) (G : Key → ℚ → ℚ) (hist : List (List DQ)) :
    runQueries bounded G hist (Caches.fresh false)
      = hist.map (if bounded then bdSpec G else ndSpec G) :=
  runQueries_spec bounded hist _ (fun _ _ h => h) (coherent_fresh G false)

/-- The same from any reachable (coherent) cache state with distinct dict objects. -/
theorem C02_cache_coherent_from (bounded : Bool) (G : Key → ℚ → ℚ) (c : Caches)
    (hinj : Function.Injective c.ptr) (hc : Coherent G c) (hist : List (List DQ)) :
    runQueries bounded G hist c = hist.map (if bounded then bdSpec G else ndSpec G) :=
  runQueries_spec bounded hist c hinj hc

example (G : Key → ℚ → ℚ) : runQueries false G [[wq1, wq2], [wq1, wq2]] (Caches.fresh false)
    = [ndSpec G [wq1, wq2], ndSpec G [wq1, wq2]] :=
  C02_cache_coherent false G _

/-- With `_cdfcache = [{}]*n` (ONE dict object for all parameters) the answer depends on earlier
    queries: two parameters with scales 1 and 3 (`wq1`, `wq2`), the same query twice — the first
    answer is right, the second uses the second parameter's CDF values for the first parameter.
    Concrete witness, any library `G` that tells the two scales apart on the cell `(3/2, 5/2)`. -/
theorem C02_shared_cache_counterexample (G : Key → ℚ → ℚ)
    (hG : G [5/2] 1 - G [3/2] 1 ≠ G [5/2] 3 - G [3/2] 3) :
    ∃ a b, runQueries false G [[wq1, wq2], [wq1, wq2]] (Caches.fresh true) = [a, b] ∧ a ≠ b ∧
      a = ndSpec G [wq1, wq2] := by
  refine ⟨_, _, shared_cache_run G, ?_, (witness_spec G).symm⟩
  intro h
  simp only [Option.some.injEq, List.cons.injEq, and_true] at h
  exact hG h

/-- the hypothesis is met by a (linear) CDF, and by Φ. -/
example : (1/2 + (5/2 : ℚ) / 1 / 10) - (1/2 + (3/2 : ℚ) / 1 / 10)
    ≠ (1/2 + (5/2 : ℚ) / 3 / 10) - (1/2 + (3/2 : ℚ) / 3 / 10) := by norm_num

/-! ## continuous families -/

/-- `Normal` (declared symmetric), diagonal case: the terms for `x → x'` and `x' → x` have the same
    value for every even base density — whatever scale the frozen `_proposal` carries. -/
theorem C02_normal_symmetric (g F : ℚ → ℚ) (hg : ∀ z, g (-z) = g z) :
    ∀ (scale xi given : List ℚ),
      (normalTerms scale xi given).map (termPdf g F) = (normalTerms scale given xi).map (termPdf g F)
  | [], _, _ => by simp [normalTerms]
  | _ :: _, [], [] => by simp [normalTerms]
  | _ :: _, [], _ :: _ => by simp [normalTerms]
  | _ :: _, _ :: _, [] => by simp [normalTerms]
  | s :: ss, x :: xs, y :: ys => by
      simp only [normalTerms, List.map_cons, termPdf, sub_zero]
      rw [C02_normal_symmetric g F hg ss xs ys]
      have : (x - y) / s = -((y - x) / s) := by ring
      rw [this, hg]

/-- Full covariance: the reverse query hands the library `-dx`; a centred multivariate normal
    density is even, so the two values agree. -/
theorem C02_normal_full_symmetric : ∀ (xi given : List ℚ),
    subVec xi given = (subVec given xi).map (fun v => -v)
  | [], [] => rfl
  | [], _ :: _ => rfl
  | _ :: _, [] => rfl
  | x :: xs, y :: ys => by simp [subVec, C02_normal_full_symmetric xs ys]

example : (normalTerms [2, 3] [1, 5] [4, 0]).map (termPdf (fun z => 1 / (1 + z * z)) id)
    = (normalTerms [2, 3] [4, 0] [1, 5]).map (termPdf (fun z => 1 / (1 + z * z)) id) :=
  C02_normal_symmetric _ _ (fun z => by ring_nf) _ _ _

/-- `BoundedNormal._jump` accepts a draw `y + σz` exactly when the standardised draw lies between
    the truncation points `a, b` that `_logpdf` hands to `truncnorm`. -/
theorem C02_bounded_normal_accept_iff {lo hi σ y z : ℚ} (hσ : 0 < σ) :
    (lo ≤ y + σ * z ∧ y + σ * z ≤ hi) ↔ ((lo - y) / σ ≤ z ∧ z ≤ (hi - y) / σ) := by
  rw [div_le_iff₀ hσ, le_div_iff₀ hσ]
  constructor <;> intro ⟨h1, h2⟩ <;> constructor <;> nlinarith

/-- Reported density of `BoundedNormal` (one parameter, `x` inside the bounds) = base density over
    the acceptance mass of the rejection loop — the truncated law it samples. -/
theorem C02_bounded_normal_eq_true (g F : ℚ → ℚ) (p : Bnd) (hσ : 0 < p.std) {x y : ℚ}
    (hx0 : p.lo ≤ x) (hx1 : x ≤ p.hi) :
    termPdf g F (bnTerm p x y)
      = g ((x - y) / p.std) / p.std / (F ((p.hi - y) / p.std) - F ((p.lo - y) / p.std)) := by
  simp only [bnTerm, termPdf, tnPdf]
  rw [if_pos ⟨div_le_div_of_nonneg_right (by linarith) hσ.le,
              div_le_div_of_nonneg_right (by linarith) hσ.le⟩]

/-- The Hastings factor from the reported density is the ratio of the normalising (acceptance)
    masses at the two points, `Z(x)/Z(x')`, which is the ratio of the true jump densities. -/
theorem C02_bounded_normal_ratio (g F : ℚ → ℚ) (hg : ∀ z, g (-z) = g z) (p : Bnd) (hσ : 0 < p.std)
    {x y : ℚ} (hx0 : p.lo ≤ x) (hx1 : x ≤ p.hi) (hy0 : p.lo ≤ y) (hy1 : y ≤ p.hi)
    (hgx : g ((x - y) / p.std) ≠ 0)
    (hZx : F ((p.hi - x) / p.std) - F ((p.lo - x) / p.std) ≠ 0)
    (hZy : F ((p.hi - y) / p.std) - F ((p.lo - y) / p.std) ≠ 0) :
    termPdf g F (bnTerm p x y) / termPdf g F (bnTerm p y x)
      = (F ((p.hi - x) / p.std) - F ((p.lo - x) / p.std))
          / (F ((p.hi - y) / p.std) - F ((p.lo - y) / p.std)) := by
  rw [C02_bounded_normal_eq_true g F p hσ hx0 hx1, C02_bounded_normal_eq_true g F p hσ hy0 hy1]
  have : (y - x) / p.std = -((x - y) / p.std) := by ring
  rw [this, hg]
  have := hσ.ne'
  field_simp

example : termPdf (fun _ => 1) id (bnTerm { lo := 0, hi := 4, std := 2 } 1 3)
      / termPdf (fun _ => 1) id (bnTerm { lo := 0, hi := 4, std := 2 } 3 1)
    = (((4 : ℚ) - 1) / 2 - (0 - 1) / 2) / ((4 - 3) / 2 - (0 - 3) / 2) :=
  C02_bounded_normal_ratio _ _ (fun _ => rfl) _ (by norm_num) (by norm_num) (by norm_num) (by norm_num)
    (by norm_num) (by norm_num) (by norm_num) (by norm_num)

/-- The wrapped shifts of the two directions mirror each other about `half`
    (or both are the antipode `0`). -/
theorem C02_angular_shift_reflect (c : AngCfg) (hh : 0 < c.half) (xi given : ℚ) :
    angShift c given xi
      = if angShift c xi given = 0 then 0 else 2 * c.half - angShift c xi given := by
  have hm : (0 : ℚ) < 2 * c.half := by linarith
  have := pyMod_reflect (t := pyMod (xi * c.inv) (2 * c.half) + (c.half - pyMod (given * c.inv) (2 * c.half))) hm
  have key : angShift c given xi
      = pyMod (2 * c.half - (pyMod (xi * c.inv) (2 * c.half) + (c.half - pyMod (given * c.inv) (2 * c.half))))
          (2 * c.half) := by
    simp only [angShift]; congr 1; ring
  rw [key]
  exact this

/-- `Angular` (declared symmetric): the reported density is an even function of the circular
    difference, so `x → x'` and `x' → x` get the same value, for every even base density. -/
theorem C02_angular_symmetric (g F : ℚ → ℚ) (hg : ∀ z, g (-z) = g z) (c : AngCfg) (hh : 0 < c.half)
    (σ xi given : ℚ) :
    termPdf g F (angTerm c σ xi given) = termPdf g F (angTerm c σ given xi) := by
  have hr := C02_angular_shift_reflect c hh xi given
  simp only [angTerm, termPdf, tnPdf]
  by_cases h0 : angShift c xi given = 0
  · rw [hr, if_pos h0, h0]
  · rw [hr, if_neg h0]
    have : (2 * c.half - angShift c xi given - c.half) / (σ * c.inv)
        = -((angShift c xi given - c.half) / (σ * c.inv)) := by ring
    rw [this, hg]
    have hiff : (-(c.half / (σ * c.inv)) ≤ -((angShift c xi given - c.half) / (σ * c.inv)) ∧
        -((angShift c xi given - c.half) / (σ * c.inv)) ≤ c.half / (σ * c.inv)) ↔
        (-(c.half / (σ * c.inv)) ≤ (angShift c xi given - c.half) / (σ * c.inv) ∧
        (angShift c xi given - c.half) / (σ * c.inv) ≤ c.half / (σ * c.inv)) := by
      constructor <;> intro ⟨h1, h2⟩ <;> constructor <;> linarith
    simp only [hiff]

example : termPdf (fun z => 1 / (1 + z * z)) id (angTerm { half := 1, factor := 3, inv := 1/3, logfactor := 1 } 2 5 1)
    = termPdf (fun z => 1 / (1 + z * z)) id (angTerm { half := 1, factor := 3, inv := 1/3, logfactor := 1 } 2 1 5) :=
  C02_angular_symmetric _ _ (fun z => by ring_nf) _ (by norm_num) _ _ _

/-- The wrapped shift of the point `Angular._jump` produces from an accepted step `δ ∈ [-half, half)`
    is `δ + half`: the reported density is evaluated at the step itself, so it is the truncated
    law of the step (per unit of `factor`; `- _logfactor` converts to radians). -/
theorem C02_angular_draw_shift (c : AngCfg) (hh : 0 < c.half) (hfi : c.factor * c.inv = 1)
    {δ from_ : ℚ} (h0 : -c.half ≤ δ) (h1 : δ < c.half) :
    angShift c (pyMod (δ + from_ * c.inv) (2 * c.half) * c.factor) from_ = δ + c.half := by
  have hm : (0 : ℚ) < 2 * c.half := by linarith
  have hm' := hm.ne'
  simp only [angShift]
  have e1 : pyMod (δ + from_ * c.inv) (2 * c.half) * c.factor * c.inv
      = pyMod (δ + from_ * c.inv) (2 * c.half) := by rw [mul_assoc, hfi, mul_one]
  rw [e1, pyMod_of_mem hm (pyMod_nonneg hm) (pyMod_lt hm)]
  have s1 := pyMod_spec (δ + from_ * c.inv) (2 * c.half)
  have s2 := pyMod_spec (from_ * c.inv) (2 * c.half)
  have e2 : pyMod (δ + from_ * c.inv) (2 * c.half) + (c.half - pyMod (from_ * c.inv) (2 * c.half))
      = (δ + c.half) + (((from_ * c.inv / (2 * c.half)).floor - ((δ + from_ * c.inv) / (2 * c.half)).floor : ℤ) : ℚ)
          * (2 * c.half) := by
    push_cast; linarith
  rw [e2, pyMod_add_int_mul hm', pyMod_of_mem hm (by linarith) (by linarith)]

/-- Hence: reported density at the produced point = density of the truncated step. -/
theorem C02_angular_eq_true (g F : ℚ → ℚ) (c : AngCfg) (hh : 0 < c.half) (hfi : c.factor * c.inv = 1)
    {σ δ from_ : ℚ} (hs : 0 < σ * c.inv) (h0 : -c.half ≤ δ) (h1 : δ < c.half) :
    termPdf g F (angTerm c σ (pyMod (δ + from_ * c.inv) (2 * c.half) * c.factor) from_)
      = g (δ / (σ * c.inv)) / (σ * c.inv)
          / (F (c.half / (σ * c.inv)) - F (-(c.half / (σ * c.inv)))) := by
  simp only [angTerm, termPdf, tnPdf]
  rw [C02_angular_draw_shift c hh hfi h0 h1]
  have : δ + c.half - c.half = δ := by ring
  rw [this, if_pos]
  constructor
  · rw [← neg_div]; exact div_le_div_of_nonneg_right h0 hs.le
  · exact div_le_div_of_nonneg_right h1.le hs.le

example : angShift { half := 1, factor := 3, inv := 1/3, logfactor := 1 }
    (pyMod (-1/2 + 1 * (1/3)) (2 * 1) * 3) 1 = -1/2 + 1 :=
  C02_angular_draw_shift _ (by norm_num) (by norm_num) (by norm_num) (by norm_num)

/-! ## solid angle (von Mises–Fisher) -/

/-- Value of the solid-angle term for given `sin`, `cos`, `log`: `log norm + κ (μ · x)`. -/
def vmfSem (sin cos : ℚ → ℚ) (lognorm : ℚ) : Term → ℚ
  | .vmf _ κ pm tm px tx =>
      lognorm + κ * (sin tm * cos pm * (sin tx * cos px) + sin tm * sin pm * (sin tx * sin px)
        + cos tm * cos tx)
  | _ => 0

/-- `IsotropicSolidAngle` (declared symmetric): the reported log-density depends on the two points
    through their dot product only, in every angle convention (`radec`, `degs`). -/
theorem C02_vmf_symmetric (sin cos : ℚ → ℚ) (lognorm : ℚ) (c : SphCfg) (norm κ px tx pm tm : ℚ) :
    (vmfTerms c norm κ [px, tx] [pm, tm]).map (vmfSem sin cos lognorm)
      = (vmfTerms c norm κ [pm, tm] [px, tx]).map (vmfSem sin cos lognorm) := by
  simp only [vmfTerms, List.map_cons, List.map_nil, vmfSem]
  congr 1; ring

/-- The inverse-CDF step of `_new_point`: `w(u) = log(e^κ - u·(e^κ - e^{-κ}))/κ` inverts the CDF
    `G(w) = (e^κ - e^{κw})/(e^κ - e^{-κ})` of `cos θ` under the von Mises–Fisher law at the pole
    (density of `w` ∝ `e^{κw}` on `[-1, 1]`), and the code's argument
    `κ·u/(2π·norm)` with `norm = κ/(4π sinh κ)` is `u·(e^κ - e^{-κ})`. -/
theorem C02_vmf_cdf_inverse {κ u pi : ℝ} (hκ : 0 < κ) (hpi : 0 < pi) (hu1 : u ≤ 1) :
    (Real.exp κ - Real.exp (κ * (Real.log (Real.exp κ - u * (Real.exp κ - Real.exp (-κ))) / κ)))
        / (Real.exp κ - Real.exp (-κ)) = u ∧
    κ * u / (2 * pi * (κ / (4 * pi * Real.sinh κ))) = u * (Real.exp κ - Real.exp (-κ)) := by
  have hlt : Real.exp (-κ) < Real.exp κ := Real.exp_lt_exp.mpr (by linarith)
  have hpos : 0 < Real.exp κ - u * (Real.exp κ - Real.exp (-κ)) := by
    have := Real.exp_pos (-κ)
    nlinarith
  constructor
  · rw [mul_div_cancel₀ _ hκ.ne', Real.exp_log hpos]
    have : Real.exp κ - Real.exp (-κ) ≠ 0 := by linarith
    field_simp
    ring
  · have hs : Real.sinh κ ≠ 0 := by
      rw [Real.sinh_eq]; intro h; linarith
    rw [Real.sinh_eq] at hs ⊢
    have := hpi.ne'
    field_simp
    ring

/-- `_rotmat` is orthogonal: it preserves dot products (hence angles; that it preserves solid
    angle is the assumption stated in the header). -/
theorem C02_rotmat_orthogonal {cb sb cg sg : ℚ} (hb : cb ^ 2 + sb ^ 2 = 1) (hg : cg ^ 2 + sg ^ 2 = 1)
    (v w : ℚ × ℚ × ℚ) : dot3 (rot cb sb cg sg v) (rot cb sb cg sg w) = dot3 v w := by
  obtain ⟨v1, v2, v3⟩ := v
  obtain ⟨w1, w2, w3⟩ := w
  simp only [dot3, rot]
  linear_combination (v1 * w1 * cb ^ 2 + v3 * w3 * sb ^ 2 + (v1 * w3 + v3 * w1) * cb * sb + v2 * w2) * hg
    + (v1 * w1 + v3 * w3) * hb

/-- … and maps the pole to `μ = (sin β cos γ, sin β sin γ, cos β)`. -/
theorem C02_rotmat_maps_pole (cb sb cg sg : ℚ) :
    rot cb sb cg sg (0, 0, 1) = (sb * cg, sb * sg, cb) := by
  simp [rot]

/-- So for a draw `ξ` made at the pole, `(Rξ)·μ = ξ·ẑ = cos θ`: the reported density of the
    produced point `Rξ` given `μ`, `norm·exp(κ (Rξ)·μ)`, is the pole density `norm·exp(κ cos θ)` of
    the draw. (Partial: that `R` preserves solid angle is assumed.) -/
theorem C02_vmf_eq_true_partial {cb sb cg sg : ℚ} (hb : cb ^ 2 + sb ^ 2 = 1) (hg : cg ^ 2 + sg ^ 2 = 1)
    (ξ : ℚ × ℚ × ℚ) : dot3 (rot cb sb cg sg ξ) (sb * cg, sb * sg, cb) = ξ.2.2 := by
  rw [← C02_rotmat_maps_pole, C02_rotmat_orthogonal hb hg]
  simp [dot3]

example : dot3 (rot (3/5) (4/5) (5/13) (12/13) (1, 2, 3)) (rot (3/5) (4/5) (5/13) (12/13) (0, 1, -1))
    = dot3 (1, 2, 3) (0, 1, -1) :=
  C02_rotmat_orthogonal (by norm_num) (by norm_num) _ _

/-! ## eigenvector families (most recent jump and its reverse) -/

theorem eigenJump_reverse : ∀ (x v : List ℚ) (dx : ℚ), x.length ≤ v.length →
    eigenJump (eigenJump x v dx) v (-dx) = x
  | [], _, _, _ => by cases ‹List ℚ› <;> simp [eigenJump]
  | _ :: _, [], _, h => by simp at h
  | x :: xs, v :: vs, dx, h => by
      simp only [eigenJump, List.cons.injEq]
      exact ⟨by ring, eigenJump_reverse xs vs dx (by simpa using h)⟩

/-- `Eigenvector` (declared symmetric): the reported value ignores the points, so it is the same
    for the most recent jump and its reverse; and this is right: the reverse of a jump along
    eigenvector `v` with step `dx` is the jump along `v` with step `-dx` (direction probabilities do
    not depend on the position), whose density equals that of `dx` for an even base density. -/
theorem C02_eigen_symmetric (g F : ℚ → ℚ) (hg : ∀ z, g (-z) = g z) (dx s : ℚ) (x y v : List ℚ)
    (hl : x.length ≤ v.length) :
    eigenTerms dx s y x = eigenTerms dx s x y ∧
    eigenJump (eigenJump x v dx) v (-dx) = x ∧
    termPdf g F (Term.normLogpdf (-dx) 0 s) = termPdf g F (Term.normLogpdf dx 0 s) := by
  refine ⟨rfl, eigenJump_reverse x v dx hl, ?_⟩
  simp only [termPdf, sub_zero]
  rw [neg_div, hg]

/-- For a unit eigenvector the distance from a point of the chord to its end is the difference of
    the chord parameters: `‖(t - t₁)·v‖ = t - t₁`. -/
theorem C02_chord_distance {E : Type*} [SeminormedAddCommGroup E] [NormedSpace ℝ E] (v : E)
    (hv : ‖v‖ = 1) {t t1 : ℝ} (h : t1 ≤ t) : ‖(t - t1) • v‖ = t - t1 := by
  rw [norm_smul, hv, mul_one, Real.norm_eq_abs, abs_of_nonneg (by linarith)]

/-- `BoundedEigenvector`, most recent jump `x → x + d·v` and its reverse, given the chord of the box
    through `x` along the unit eigenvector `v` (end points at parameters `t₁ ≤ 0 ≤ t₂`, distances as
    in `C02_chord_distance`): the reported density is the truncated law along the chord,
    `g(d/s)/s / (F(t₂/s) - F(t₁/s))`, whichever end `_intersects` lists first (needs `F(-z) = 1 - F(z)`
    for the second orientation), and the reverse query (same chord, seen from `x + d·v`, step `-d`)
    has the same form; so the Hastings factor is the ratio of the two acceptance masses.
    Partial: the chord itself (`ConvexHull`, `_intersects` and its de-duplication) is library /
    geometry code that is measured by the harness, not modelled. -/
theorem C02_bounded_eigen_ratio_partial (g F : ℚ → ℚ) (hg : ∀ z, g (-z) = g z)
    (hF : ∀ z, F (-z) = 1 - F z) {s t1 t2 d : ℚ} (hs : 0 < s) (h1 : t1 ≤ d) (h2 : d ≤ t2)
    (ht1 : t1 ≤ 0) (ht2 : 0 ≤ t2) :
    -- `in1` is the end at `t₁`:  mu = -t₁, xi = d - t₁, width = t₂ - t₁
    ((beigenTerms s (t2 - t1) (-t1) (d - t1)).map (termPdf g F)
      = [g (d / s) / s / (F (t2 / s) - F (t1 / s))]) ∧
    -- `in1` is the end at `t₂`:  mu = t₂, xi = t₂ - d
    ((beigenTerms s (t2 - t1) t2 (t2 - d)).map (termPdf g F)
      = [g (d / s) / s / (F (t2 / s) - F (t1 / s))]) ∧
    -- the reverse query from `x + d·v` (chord parameters `t₁ - d ≤ 0 ≤ t₂ - d`, step `-d`)
    ((beigenTerms s (t2 - t1) (-(t1 - d)) (-d - (t1 - d))).map (termPdf g F)
      = [g (d / s) / s / (F ((t2 - d) / s) - F ((t1 - d) / s))]) := by
  have hd : ∀ {u v : ℚ}, u ≤ v → u / s ≤ v / s := fun h => div_le_div_of_nonneg_right h hs.le
  refine ⟨?_, ?_, ?_⟩
  · simp only [beigenTerms, List.map_cons, List.map_nil, termPdf, tnPdf]
    have e1 : (d - t1 - -t1) / s = d / s := by ring
    have e2 : (t2 - t1 - -t1) / s = t2 / s := by ring
    have e3 : - -t1 / s = t1 / s := by ring
    rw [e1, e2, e3, if_pos ⟨hd h1, hd h2⟩]
  · simp only [beigenTerms, List.map_cons, List.map_nil, termPdf, tnPdf]
    have e1 : (t2 - d - t2) / s = -(d / s) := by ring
    have e2 : (t2 - t1 - t2) / s = -(t1 / s) := by ring
    have e3 : -t2 / s = -(t2 / s) := by ring
    rw [e1, e2, e3, hg, hF, hF, if_pos ⟨by linarith [hd h2], by linarith [hd h1]⟩]
    congr 1; ring
  · simp only [beigenTerms, List.map_cons, List.map_nil, termPdf, tnPdf]
    have e1 : (-d - (t1 - d) - -(t1 - d)) / s = -(d / s) := by ring
    have e2 : (t2 - t1 - -(t1 - d)) / s = (t2 - d) / s := by ring
    have e3 : - -(t1 - d) / s = (t1 - d) / s := by ring
    rw [e1, e2, e3, hg, if_pos]
    constructor
    · have := hd (show t1 - d ≤ -d by linarith); rw [neg_div] at this; exact this
    · have := hd (show -d ≤ t2 - d by linarith); rw [neg_div] at this; exact this

example : (beigenTerms 2 (3 - (-1)) (-(-1)) (1 - (-1))).map (termPdf (fun _ => 1) (fun z => 1/2 + z/10))
    = [(1 : ℚ) / 2 / ((1/2 + (3/2)/10) - (1/2 + (-1/2)/10))] :=
  (C02_bounded_eigen_ratio_partial (fun _ => 1) (fun z => 1/2 + z/10) (fun _ => rfl) (fun z => by ring)
    (by norm_num) (by norm_num) (by norm_num) (by norm_num) (by norm_num)).1

/-- `BoundedEigenvector._jump` accepts what `__contains__` accepts, and that moves every coordinate
    within `numpy.isclose` of a bound (`|v - b| ≤ 1e-8 + 1e-5·|b|`) onto the bound first: with a
    lower bound of 1000 the point 999.995 is accepted although it lies outside the box. The
    accepted region of the rejection loop is therefore larger than the chord inside the box on
    which `_logpdf` normalises (`C02_bounded_eigen_ratio_partial` takes the chord as the accepted
    region): concrete witness of the mismatch the search reports on the real code. -/
theorem C02_bounded_eigen_band_counterexample :
    beContains1 1000 1001 (199999/200) = true ∧ (199999/200 : ℚ) < 1000 := by
  constructor
  · simp only [beContains1, isClose, Rat.abs]
    norm_num
  · norm_num

/-! ## births -/

/-- `UniformBirth`: numpy draws on `[lower, upper)`; scipy's `uniform(loc, scale)` lives on
    `[loc, loc + scale]` with density `1/scale`. With `lower ≤ upper` the model's arguments
    `loc = lower`, `scale = |upper - lower|` describe the same interval. (For `lower > upper` they
    would not — scipy's support would be `[lower, 2·lower - upper]` — but numpy's
    `Generator.uniform` raises `high - low < 0` for such bounds, so that object cannot draw.) -/
theorem C02_birth_param_uniform {lo hi x : ℚ} (h : lo ≤ hi) :
    ubirthTerms [(lo, hi)] [x] = [Term.uniformLogpdf x lo (hi - lo)] ∧ lo + (hi - lo) = hi ∧
      birthGenArgs [(lo, hi)] = [(lo, hi)] := by
  refine ⟨?_, by ring, rfl⟩
  simp only [ubirthTerms]
  rw [Rat.abs_of_nonneg (by linarith)]

/-- `NormalBirth`: numpy's `normal(loc, scale)` and scipy's `norm(loc, scale)` get the same pair. -/
theorem C02_birth_param_normal (mu sd x : ℚ) :
    nbirthTerms [(mu, sd)] [x] = [Term.normLogpdf x mu sd] ∧ birthGenArgs [(mu, sd)] = [(mu, sd)] :=
  ⟨rfl, rfl⟩

/-- `LogNormalBirth`: numpy's `lognormal(mean = m, sigma = s)` is `exp(m + s·z)`; scipy's
    `lognorm(s, scale = e^m)` has `log(x/scale)/s` standard normal. The standardised variables
    agree: `log(x / e^m)/s = (log x - m)/s`, and the model hands `s` and `m` to both. -/
theorem C02_birth_param_lognormal {x m s : ℝ} (hx : 0 < x) :
    Real.log (x / Real.exp m) / s = (Real.log x - m) / s ∧
    Real.log (Real.exp (m + s * ((Real.log x - m) / s)) / Real.exp m) = s * ((Real.log x - m) / s) := by
  constructor
  · rw [Real.log_div hx.ne' (Real.exp_pos m).ne', Real.log_exp]
  · rw [Real.log_div (Real.exp_pos _).ne' (Real.exp_pos m).ne', Real.log_exp, Real.log_exp]; ring

theorem C02_birth_param_lognormal_terms (mu sd x : ℚ) :
    lbirthTerms [(mu, sd)] [x] = [Term.lognormLogpdf x sd mu] ∧ birthGenArgs [(mu, sd)] = [(mu, sd)] :=
  ⟨rfl, rfl⟩

example : ubirthTerms [(-1, 3)] [2] = [Term.uniformLogpdf 2 (-1) (3 - (-1))] :=
  (C02_birth_param_uniform (by norm_num)).1

/-! ## the `symmetric` class attributes (regenerated from the source on every run) -/

/-- Every registered family's `symmetric` flag is the one the theorems above are about: `true`
    exactly for the families proved symmetric. A family the model does not know, or a flipped
    flag, breaks this obligation. -/
theorem C02_symmetric_flags :
    ∀ f ∈ Epsie.Generated.families, symmetricOf f.name = some f.symmetric := by decide

end Epsie.C02
