/-
  DriverDensity — interactive line-protocol front end of `EpsieModel.Density`.
  Run with `lake env lean --run DriverDensity.lean`; one answer line per request
  line, flushed at once (the harness talks to it through a pipe).

  Requests (space separated `key=value` tokens, lists comma separated, rationals `n/d`):
    caches shared=0|1                       new `_cdfcache`/`_cachedstd` (one dict object or one per parameter)
    nd succ=.. std=.. xi=.. given=.. tbl=K;std;val|...      NormalDiscrete._logpdf
    bd succ=.. std=.. lo=.. hi=.. xi=.. given=.. tbl=...    BoundedDiscrete._logpdf
        -> `need <key>;<std>`   the model wants a library value the table lacks (state not committed)
        -> `res <dp,dp,..|-inf> calls=<key;std|...>`   cell masses and the library calls made (state committed)
    terms <family> ...                      terms of a continuous family / birth `logpdf`
        -> `terms <T> <T> ...`
    jump <family> ...                       draw map: generator call(s) and outcome
        -> `jump call=<...> out=<...> n=<draws consumed>`
    becache stored=<list|none> xi=.. given=..   cache test of BoundedEigenvector._logpdf
        -> `becache hit=0|1 store=<list>`   (store: the key written on a miss)
    sym name=<family name>                  -> `sym 1|0|?`
-/
import EpsieModel.Density
open Epsie.Density

def parseRat (s : String) : Option Rat :=
  match s.splitOn "/" with
  | [n] => n.toInt?.map (fun i => (i : Rat))
  | [n, d] => do
      let i ← n.toInt?
      let j ← d.toNat?
      if j = 0 then none else some ((i : Rat) / (j : Rat))
  | _ => none

def parseList {α} (f : String → Option α) (sep : String) (s : String) : Option (List α) :=
  if s = "-" ∨ s = "" then some [] else (s.splitOn sep).mapM f

def kv (toks : List String) (key : String) : Option String :=
  toks.findSome? fun t =>
    match t.splitOn "=" with
    | [k, v] => if k = key then some v else none
    | _ => none

def kvRat (toks : List String) (key : String) : Option Rat := (kv toks key).bind parseRat
def kvRats (toks : List String) (key : String) : Option (List Rat) := (kv toks key).bind (parseList parseRat ",")
def kvInts (toks : List String) (key : String) : Option (List Int) := (kv toks key).bind (parseList String.toInt? ",")
def kvBools (toks : List String) (key : String) : Option (List Bool) :=
  (kv toks key).bind (parseList (fun s => if s = "1" then some true else if s = "0" then some false else none) ",")
def kvBool (toks : List String) (key : String) : Option Bool :=
  (kv toks key).bind fun s => if s = "1" then some true else if s = "0" then some false else none

def showRat (q : Rat) : String := if q.den = 1 then toString q.num else s!"{q.num}/{q.den}"
def showRats (l : List Rat) : String := if l.isEmpty then "-" else ",".intercalate (l.map showRat)
def showKey (k : Key) : String := ":".intercalate (k.map showRat)

def showTerm : Term → String
  | .normLogpdf x l s => s!"N({showRats [x, l, s]})"
  | .mvnLogpdf dx => s!"M({showRats dx})"
  | .truncLogpdf x a b l s => s!"T({showRats [x, a, b, l, s]})"
  | .uniformLogpdf x l s => s!"U({showRats [x, l, s]})"
  | .lognormLogpdf x s m => s!"L({showRats [x, s, m]})"
  | .vmf n k pm tm px tx => s!"V({showRats [n, k, pm, tm, px, tx]})"
  | .const c => s!"C({showRat c})"

def showCall : GenCall → String
  | .normal l s => s!"normal({showRats [l, s]})"
  | .uniform01 => "uniform01()"
  | .uniform a b => s!"uniform({showRats [a, b]})"
  | .lognormal m s => s!"lognormal({showRats [m, s]})"
  | .random2 => "random2()"

/-- table entry `key;std;val` -/
def parseEntry (s : String) : Option ((Key × Rat) × Rat) :=
  match s.splitOn ";" with
  | [k, sd, v] => do
      let key ← parseList parseRat ":" k
      pure ((key, ← parseRat sd), ← parseRat v)
  | _ => none

def tblLookup (tbl : List ((Key × Rat) × Rat)) (k : Key) (sd : Rat) : Option Rat :=
  (tbl.find? fun e => e.1.1 = k ∧ e.1.2 = sd).map (·.2)

def zipDQ : List Bool → List Rat → List Int → List Int → List Rat → List Rat → List DQ
  | s :: ss, sd :: sds, lo :: los, hi :: his, x :: xs, g :: gs =>
      { succ := s, std := sd, lo := lo, hi := hi, xi := x, given := g } :: zipDQ ss sds los his xs gs
  | _, _, _, _, _, _ => []

def zip2 : List Rat → List Rat → List (Rat × Rat)
  | a :: as, b :: bs => (a, b) :: zip2 as bs
  | _, _ => []

def zipBnd : List Rat → List Rat → List Rat → List Bnd
  | a :: as, b :: bs, c :: cs => { lo := a, hi := b, std := c } :: zipBnd as bs cs
  | _, _, _ => []

def showOptOut {α} (f : α → String) : Option (α × Nat) → String
  | none => "out=exhausted n=0"
  | some (v, n) => s!"out={f v} n={n}"

structure DState where
  caches : Caches := Caches.fresh false

def discrete (bounded : Bool) (toks : List String) (st : DState) : Option (String × DState) := do
  let succ ← kvBools toks "succ"
  let sd ← kvRats toks "std"
  let xi ← kvRats toks "xi"
  let given ← kvRats toks "given"
  let lo ← if bounded then kvInts toks "lo" else some (sd.map fun _ => 0)
  let hi ← if bounded then kvInts toks "hi" else some (sd.map fun _ => 0)
  let tbl ← (kv toks "tbl").bind (parseList parseEntry "|")
  let qs := zipDQ succ sd lo hi xi given
  if qs.length ≠ succ.length ∨ qs.length ≠ xi.length then none
  let G : Key → Rat → Rat := fun k s => (tblLookup tbl k s).getD 0
  let c0 : Caches := { st.caches with calls := [] }
  let r := if bounded then bdLogpdf G qs c0 else ndLogpdf G qs c0
  let calls := r.2.calls.reverse
  match calls.find? fun e => (tblLookup tbl e.1 e.2).isNone with
  | some e => pure (s!"need {showKey e.1};{showRat e.2}", st)
  | none =>
      let res := match r.1 with
        | none => "-inf"
        | some dps => showRats dps
      let cs := if calls.isEmpty then "-" else "|".intercalate (calls.map fun e => s!"{showKey e.1};{showRat e.2}")
      pure (s!"res {res} calls={cs}", { st with caches := r.2 })

def terms (toks : List String) : Option String := do
  let fam ← toks[1]?
  let ts ← match fam with
    | "normal" => do pure (normalTerms (← kvRats toks "scale") (← kvRats toks "xi") (← kvRats toks "given"))
    | "normalfull" => do pure (normalFullTerms (← kvRats toks "xi") (← kvRats toks "given"))
    | "bn" => do
        pure (bnTerms (zipBnd (← kvRats toks "lo") (← kvRats toks "hi") (← kvRats toks "std"))
                (← kvRats toks "xi") (← kvRats toks "given"))
    | "ang" => do
        let c : AngCfg := { half := ← kvRat toks "half", factor := ← kvRat toks "factor",
                            inv := ← kvRat toks "inv", logfactor := ← kvRat toks "logfactor" }
        pure (angTerms c (← kvRats toks "std") (← kvRats toks "xi") (← kvRats toks "given"))
    | "eigen" => do pure (eigenTerms (← kvRat toks "dx") (← kvRat toks "scale") [] [])
    | "beigen" => do
        pure (beigenTerms (← kvRat toks "s") (← kvRat toks "width") (← kvRat toks "mu") (← kvRat toks "xi"))
    | "vmf" => do
        let c : SphCfg := { radec := ← kvBool toks "radec", degs := ← kvBool toks "degs",
                            halfpi := ← kvRat toks "halfpi", deg2rad := ← kvRat toks "deg2rad" }
        pure (vmfTerms c (← kvRat toks "norm") (← kvRat toks "kappa") (← kvRats toks "xi") (← kvRats toks "given"))
    | "ubirth" => do pure (ubirthTerms (zip2 (← kvRats toks "a") (← kvRats toks "b")) (← kvRats toks "xi"))
    | "nbirth" => do pure (nbirthTerms (zip2 (← kvRats toks "a") (← kvRats toks "b")) (← kvRats toks "xi"))
    | "lbirth" => do pure (lbirthTerms (zip2 (← kvRats toks "a") (← kvRats toks "b")) (← kvRats toks "xi"))
    | _ => none
  pure ("terms " ++ (if ts.isEmpty then "-" else " ".intercalate (ts.map showTerm)))

def jump (toks : List String) : Option String := do
  let fam ← toks[1]?
  match fam with
  | "normal" => do
      let calls := normalJumpCalls (← kvRats toks "std") (← kvRats toks "from")
      pure ("jump call=" ++ "+".intercalate (calls.map showCall))
  | "bn" => do
      let p : Bnd := { lo := ← kvRat toks "lo", hi := ← kvRat toks "hi", std := ← kvRat toks "std" }
      let r := bnJumpParam p (← kvRat toks "from") (← kvRats toks "draws")
      pure s!"jump call={showCall r.1} {showOptOut showRat r.2}"
  | "ang" => do
      let c : AngCfg := { half := ← kvRat toks "half", factor := ← kvRat toks "factor",
                          inv := ← kvRat toks "inv", logfactor := 0 }
      let r := angJumpParam c (← kvRat toks "std") (← kvRat toks "from") (← kvRats toks "draws")
      pure s!"jump call={showCall r.1} {showOptOut showRat r.2}"
  | "nd" => do
      let d ← (← kvRats toks "draws")[0]?
      let r := ndJumpParam (← kvBool toks "succ") (← kvRat toks "std") (← kvRat toks "from") d
      pure s!"jump call={showCall r.1} out={r.2} n=1"
  | "bd" => do
      let lo ← (← kvInts toks "lo")[0]?
      let hi ← (← kvInts toks "hi")[0]?
      let r := bdJumpParam (← kvBool toks "succ") (← kvRat toks "std") lo hi (← kvRat toks "from")
                 (← kvRats toks "draws")
      pure s!"jump call={showCall r.1} {showOptOut (fun (i : Int) => toString i) r.2}"
  | "eigen" => do
      let out := eigenJump (← kvRats toks "from") (← kvRats toks "vec") (← (← kvRats toks "draws")[0]?)
      pure s!"jump call={showCall (.normal 0 (← kvRat toks "scale"))} out={showRats out} n=1"
  | "beigen" => do
      let box := zip2 (← kvRats toks "lo") (← kvRats toks "hi")
      let r := beigenJump box (← kvRats toks "from") (← kvRats toks "vec") (← kvRat toks "scale")
                 (← kvRats toks "draws")
      match r.2 with
      | none => pure s!"jump call={showCall r.1} out=exhausted n=0"
      | some (o, dx, n) => pure s!"jump call={showCall r.1} out={showRats o} dx={showRat dx} n={n}"
  | "vmfpoint" => do
      let r := vmfNewPoint (← kvRat toks "kappa") (← kvRat toks "norm") (← kvRat toks "expk") (← kvRat toks "twopi")
                 (← kvRat toks "u1") (← kvRat toks "u2")
      pure s!"jump call={showCall .random2} phi={showRat r.1} logarg={showRat r.2}"
  | "vmfrot" => do
      let g := vmfGamma (← kvRat toks "mu1") (← kvRat toks "acos") (← kvRat toks "twopi")
      match (← kvRats toks "xi") with
      | [a, b, c] =>
          let o := rot (← kvRat toks "cb") (← kvRat toks "sb") (← kvRat toks "cg") (← kvRat toks "sg") (a, b, c)
          pure s!"jump gamma={showRat g} out={showRats [o.1, o.2.1, o.2.2]}"
      | _ => none
  | "ubirth" => do
      let ps := birthGenArgs (zip2 (← kvRats toks "a") (← kvRats toks "b"))
      pure ("jump call=" ++ "+".intercalate (ps.map fun p => showCall (.uniform p.1 p.2)))
  | "nbirth" => do
      let ps := birthGenArgs (zip2 (← kvRats toks "a") (← kvRats toks "b"))
      pure ("jump call=" ++ "+".intercalate (ps.map fun p => showCall (.normal p.1 p.2)))
  | "lbirth" => do
      let ps := birthGenArgs (zip2 (← kvRats toks "a") (← kvRats toks "b"))
      pure ("jump call=" ++ "+".intercalate (ps.map fun p => showCall (.lognormal p.1 p.2)))
  | _ => none

def handle (line : String) (st : DState) : String × DState :=
  let toks := (line.trimAscii.toString.splitOn " ").filter (· ≠ "")
  match toks with
  | [] => ("", st)
  | "caches" :: _ =>
      match kvBool toks "shared" with
      | some sh => ("ok", { st with caches := Caches.fresh sh })
      | none => ("error bad caches line", st)
  | "nd" :: _ => (discrete false toks st).getD ("error bad nd line", st)
  | "bd" :: _ => (discrete true toks st).getD ("error bad bd line", st)
  | "terms" :: _ => ((terms toks).getD "error bad terms line", st)
  | "jump" :: _ => ((jump toks).getD "error bad jump line", st)
  | "becache" :: _ =>
      let stored : Option (Option (List Rat)) :=
        match kv toks "stored" with
        | some "none" => some none
        | some v => (parseList parseRat "," v).map some
        | none => none
      match stored, kvRats toks "xi", kvRats toks "given" with
      | some st0, some xi, some given =>
          (s!"becache hit={if beigenCacheHit st0 xi given then 1 else 0} store={showRats (beigenCacheStore xi given)}", st)
      | _, _, _ => ("error bad becache line", st)
  | "sym" :: _ =>
      match (kv toks "name").map symmetricOf with
      | some (some true) => ("sym 1", st)
      | some (some false) => ("sym 0", st)
      | _ => ("sym ?", st)
  | _ => ("error unknown request", st)

partial def loop (stdin stdout : IO.FS.Stream) (st : DState) : IO Unit := do
  let line ← stdin.getLine
  if line.isEmpty then return
  let (out, st') := handle line st
  if out ≠ "" then
    stdout.putStrLn out
    stdout.flush
  loop stdin stdout st'

def main : IO Unit := do
  loop (← IO.getStdin) (← IO.getStdout) {}
