/-
  DriverTransdim — line-protocol front end of the executable transdimensional model
  (EpsieModel/Transdim.lean).  Run with `lake env lean --run DriverTransdim.lean < file`.

  Protocol (one record per line, space separated `key=value` tokens):
    case <id>
    cfg K=3 kmin=0 kmax=3 msym=0 isym=1,1,1 ntemps=2
    start lv=0 pt=<point>
    step lv=0 newk=2 chosen=1 birth=-|7|- move=5/8|-|- accept=1
        birth/move: one field per component, `-` = the real code drew nothing for it
    acc lv=0 beta=1 cur=<logl>,<logp> new=<logl>,<logp or -inf> fwd=<dens> rev=<dens> others=<sym>:<rev>:<fwd>;...
        <dens> = <index>:<birth csv>:<inModel csv>     (log-densities reported by the real objects
        for the last step of that level; entries the code never reads carry a sentinel)
    sweep idx=1,0
    clear | save | load | dump
  <point> = <k>:<comp>|<comp>|...   <comp> = nan | v1;v2;...
  Answers: one line per step/acc/sweep/clear/save/load, several per dump.
-/
import EpsieModel.Transdim
open Epsie Epsie.Transdim

def parseRat (s : String) : Option Rat :=
  match s.splitOn "/" with
  | [n] => n.toInt?.map (fun i => (i : Rat))
  | [n, d] => do
      let i ← n.toInt?
      let j ← d.toNat?
      if j = 0 then none else some ((i : Rat) / (j : Rat))
  | _ => none

def showRat (q : Rat) : String :=
  if q.den = 1 then toString q.num else s!"{q.num}/{q.den}"

def parseList {α} (sep : String) (f : String → Option α) (s : String) : Option (List α) :=
  if s = "-" ∨ s = "" then some [] else (s.splitOn sep).mapM f

def kv (toks : List String) (key : String) : Option String :=
  toks.findSome? fun t =>
    match t.splitOn "=" with
    | [k, v] => if k = key then some v else none
    | _ => none

def parseComp (s : String) : Option Comp :=
  if s = "nan" then some none else (parseList ";" parseRat s).map some

def parsePoint (s : String) : Option Point :=
  match s.splitOn ":" with
  | [k, cs] => do
      let k ← k.toInt?
      let cs ← if cs = "" then some [] else (cs.splitOn "|").mapM parseComp
      pure { k := k, comps := cs }
  | _ => none

def showComp : Comp → String
  | none => "nan"
  | some vs => if vs.isEmpty then "-" else ";".intercalate (vs.map showRat)

def showPoint (p : Point) : String :=
  s!"{p.k}:{"|".intercalate (p.comps.map showComp)}"

def showMask (m : List Bool) : String :=
  if m.isEmpty then "-" else ",".intercalate (m.map fun b => if b then "1" else "0")

def showNats (l : List Nat) : String :=
  if l.isEmpty then "-" else ",".intercalate (l.map toString)

def showSPoint (x : SPoint) : String := s!"{showPoint x.pt} state={showMask x.state}"

/-- per-component oracle field: `-` = nothing drawn -/
def parseSlots (s : String) : Option (List (Option (List Rat))) :=
  if s = "" then some [] else
  (s.splitOn "|").mapM fun f => if f = "-" then some none else (parseList ";" parseRat f).map some

def parseDens (s : String) : Option Dens :=
  match s.splitOn ":" with
  | [i, b, m] => do
      pure { index := ← parseRat i, birth := ← parseList "," parseRat b, inModel := ← parseList "," parseRat m }
  | _ => none

def parseOthers (s : String) : Option (List (Bool × Rat × Rat)) :=
  parseList ";" (fun t => match t.splitOn ":" with
    | [sy, r, f] => do pure (sy == "1", ← parseRat r, ← parseRat f)
    | _ => none) s

structure DState where
  cfg : Cfg := default
  pt : PT := { levels := [] }
  last : List (Option (SPoint × SPoint)) := []     -- per level: (current with mask, proposed) of the last step
  dead : Bool := false

def setNth {α} (l : List α) (i : Nat) (a : α) : List α := l.set i a

def showAR : AR → String
  | .zero => "0" | .one => "1" | .exp l => "E" ++ showRat l

def handle (st : DState) (toks : List String) : DState × List String :=
  match toks with
  | "cfg" :: rest =>
    match (do
      let K ← (kv rest "K").bind String.toNat?
      let kmin ← (kv rest "kmin").bind String.toInt?
      let kmax ← (kv rest "kmax").bind String.toInt?
      let msym ← kv rest "msym"
      let isym ← (kv rest "isym").bind (parseList "," (fun s => some (s == "1")))
      let nt ← (kv rest "ntemps").bind String.toNat?
      pure (({ K := K, kmin := kmin, kmax := kmax, modelSym := msym == "1", innerSym := isym } : Cfg), nt)) with
    | some (cfg, nt) =>
      ({ st with cfg := cfg, pt := PT.fresh nt, last := List.replicate nt none }, ["ok cfg"])
    | none => ({ st with dead := true }, ["bad-op cfg"])
  | "start" :: rest =>
    match (do
      let lv ← (kv rest "lv").bind String.toNat?
      let p ← (kv rest "pt").bind parsePoint
      let l ← st.pt.levels[lv]?
      pure (lv, l.setStart p)) with
    | some (lv, l') =>
      ({ st with pt := { st.pt with levels := setNth st.pt.levels lv l' } },
       [s!"start lv={lv} active={showMask l'.active}"])
    | none => ({ st with dead := true }, ["bad-op start"])
  | "step" :: rest =>
    match (do
      let lv ← (kv rest "lv").bind String.toNat?
      let newk ← (kv rest "newk").bind String.toInt?
      let chosen ← (kv rest "chosen").bind (parseList "," String.toNat?)
      let birth ← (kv rest "birth").bind parseSlots
      let move ← (kv rest "move").bind parseSlots
      let acc ← kv rest "accept"
      let l ← st.pt.levels[lv]?
      pure (lv, l, newk, chosen, birth, move, acc == "1")) with
    | none => ({ st with dead := true }, ["bad-op step"])
    | some (lv, l, newk, chosen, birth, move, acc) =>
      match l.current with
      | none => (st, [s!"step lv={lv} raise no-start"])
      | some cur =>
        let x : SPoint := { pt := cur, state := l.active }
        let ji : JumpIn := { newk := newk, chosen := chosen,
                             birth := birth.map (·.getD []), move := move.map (·.getD []) }
        match jump st.cfg x ji with
        | .raiseBounds => (st, [s!"step lv={lv} raise bounds"])
        | .raiseChoice => (st, [s!"step lv={lv} raise choice"])
        | .badOracle => ({ st with dead := true }, [s!"step lv={lv} DESYNC oracle values impossible for the model"])
        | .ok y =>
          -- the real code must have drawn births / in-model jumps for exactly the model's sets
          let drewB := (List.range birth.length).filter fun j => (birth.getD j none).isSome
          let drewM := (List.range move.length).filter fun j => (move.getD j none).isSome
          if drewB ≠ bornSet x y ∨ drewM ≠ movedSet x y then
            ({ st with dead := true },
             [s!"step lv={lv} DESYNC draws: births real {showNats drewB} model {showNats (bornSet x y)}; in-model real {showNats drewM} model {showNats (movedSet x y)}"])
          else
          match l.step st.cfg { jump := ji, accept := acc } with
          | none => ({ st with dead := true }, [s!"step lv={lv} DESYNC internal"])
          | some l' =>
            ({ st with pt := { st.pt with levels := setNth st.pt.levels lv l' }
                       last := setNth st.last lv (some (x, y)) },
             [s!"step lv={lv} proposed={showSPoint y} born={showNats (bornSet x y)} killed={showNats (killedSet x y)} moved={showNats (movedSet x y)} rec={showPoint ((l'.recs.getLast?).getD default)} active={showMask l'.active} updated={showMask l'.updated} it={l'.iteration}"])
  | "acc" :: rest =>
    match (do
      let lv ← (kv rest "lv").bind String.toNat?
      let beta ← (kv rest "beta").bind parseRat
      let cur ← (kv rest "cur").bind (parseList "," parseRat)
      let new ← kv rest "new"
      let fwd ← (kv rest "fwd").bind parseDens
      let rev ← (kv rest "rev").bind parseDens
      let others ← (kv rest "others").bind parseOthers
      let xy ← (st.last.getD lv none)
      pure (lv, beta, cur, new, fwd, rev, others, xy)) with
    | none => ({ st with dead := true }, ["bad-op acc"])
    | some (lv, beta, cur, new, fwd, rev, others, (x, y)) =>
      let qf := logqCode y x fwd
      let qr := logqCode x y rev
      let common := s!"logqfwd={showRat qf} logqrev={showRat qr} ways={nWays y x},{nWays x y} C={choose st.cfg.K x.pt.k.toNat},{choose st.cfg.K y.pt.k.toNat} tdsym={if st.cfg.tdSymmetric then 1 else 0}"
      match new.splitOn "," with
      | [l2, p2] =>
        if p2 = "-inf" then (st, [s!"acc lv={lv} ar=0 {common}"])
        else match parseRat l2, parseRat p2 with
          | some l2, some p2 =>
            let h := hastings st.cfg.tdSymmetric qr qf others
            let lar := logAR beta (cur.getD 0 0) (cur.getD 1 0) l2 p2 h
            (st, [s!"acc lv={lv} ar={showAR (arOf lar)} {common}"])
          | _, _ => ({ st with dead := true }, ["bad-op acc new"])
      | _ => ({ st with dead := true }, ["bad-op acc new"])
  | ["sweep", idx] =>
    match (kv [idx] "idx").bind (parseList "," String.toNat?) with
    | none => ({ st with dead := true }, ["bad-op sweep"])
    | some idx =>
      match sweep st.pt.levels idx with
      | none => (st, ["sweep raise"])
      | some ls => ({ st with pt := { st.pt with levels := ls } },
          [s!"sweep ok active={"/".intercalate (ls.map fun l => showMask l.active)}"])
  | ["clear"] =>
    match st.pt.apply st.cfg .clear with
    | some p => ({ st with pt := p }, ["clear ok"])
    | none => (st, ["clear raise"])
  | ["save"] =>
    match st.pt.apply st.cfg .save with
    | some p => ({ st with pt := p }, ["save ok"])
    | none => (st, ["save raise"])
  | ["load"] =>
    match st.pt.apply st.cfg .load with
    | some p => ({ st with pt := p }, ["load ok"])
    | none => (st, ["load raise"])
  | ["dump"] =>
    let lines := (st.pt.levels.zip (List.range st.pt.levels.length)).map fun (l, t) =>
      s!"level {t} it={l.iteration} active={showMask l.active} start={match l.start with | some p => showPoint p | none => "none"} cur={match l.current with | some p => showPoint p | none => "none"} proposed={match l.proposed with | some y => showSPoint y | none => "none"} recs={if l.recs.isEmpty then "-" else " ".intercalate (l.recs.map showPoint)}"
    (st, lines)
  | _ => ({ st with dead := true }, [s!"bad-op {" ".intercalate toks}"])

def handleLine (st : DState) (line : String) : DState × List String :=
  let toks := (line.trimAscii.toString.splitOn " ").filter (· ≠ "")
  match toks with
  | [] => (st, [])
  | "case" :: id => ({}, [s!"case {" ".intercalate id}"])
  | _ => if st.dead then (st, []) else handle st toks

partial def loop (h : IO.FS.Stream) (out : IO.FS.Stream) (st : DState) : IO Unit := do
  let line ← h.getLine
  if line.isEmpty then return ()
  let (st', outs) := handleLine st line
  for o in outs do out.putStrLn o
  loop h out st'

def main : IO Unit := do
  let out ← IO.getStdout
  loop (← IO.getStdin) out {}
  out.flush
