/-
  Driver — line-protocol front end of the executable epsie model.
  Run with `lake env lean --run Driver.lean < case-file`.

  Protocol (one record per line, space separated):
    case <id>                         start a new case (forgets everything)
    prop p=0,1 sym=1 adp=0 k=1 dur=0 win=none T=0 st=1 comp=0 sn=1
                                      declare a constituent proposal (in order)
    new nchains=2 betas=1,1/2 s=1 reset=0 dyn=0 pt=1
                                      build the sampler (every chain × level gets fresh copies)
    o <TAG> ...                       queue an oracle value observed on the real code
         S <pos>                      start position of the next (chain, level)
         E <logl> <logp|-inf> <blob|->  one evaluation of the user's model
         J <p> <vals>                 what proposal p's `_jump` returned for its parameters
         Q <p> <rev|fwd> <val>        a reported log-density of proposal p
         U <logu>                     log of the uniform drawn by a chain step
         W <logu>                     log of a uniform drawn by a swap sweep
         B <betas>                    the ladder after an annealer call
    op start | run <n> | clear | save | load | dump | get <c> <t> <i> | reset <c> <t>
  The model consumes queued oracle values in the order the real code produced
  them and answers each `op` with `ok ...`, `DESYNC ...` (the model wanted a
  different oracle value than the real code produced) or `raise ...`.
-/
import EpsieModel
open Epsie

/-! ## parsing -/

def parseRat (s : String) : Option Rat :=
  match s.splitOn "/" with
  | [n] => n.toInt?.map (fun i => (i : Rat))
  | [n, d] => do
      let i ← n.toInt?
      let j ← d.toNat?
      if j = 0 then none else some ((i : Rat) / (j : Rat))
  | _ => none

def parseVal (s : String) : Option Val :=
  if s = "nan" then some .nan else (parseRat s).map .num

def parseCsv {α} (f : String → Option α) (s : String) : Option (List α) :=
  if s = "-" ∨ s = "" then some [] else (s.splitOn ",").mapM f

def kv (toks : List String) (key : String) : Option String :=
  toks.findSome? fun t =>
    match t.splitOn "=" with
    | [k, v] => if k = key then some v else none
    | _ => none

def kvNat (toks : List String) (key : String) : Option Nat := (kv toks key).bind String.toNat?
def kvBool (toks : List String) (key : String) : Option Bool := (kvNat toks key).map (· != 0)

/-! ## printing -/

def showRat (q : Rat) : String :=
  if q.den = 1 then toString q.num else s!"{q.num}/{q.den}"

def showVal : Val → String
  | .nan => "nan"
  | .num q => showRat q

def showCsv {α} (f : α → String) (l : List α) : String :=
  if l.isEmpty then "-" else ",".intercalate (l.map f)

def showAR : AR → String
  | .zero => "0"
  | .one => "1"
  | .exp l => "E" ++ showRat l

def showSt (s : St) : String :=
  s!"pos={showCsv showVal s.pos} logl={showRat s.logl} logp={showRat s.logp} blob={showCsv showVal s.blob}"

def showRec (r : Rec) : String :=
  s!"{showSt r.st} ar={showAR r.acc.ar} acc={if r.acc.accepted then 1 else 0}"

/-! ## oracle queue -/

inductive Oracle where
  | S (pos : List Val)
  | E (e : Eval)
  | J (p : Nat) (vals : List Val)
  | Q (p : Nat) (rev : Bool) (v : Rat)
  | U (logu : Rat)
  | W (logu : Rat)
  | B (betas : List Rat)

def Oracle.tag : Oracle → String
  | .S _ => "S" | .E _ => "E" | .J p _ => s!"J{p}" | .Q p r _ => s!"Q{p}{if r then "rev" else "fwd"}"
  | .U _ => "U" | .W _ => "W" | .B _ => "B"

def parseOracle (toks : List String) : Option Oracle :=
  match toks with
  | ["S", pos] => (parseCsv parseVal pos).map .S
  | ["E", logl, logp, blob] => do
      let l ← parseRat logl
      let p ← if logp = "-inf" then some none else (parseRat logp).map some
      let b ← parseCsv parseVal blob
      pure (.E { logl := l, logp := p, blob := b })
  | ["J", p, vals] => do pure (.J (← p.toNat?) (← parseCsv parseVal vals))
  | ["Q", p, dir, v] => do
      let r ← if dir = "rev" then some true else if dir = "fwd" then some false else none
      pure (.Q (← p.toNat?) r (← parseRat v))
  | ["U", u] => (parseRat u).map .U
  | ["W", u] => (parseRat u).map .W
  | ["B", bs] => (parseCsv parseRat bs).map .B
  | _ => none

/-! ## driver state -/

structure DState where
  cfgs : List PropCfg := []
  newLine : List String := []
  sampler : Option Sampler := none
  saved : Option (List (List Chain.Saved)) := none
  queue : List Oracle := []
  callsBase : Nat := 0            -- evaluations made by sampler objects that were since replaced
  dead : Bool := false            -- after a DESYNC nothing more is answered for this case

abbrev M := StateT DState (ExceptT String Id)

def desync (msg : String) : M α := throw s!"DESYNC {msg}"

def peekTag : M String := do
  match (← get).queue with
  | [] => pure "<empty>"
  | o :: _ => pure o.tag

def pop : M (Option Oracle) := do
  let st ← get
  match st.queue with
  | [] => pure none
  | o :: q => set { st with queue := q }; pure (some o)

def popE (ctx : String) : M Eval := do
  match (← pop) with
  | some (.E e) => pure e
  | some o => desync s!"{ctx}: expected E got {o.tag}"
  | none => desync s!"{ctx}: expected E got <empty>"

/-- pull the J entries at the front of the queue -/
partial def pullJ (acc : List (Nat × List Val)) : M (List (Nat × List Val)) := do
  match (← get).queue with
  | .J p v :: _ => let _ ← pop; pullJ (acc ++ [(p, v)])
  | _ => pure acc

partial def pullQ (acc : List (Nat × Bool × Rat)) : M (List (Nat × Bool × Rat)) := do
  match (← get).queue with
  | .Q p r v :: _ => let _ ← pop; pullQ (acc ++ [(p, r, v)])
  | _ => pure acc

partial def pullW (acc : List Rat) : M (List Rat) := do
  match (← get).queue with
  | .W u :: _ => let _ ← pop; pullW (acc ++ [u])
  | _ => pure acc

def tiny : Rat := (1 : Rat) / (1099511627776 : Rat)   -- 2^-40

/-- Build the oracle input of one `Chain.step` from the queue, checking that the
    real code produced exactly the values the model needs, in the model's order. -/
def stepInput (ctx : String) (c : Chain) : M Chain.StepIn := do
  let some cur := c.current | throw s!"raise {ctx}: start position not set"
  let np := c.props.length
  -- jumps
  let js ← pullJ []
  let due := (List.range np).filter fun p => (c.props.getD p default).callJump
  if js.map (·.1) != due then
    desync s!"{ctx}: proposals that jumped: model {due} real {js.map (·.1)}"
  let jumps := (List.range np).map fun p => ((js.find? (·.1 == p)).map (·.2)).getD []
  -- evaluation
  let e ← popE ctx
  -- Hastings queries
  let qs ← pullQ []
  let contrib := (List.range np).filter fun p => Chain.contributes (c.props.getD p default)
  let want : List (Nat × Bool) :=
    if e.logp.isNone ∨ Chain.jointSymmetric c.props then []
    else contrib.map (·, true) ++ contrib.map (·, false)
  let got := qs.map (fun q => (q.1, q.2.1))
  -- the set of queries must be the model's; their order is the code's business
  if !(got.length == want.length && want.all (got.contains ·) && got.all (want.contains ·)) then
    desync s!"{ctx}: density queries: model {want} real {qs.map (fun q => (q.1, q.2.1))}"
  let pick (r : Bool) := (List.range np).map fun p =>
    ((qs.find? (fun q => q.1 == p && q.2.1 == r)).map (·.2.2)).getD 0
  let rev := pick true
  let fwd := pick false
  -- uniform
  let d := Chain.decision c.beta cur e (Chain.hastings c.props rev fwd)
  let lval : Option Rat := e.logp.map fun lp => Chain.logAR c.beta cur e.logl lp (Chain.hastings c.props rev fwd)
  let lenient := match lval with
    | some l => decide ((if l < 0 then -l else l) < tiny)
    | none => false
  let front ← peekTag
  let logu ←
    if lenient then
      if front = "U" then
        match (← pop) with
        | some (.U u) => pure u
        | _ => desync "internal"
      else pure ((lval.getD 0) - 1)
    else if d.usesUniform then
      match (← pop) with
      | some (.U u) => pure u
      | some o => desync s!"{ctx}: expected U got {o.tag}"
      | none => desync s!"{ctx}: expected U got <empty>"
    else
      if front = "U" then desync s!"{ctx}: real code drew a uniform, model decision needs none"
      else pure 0
  pure { jumps := jumps, eval := e, rev := rev, fwd := fwd, logu := logu }

/-- The virtual evaluations of componentwise scaling: one model call per parameter, each
    possibly followed by density queries and a uniform (their values do not enter the
    plumbing model; only that they happen, and how many model calls there are). -/
def consumeVirtual (ctx : String) (c : Chain) : M Unit := do
  for _ in List.range (Chain.extraCalls c.props) do
    let _ ← popE s!"{ctx} (virtual move)"
    let _ ← pullQ []
    if (← peekTag) = "U" then let _ ← pop

def ptStepInput (ci : Nat) (c : PTChain) : M PTChain.StepIn := do
  let mut ins : List Chain.StepIn := []
  let mut t := 0
  for l in c.levels do
    ins := ins ++ [← stepInput s!"chain {ci} level {t} it {l.iteration + 1}" l]
    consumeVirtual s!"chain {ci} level {t} it {l.iteration + 1}" l
    t := t + 1
  let it' := c.iteration + 1
  let mut sw : PTChain.SweepIn := { us := [], newBetas := [] }
  if PTChain.sweepDue c.ntemps c.s it' then
    let us ← pullW []
    let nb ← if c.dynamic then
        match (← pop) with
        | some (.B b) => pure b
        | some o => desync s!"chain {ci} it {it'}: expected B got {o.tag}"
        | none => desync s!"chain {ci} it {it'}: expected B got <empty>"
      else pure []
    sw := { us := us, newBetas := nb }
  else
    if (← peekTag) = "W" then desync s!"chain {ci} it {it'}: real code swept, model schedule says no sweep"
  pure { levels := ins, sweep := sw }

def runChain (ci : Nat) (c : PTChain) : Nat → M PTChain
  | 0 => pure c
  | n+1 => do
    let i ← ptStepInput ci c
    match c.step i with
    | some c' => runChain ci c' n
    | none => desync s!"chain {ci} it {c.iteration + 1}: sweep uniforms do not match the model's decision path"

def getSampler : M Sampler := do
  match (← get).sampler with
  | some s => pure s
  | none => throw "raise no sampler"

def buildSampler : M Sampler := do
  let st ← get
  let toks := st.newLine
  let some nchains := kvNat toks "nchains" | throw "bad-op new"
  let some betas := (kv toks "betas").bind (parseCsv parseRat) | throw "bad-op new"
  let some s := kvNat toks "s" | throw "bad-op new"
  let reset := (kvBool toks "reset").getD false
  let dyn := (kvBool toks "dyn").getD false
  let chains := (List.range nchains).map fun ci =>
    ({ levels := betas.map fun b =>
          ({ beta := b, props := st.cfgs.map PropSt.fresh, chainId := ci } : Chain)
       betas := betas, s := s, resetAfterSwap := reset, dynamic := dyn } : PTChain)
  pure { chains := chains }

def opStart : M String := do
  let s ← getSampler
  let mut chains : List PTChain := []
  let mut ci := 0
  for c in s.chains do
    let mut levels : List Chain := []
    let mut t := 0
    for l in c.levels do
      let pos ← match (← pop) with
        | some (.S p) => pure p
        | some o => desync s!"start chain {ci} level {t}: expected S got {o.tag}"
        | none => desync s!"start chain {ci} level {t}: expected S got <empty>"
      let e ← popE s!"start chain {ci} level {t}"
      match l.setStart pos e with
      | some l' => levels := levels ++ [l']
      | none => throw s!"raise start chain {ci} level {t}: outside of the prior"
      t := t + 1
    chains := chains ++ [{ c with levels := levels }]
    ci := ci + 1
  modify fun st => { st with sampler := some { chains := chains } }
  pure "ok start"

def opRun (n : Nat) : M String := do
  let s ← getSampler
  let mut chains : List PTChain := []
  let mut ci := 0
  for c in s.chains do
    chains := chains ++ [← runChain ci (c.extendFor n) n]
    ci := ci + 1
  modify fun st => { st with sampler := some { chains := chains } }
  pure s!"ok run {n}"

def dump (s : Sampler) (callsBase : Nat) : List String := Id.run do
  let mut out : List String := [s!"sampler nchains={s.chains.length} calls={callsBase + s.calls}"]
  let mut ci := 0
  for c in s.chains do
    out := out ++ [s!"chain {ci} it={c.iteration} lc={c.lastclear} len={c.len} nrows={if c.ntemps > 1 then c.nrows else 0} betas={showCsv showRat c.betas}"]
    let mut t := 0
    for l in c.levels do
      out := out ++ [s!"level {ci} {t} beta={showRat l.beta} it={l.iteration} lc={l.lastclear} hasblobs={if l.hasblobs then 1 else 0} proposed={match l.proposed with | some p => showCsv showVal p | none => "none"}"]
      let mut i := 0
      for r in l.view do
        out := out ++ [match r with
          | some r => s!"rec {ci} {t} {i} {showRec r}"
          | none => s!"rec {ci} {t} {i} unwritten"]
        i := i + 1
      out := out ++ [match l.current with
        | some st => s!"cur {ci} {t} {showSt st}"
        | none => s!"cur {ci} {t} unset"]
      let mut j := 0
      for p in l.props do
        out := out ++ [s!"prop {ci} {t} {j} raw={p.raw} st={if p.cfg.adaptive then toString p.startStep else "-"} nev={p.events.length}"]
        j := j + 1
      t := t + 1
    if c.ntemps > 1 then
      let mut r := 0
      for row in c.rowsView do
        out := out ++ [match row with
          | some row => s!"row {ci} {r} idx={showCsv toString row.idx} ars={showCsv showAR row.ars}"
          | none => s!"row {ci} {r} unwritten"]
        r := r + 1
    ci := ci + 1
  pure out

def handleOp (toks : List String) : M (List String) := do
  match toks with
  | ["start"] => pure [← opStart]
  | ["run", n] =>
    let some n := n.toNat? | throw "bad-op run"
    pure [← opRun n]
  | ["clear"] =>
    let s ← getSampler
    modify fun st => { st with sampler := some s.clear }
    pure ["ok clear"]
  | ["save"] =>
    let s ← getSampler
    match s.save with
    | some sv => modify fun st => { st with saved := some sv }; pure ["ok save"]
    | none => pure ["raise save"]
  | ["load"] =>
    let some sv := (← get).saved | throw "raise load: nothing saved"
    let fresh ← buildSampler
    let old := ((← get).sampler.map Sampler.calls).getD 0
    modify fun st => { st with sampler := some (fresh.load sv), callsBase := st.callsBase + old }
    pure ["ok load"]
  | ["loadinto"] =>
    -- set_state on the current sampler object (not a fresh one)
    let some sv := (← get).saved | throw "raise load: nothing saved"
    let s ← getSampler
    modify fun st => { st with sampler := some (s.load sv) }
    pure ["ok loadinto"]
  | ["dump"] => pure (dump (← getSampler) (← get).callsBase)
  | ["anneal", bs, es] =>
    let some bs := parseCsv parseRat bs | throw "bad-op anneal"
    let some es := parseCsv parseRat es | throw "bad-op anneal"
    pure [s!"anneal {showCsv showRat (Ladder.anneal bs es)}"]
  | ["setbetas", bs] =>
    let some bs := parseCsv parseRat bs | throw "bad-op setbetas"
    pure [match Ladder.setBetas bs with
      | some r => s!"setbetas {showCsv showRat r}"
      | none => "setbetas raise"]
  | ["get", c, t, i] =>
    let some c := c.toNat? | throw "bad-op get"
    let some t := t.toNat? | throw "bad-op get"
    let some i := i.toInt? | throw "bad-op get"
    let s ← getSampler
    let l := ((s.chains.getD c default).levels.getD t default)
    pure [match l.getitem i with
      | some r => s!"get {c} {t} {i} {showRec r}"
      | none => s!"get {c} {t} {i} raise"]
  | ["reset", c, t] =>
    let some c := c.toNat? | throw "bad-op reset"
    let some t := t.toNat? | throw "bad-op reset"
    let s ← getSampler
    let chains := (s.chains.zip (List.range s.chains.length)).map fun (pc, ci) =>
      if ci = c then { pc with levels := (pc.levels.zip (List.range pc.levels.length)).map fun (l, ti) =>
        if ti = t then l.resetProposals else l } else pc
    modify fun st => { st with sampler := some { chains := chains } }
    pure [s!"ok reset {c} {t}"]
  | _ => throw "bad-op"

def parseWindow : String → Option Window
  | "none" => some .none | "veitch" => some .veitch | "at" => some .at | "ss" => some .ss
  | _ => none

def parseProp (toks : List String) : Option PropCfg := do
  let params ← (kv toks "p").bind (parseCsv String.toNat?)
  pure { params := params
         symmetric := ← kvBool toks "sym"
         adaptive := ← kvBool toks "adp"
         k := ← kvNat toks "k"
         dur := ← kvNat toks "dur"
         window := ← (kv toks "win").bind parseWindow
         T := ← kvNat toks "T"
         start0 := ← kvNat toks "st"
         comp := ← kvBool toks "comp"
         savesNsteps := ← kvBool toks "sn" }

def handleLine (st : DState) (line : String) : DState × List String :=
  let toks := (line.trimAscii.toString.splitOn " ").filter (· ≠ "")
  match toks with
  | [] => (st, [])
  | "case" :: id => ({}, [s!"case {" ".intercalate id}"])
  | _ =>
    if st.dead then (st, []) else
    match toks with
    | "prop" :: rest =>
      match parseProp rest with
      | some cfg => ({ st with cfgs := st.cfgs ++ [cfg] }, [])
      | none => ({ st with dead := true }, ["bad-op prop"])
    | "new" :: rest =>
      let st := { st with newLine := rest }
      match (buildSampler.run st).run with
      | .ok (s, st) => ({ st with sampler := some s }, ["ok new"])
      | .error e => ({ st with dead := true }, [e])
    | "o" :: rest =>
      match parseOracle rest with
      | some o => ({ st with queue := st.queue ++ [o] }, [])
      | none => ({ st with dead := true }, [s!"bad-op oracle {line}"])
    | "op" :: rest =>
      match ((handleOp rest).run st).run with
      | .ok (out, st) =>
        if st.queue.isEmpty then (st, out)
        else ({ st with dead := true },
              [s!"DESYNC leftover after op {" ".intercalate rest}: real code produced {st.queue.length} more oracle values, first {(st.queue.headD (.U 0)).tag}"])
      | .error e => ({ st with dead := true }, [e])
    | _ => ({ st with dead := true }, [s!"bad-op {line}"])

partial def loop (h : IO.FS.Stream) (out : IO.FS.Stream) (st : DState) : IO Unit := do
  let line ← h.getLine
  if line.isEmpty then return ()
  let (st', outs) := handleLine st line
  for o in outs do out.putStrLn o
  loop h out st'

def main : IO Unit := do
  let out ← IO.getStdout
  loop (← IO.getStdin) out {}
  out.flush
