import EpsieProps.C08
