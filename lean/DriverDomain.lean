/-
  DriverDomain — line-protocol front end of `EpsieModel.Domain` (property C12).
  Run with `lake env lean --run DriverDomain.lean < requests`.

  One request per line, one answer line per request.  Numbers are exact
  rationals `n` or `n/d`; lists are comma separated, `-` is the empty list.

    bn  lo=<csv> hi=<csv> x=<csv> fuel=<n> draws=<csv>
          BoundedNormal._jump; draws = values returned by normal(mu_p, std_p)
    bd  lo=<csv> hi=<csv> succ=<csv 0|1> x=<csv> fuel=<n> draws=<csv>
          BoundedDiscrete._jump; lo/hi as given to the constructor; draws = normal(0, std_p)
    nd  succ=<csv> x=<csv> fuel=<n> draws=<csv>
          NormalDiscrete._jump
    ang h=<q> invf=<q> f=<q> x=<csv> fuel=<n> draws=<csv>
          Angular._jump; draws = normal(scale=std_p/pi)
    be  lo=<csv> hi=<csv> x=<csv> e=<csv> fuel=<n> draws=<csv dx> cands=<csv;csv;...>
          BoundedEigenvector._jump; cands = the points the code tested, in order
    ub  lo=<csv> hi=<csv> u=<csv>          UniformBirth.birth
    nb  mu=<csv> sd=<csv> z=<csv>          NormalBirth.birth
    lb  e=<csv>                            LogNormalBirth.birth from the float exponentials
    sa  radec=<0|1> degs=<0|1> kappa=<q> pi=<q> d2r=<q> r2d=<q> x=<phi,theta> u=<u1,u2>
        sites=<arg:arg2:val;...>  (21 numpy calls in call order; arg2 is `-` unless arctan2;
                                   values may be nan, inf, -inf; the 15th, arccos(mu[0]/rxy), is
                                   the word `none` when the code did not make it: start at a pole)

  Answers:  ok y=<csv> used=<k> [dev=<q>] | refuse | starved | nan site=<name> dev=<q>
            | desync <site> | bad-request <why>
-/
import EpsieModel.Domain
open Epsie.Domain

def parseRat (s : String) : Option Rat :=
  match s.splitOn "/" with
  | [n] => n.toInt?.map (fun i => (i : Rat))
  | [n, d] => do
      let i ← n.toInt?
      let j ← d.toNat?
      if j = 0 then none else some ((i : Rat) / (j : Rat))
  | _ => none

def parseXR (s : String) : Option XR :=
  if s = "nan" then some .nan
  else if s = "inf" then some .pinf
  else if s = "-inf" then some .ninf
  else (parseRat s).map .fin

def parseCsv {α} (f : String → Option α) (s : String) : Option (List α) :=
  if s = "-" ∨ s = "" then some [] else (s.splitOn ",").mapM f

def parseBool (s : String) : Option Bool :=
  if s = "1" then some true else if s = "0" then some false else none

def kv (toks : List String) (key : String) : Option String :=
  toks.findSome? fun t =>
    match t.splitOn "=" with
    | [k, v] => if k = key then some v else none
    | _ => none

def kvRat (toks : List String) (key : String) : Option Rat := (kv toks key).bind parseRat
def kvNat (toks : List String) (key : String) : Option Nat := (kv toks key).bind String.toNat?
def kvRats (toks : List String) (key : String) : Option (List Rat) :=
  (kv toks key).bind (parseCsv parseRat)
def kvBools (toks : List String) (key : String) : Option (List Bool) :=
  (kv toks key).bind (parseCsv parseBool)

def showRat (q : Rat) : String :=
  if q.den = 1 then toString q.num else s!"{q.num}/{q.den}"

def showCsv {α} (f : α → String) (l : List α) : String :=
  if l.isEmpty then "-" else ",".intercalate (l.map f)

def boxes (lo hi : List Rat) : List Box := List.zipWith (fun l h => { lo := l, hi := h }) lo hi

def showOutcome {α} (f : α → String) (n : Nat) : Outcome (List α) → String
  | .ok ys r => s!"ok y={showCsv f ys} used={n - r.length}"
  | .refuse => "refuse"
  | .starved => "starved"

def parseSite (s : String) : Option Site :=
  match s.splitOn ":" with
  | [a, b, v] => do
      let a ← parseXR a
      let b ← if b = "-" then some (XR.fin 0) else parseXR b
      let v ← parseXR v
      pure { arg := a, arg2 := b, val := v }
  | _ => none

def parseSiteOpt (s : String) : Option (Option Site) :=
  if s = "none" then some none else (parseSite s).map some

def parseOracle (s : String) : Option SAOracle :=
  match (s.splitOn ";").mapM parseSiteOpt with
  | some [some a0, some a1, some a2, some a3, some a4, some a5, some a6, some a7, some a8, some a9,
          some a10, some a11, some a12, some a13, g, some a15, some a16, some a17, some a18,
          some a19, some a20] =>
    some { sinT0 := a0, cosP0 := a1, sinP0 := a2, cosT0 := a3, expm1 := a4, log1p := a5, clipW := a6,
           acosW := a7, sinT1 := a8, cosP1 := a9, sinP1 := a10, cosT1 := a11, acosMz := a12,
           sqrtR := a13, acosG := g, sinB := a15, sinG := a16, cosB := a17, cosG := a18,
           atan2 := a19, acosZ := a20 }
  | _ => none

def showSA : SAOut → String
  | .ok p t d => s!"ok y={showRat p},{showRat t} dev={showRat d}"
  | .nan s d => s!"nan site={s} dev={showRat d}"
  | .desync s => s!"desync {s}"

def handle (toks : List String) : Option String :=
  match toks with
  | "bn" :: r => do
      let ds ← kvRats r "draws"
      pure (showOutcome showRat ds.length
        (bnJump (boxes (← kvRats r "lo") (← kvRats r "hi")) (← kvRats r "x") (← kvNat r "fuel") ds))
  | "bd" :: r => do
      let ds ← kvRats r "draws"
      let lo ← kvRats r "lo"
      let hi ← kvRats r "hi"
      let sc ← kvBools r "succ"
      let bs : List DBox := (lo.zip (hi.zip sc)).map fun (l, h, s) => { lo := l, hi := h, succ := s }
      pure (showOutcome toString ds.length (bdJump bs (← kvRats r "x") (← kvNat r "fuel") ds))
  | "nd" :: r => do
      let ds ← kvRats r "draws"
      pure (showOutcome toString ds.length
        (ndJump (← kvBools r "succ") (← kvRats r "x") (← kvNat r "fuel") ds))
  | "ang" :: r => do
      let ds ← kvRats r "draws"
      let c : AngCfg := { h := ← kvRat r "h", invf := ← kvRat r "invf", f := ← kvRat r "f" }
      pure (showOutcome showRat ds.length (angJump c (← kvRats r "x") (← kvNat r "fuel") ds))
  | "be" :: r => do
      let bs := boxes (← kvRats r "lo") (← kvRats r "hi")
      let x ← kvRats r "x"
      let e ← kvRats r "e"
      let dxs ← kvRats r "draws"
      let cs ← (kv r "cands").bind fun s =>
        if s = "-" then some [] else (s.splitOn ";").mapM (parseCsv parseRat)
      -- largest distance between a tested point and the exact x + dx*e, relative to the scale
      let dev := (cs.zip dxs).foldl (fun acc (c, dx) =>
        let ex := beCand x e dx
        (c.zip ex).foldl (fun acc (a, b) =>
          let sc := maxR 1 (maxR (rabs a) (rabs b))
          maxR acc (rabs (a - b) / sc)) acc) (0 : Rat)
      pure (match beJump bs x (← kvNat r "fuel") cs with
        | .ok y k => s!"ok y={showCsv showRat y} used={k} dev={showRat dev}"
        | .refuse => "refuse"
        | .starved => "starved")
  | "ub" :: r => do
      let bs := boxes (← kvRats r "lo") (← kvRats r "hi")
      let us ← kvRats r "u"
      pure s!"ok y={showCsv showRat (List.zipWith birthUniform bs us)} used={us.length}"
  | "nb" :: r => do
      let mu ← kvRats r "mu"
      let sd ← kvRats r "sd"
      let zs ← kvRats r "z"
      let ys := List.zipWith (fun (m, s) z => birthNormal m s z) (mu.zip sd) zs
      pure s!"ok y={showCsv showRat ys} used={zs.length}"
  | "lb" :: r => do
      let es ← kvRats r "e"
      pure (match es.mapM birthLogNormal with
        | some ys => s!"ok y={showCsv showRat ys} used={es.length}"
        | none => "nan site=lognormal-underflow dev=0")
  | "sa" :: r => do
      let k : Consts := { pi := ← kvRat r "pi", d2r := ← kvRat r "d2r", r2d := ← kvRat r "r2d" }
      let c : SACfg := { radec := ← (kv r "radec").bind parseBool, degs := ← (kv r "degs").bind parseBool,
                         kappa := ← kvRat r "kappa" }
      let x ← kvRats r "x"
      let u ← kvRats r "u"
      let o ← (kv r "sites").bind parseOracle
      match x, u with
      | [p, t], [u1, u2] => pure (showSA (saJump k c p t u1 u2 o))
      | _, _ => none
  | _ => none

def handleLine (line : String) : Option String :=
  let toks := (line.trimAscii.toString.splitOn " ").filter (· ≠ "")
  match toks with
  | [] => none
  | _ => some ((handle toks).getD s!"bad-request {toks.headD ""}")

partial def loop (h : IO.FS.Stream) (out : IO.FS.Stream) : IO Unit := do
  let line ← h.getLine
  if line.isEmpty then return ()
  match handleLine line with
  | some o => out.putStrLn o
  | none => pure ()
  loop h out

def main : IO Unit := do
  let out ← IO.getStdout
  loop (← IO.getStdin) out
  out.flush
