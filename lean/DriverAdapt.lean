/-
  DriverAdapt — line-protocol front end of `EpsieModel.Adapt` at `α = Rat`.
  Run with `lake env lean --run DriverAdapt.lean < case-file`.

  Protocol (one record per line, space separated, numbers are exact rationals `p/q`):
    case <id>
    clock k=3 dur=20 win=veitch|at|ss T=20 st=2     the proposal's clock (fresh: _nsteps = 0)
    fam veitch xi=<q> deltas=<csv> std=<csv|default>   `default`: the model derives the documented
                             default initial widths (1 - xi) * 0.09 * deltas itself
    fam ss diag=<0|1> xi=<q> cap=<q|inf> vals=<csv> [cov=<csv>] [maxcov=<q>]
                             with the configured `cov` / `max_cov` given, the oracle square roots are
                             checked: vals^2 = cov, cap^2 = maxcov (diagonal); vals = cov, cap = maxcov (full)
    fam at xi=<q> comp=<0|1> diag=<0|1> n=<n>        (log λ = 0, mean = 0, unit_cov = 1 / I)
    fam eig xi=<q> tol=<q> mu=<csv> cov=<row;row;..> eig=<csv>   (eig: oracle, its sum is checked
                             against the trace of the configured covariance)
    fam vmf xi=<q> lk=<q> kappa=<q> norm=<q>
    gain <dk> <g> [<c>]      oracle gain table entry; with the decay constant `c` given the
                             entry is checked against its defining formula:
                             (g+c)^5 dk^3 = 1 and c^5 T^3 = 1 (relative 1e-9)
    ssa <up|down> <n> <a>    oracle Sivia–Skilling factor, checked against the Taylor
                             enclosure of exp(±1/n) (squared first for diagonal proposals)
    reset                    `_reset_adaptation` (Chain.reset_proposals): the clock restarts at the current
                             proposal step, the numerical state goes back to the one given by `fam` (no answer)
    step acc=<0|1> [ar=<q>] [vars=<csv>] [x=<csv>] [w=<csv>] [el=<q>] [ek=<q>] [nm=<q>] [sl=<csv>]
  Answers, one per `step`:
    st raw=<_nsteps> upd=<0|1> dk=<dk> ev=<#absorbed> amb=<0|1> <state of the family>
    raise <why>              the model says the real `_update` raises
    DESYNC <why> / bad-oracle <why> / bad-op <line>
  `amb=1`: a guard of this update was within 2^-40 (relative) of its threshold, so a
  float evaluation may legitimately decide it the other way; the harness stops comparing.
-/
import EpsieModel.Adapt
open Epsie Epsie.Adapt

/-! ## parsing / printing -/

def parseRat (s : String) : Option Rat :=
  match s.splitOn "/" with
  | [n] => n.toInt?.map (fun i => (i : Rat))
  | [n, d] => do
      let i ← n.toInt?
      let j ← d.toNat?
      if j = 0 then none else some ((i : Rat) / (j : Rat))
  | _ => none

def parseCsv {α} (f : String → Option α) (s : String) : Option (List α) :=
  if s = "-" ∨ s = "" then some [] else (s.splitOn ",").mapM f

def kv (toks : List String) (key : String) : Option String :=
  toks.findSome? fun t =>
    match t.splitOn "=" with
    | [k, v] => if k = key then some v else none
    | _ => none

def kvNat (toks : List String) (key : String) : Option Nat := (kv toks key).bind String.toNat?
def kvRat (toks : List String) (key : String) : Option Rat := (kv toks key).bind parseRat
def kvCsv (toks : List String) (key : String) : Option (List Rat) := (kv toks key).bind (parseCsv parseRat)
def kvBool (toks : List String) (key : String) : Option Bool := (kvNat toks key).map (· != 0)

def showRat (q : Rat) : String :=
  if q.den = 1 then toString q.num else s!"{q.num}/{q.den}"

def showCsv (l : List Rat) : String :=
  if l.isEmpty then "-" else ",".intercalate (l.map showRat)

def showMat {n : Nat} (m : Mat Rat n) : String :=
  if n = 0 then "-" else ";".intercalate (m.toList.map fun r => showCsv r.toList)

def mkVec (n : Nat) (l : List Rat) : Option (Vector Rat n) :=
  if l.length = n then some (Vector.ofFn fun i : Fin n => l.getD i.val 0) else none

def mkMat (n : Nat) (rows : List (List Rat)) : Option (Mat Rat n) :=
  if rows.length = n ∧ rows.all (·.length = n) then
    some (Vector.ofFn fun i : Fin n => Vector.ofFn fun j : Fin n => (rows.getD i.val []).getD j.val 0)
  else none

def parseMat (s : String) : Option (List (List Rat)) := (s.splitOn ";").mapM (parseCsv parseRat)

def absR (q : Rat) : Rat := if q < 0 then -q else q
def tiny : Rat := (1 : Rat) / (1099511627776 : Rat)      -- 2^-40
def rtol : Rat := (1 : Rat) / (1000000000 : Rat)         -- 1e-9
def close (a b : Rat) : Bool := absR (a - b) ≤ rtol * absR b

/-! ## machines -/

inductive Mach where
  | veitch (n : Nat) (xi : Rat) (deltas : Vector Rat n) (a : Ad (Vector Rat n))
  | ss (m : Nat) (diag : Bool) (xi : Rat) (cap : Option Rat) (a : Ad (SSSt Rat m))
  | at (n : Nat) (xi : Rat) (a : Ad (ATSt Rat n))
  | eig (n : Nat) (xi : Rat) (tol : Rat) (a : Ad (EigSt Rat n))
  | vmf (xi : Rat) (a : Ad (VmfSt Rat))

def Mach.clock : Mach → PropSt
  | .veitch _ _ _ a => a.clock | .ss _ _ _ _ a => a.clock | .at _ _ a => a.clock
  | .eig _ _ _ a => a.clock | .vmf _ a => a.clock

/-- `Ad.reset` with the initial numerical state kept from the `fam` line. -/
def Mach.resetTo (cur : Mach) : Mach → Mach
  | .veitch n xi deltas a0 => .veitch n xi deltas (Ad.reset a0.num { clock := cur.clock, num := a0.num })
  | .ss m diag xi cap a0 => .ss m diag xi cap (Ad.reset a0.num { clock := cur.clock, num := a0.num })
  | .at n xi a0 => .at n xi (Ad.reset a0.num { clock := cur.clock, num := a0.num })
  | .eig n xi tol a0 => .eig n xi tol (Ad.reset a0.num { clock := cur.clock, num := a0.num })
  | .vmf xi a0 => .vmf xi (Ad.reset a0.num { clock := cur.clock, num := a0.num })

structure DState where
  cfg : Option PropCfg := none
  mach : Option Mach := none
  mach0 : Option Mach := none      -- as built by `fam`: what a reset restores
  gains : List (Int × Rat) := []
  ssUp : List (Nat × Rat) := []
  ssDown : List (Nat × Rat) := []
  dead : Bool := false

def lookup {κ} [BEq κ] (t : List (κ × Rat)) (k : κ) : Option Rat := (t.find? (·.1 == k)).map (·.2)

def parseWindow : String → Option Window
  | "none" => some .none | "veitch" => some .veitch | "at" => some .at | "ss" => some .ss
  | _ => none

def parseClock (toks : List String) : Option PropCfg := do
  pure { params := [], symmetric := true, adaptive := true
         k := ← kvNat toks "k", dur := ← kvNat toks "dur"
         window := ← (kv toks "win").bind parseWindow
         T := ← kvNat toks "T", start0 := ← kvNat toks "st"
         comp := false, savesNsteps := true }

def parseFam (cfg : PropCfg) (toks : List String) : Except String Mach := do
  let clock := PropSt.fresh cfg
  let need {β : Type} (o : Option β) (what : String) : Except String β :=
    match o with
    | some v => pure v
    | none => throw s!"bad-op fam: {what}"
  match toks with
  | "veitch" :: rest =>
    let deltas ← need (kvCsv rest "deltas") "deltas"
    let n := deltas.length
    let xi ← need (kvRat rest "xi") "xi"
    let dv ← need (mkVec n deltas) "deltas"
    let std ← if kv rest "std" == some "default" then pure (veitchDefaultStd xi dv)
      else need ((kvCsv rest "std").bind (mkVec n)) "std"
    pure (.veitch n xi dv { clock := clock, num := std })
  | "ss" :: rest =>
    let vals ← need (kvCsv rest "vals") "vals"
    let diag ← need (kvBool rest "diag") "diag"
    let cap ← need ((kv rest "cap").bind fun s => if s = "inf" then some none else (parseRat s).map some) "cap"
    let sq : Rat → Rat := fun v => if diag then v * v else v
    match kvCsv rest "cov" with
    | some cov =>
      if !(cov.length = vals.length && (List.zip vals cov).all fun (v, c) => close (sq v) c) then
        throw "bad-oracle ss: the initial scale is not the (square root of the) configured covariance"
    | none => pure ()
    match cap, kvRat rest "maxcov" with
    | some cp, some mc =>
      if !(close (sq cp) mc) then throw "bad-oracle ss: the cap is not the (square root of the) configured max_cov"
    | _, _ => pure ()
    let vv ← need (mkVec vals.length vals) "vals"
    pure (.ss vals.length diag (← need (kvRat rest "xi") "xi") cap
      { clock := clock, num := { nAcc := 0, vals := vv } })
  | "at" :: rest =>
    let n ← need (kvNat rest "n") "n"
    let comp ← need (kvBool rest "comp") "comp"
    let diag ← need (kvBool rest "diag") "diag"
    let zero : Vector Rat n := Vector.ofFn fun _ => 0
    pure (.at n (← need (kvRat rest "xi") "xi")
      { clock := clock
        num := { logLam := if comp then .comp zero else .glob 0
                 mean := zero
                 ucov := if diag then .diag (Vector.ofFn fun _ => 1)
                         else .full (Vector.ofFn fun i : Fin n => Vector.ofFn fun j : Fin n =>
                           if i = j then 1 else 0) } })
  | "eig" :: rest =>
    let mu ← need (kvCsv rest "mu") "mu"
    let n := mu.length
    let cov ← need ((kv rest "cov").bind parseMat) "cov"
    let eig ← need (kvCsv rest "eig") "eig"
    let tr := (List.range n).foldl (fun s i => s + (cov.getD i []).getD i 0) (0 : Rat)
    let sw := eig.foldl (· + ·) (0 : Rat)
    if !(absR (tr - sw) ≤ (1 : Rat) / 100000000 * (absR tr + absR sw)) then
      throw s!"bad-oracle initial eigenvalues: sum {showRat sw} vs trace {showRat tr} of the configured covariance"
    pure (.eig n (← need (kvRat rest "xi") "xi") (← need (kvRat rest "tol") "tol")
      { clock := clock
        num := { cov := ← need (mkMat n cov) "cov", mu := ← need (mkVec n mu) "mu", logLam := 0
                 eigvals := ← need (mkVec n eig) "eig" } })
  | "vmf" :: rest =>
    pure (.vmf (← need (kvRat rest "xi") "xi")
      { clock := clock
        num := { logKappa := ← need (kvRat rest "lk") "lk", kappa := ← need (kvRat rest "kappa") "kappa"
                 norm := ← need (kvRat rest "norm") "norm" } })
  | _ => throw "bad-op fam"

/-! ## oracle checks (the defining formulas, as far as they are algebraic) -/

def pow5 (q : Rat) : Rat := q * q * q * q * q

def checkGain (cfg : PropCfg) (dk : Int) (g : Rat) (c : Option Rat) : Option String :=
  match c with
  | some c =>
    let d : Rat := (dk : Rat)
    let T : Rat := (cfg.T : Rat)
    if !(close (pow5 (g + c) * (d * d * d)) 1) then some s!"gain {dk}: (g+c)^5 dk^3 != 1"
    else if !(close (pow5 c * (T * T * T)) 1) then some s!"gain {dk}: c^5 T^3 != 1"
    else none
  | none =>
    -- Veitch with the reference's constant (kept for replays of old traces): g + 0.1 = dk^-decay ∈ (0, 1]
    if dk ≥ 1 ∧ !(0 < g + 1/10 ∧ g + 1/10 ≤ 1 + rtol) then some s!"gain {dk}: dk^-decay not in (0,1]"
    else none

/-- Veitch: `g = dk^-decay - c` with `c = T^-decay`: `g + c ∈ (0, 1]`, `c ∈ (0, 1]`, and inside the window
    (`1 ≤ dk < T`) the gain is positive, at `dk = T` it vanishes, beyond it is negative. -/
def checkGainV (cfg : PropCfg) (dk : Int) (g c : Rat) : Option String :=
  if !(0 < c ∧ c ≤ 1 + rtol) then some s!"gainv {dk}: T^-decay not in (0,1]"
  else if dk ≥ 1 ∧ !(0 < g + c ∧ g + c ≤ 1 + rtol) then some s!"gainv {dk}: dk^-decay not in (0,1]"
  else if 1 ≤ dk ∧ dk < (cfg.T : Int) ∧ !(0 < g) then some s!"gainv {dk}: gain not positive inside the window"
  else if dk > (cfg.T : Int) ∧ !(g < 0) then some s!"gainv {dk}: gain not negative beyond the window"
  else none

def checkSS (diag up : Bool) (n : Nat) (a : Rat) : Option String :=
  if n = 0 then some "ssa: n = 0" else
  let x : Rat := 1 / (n : Rat)
  let e := if diag then a * a else a
  let lo := if up then 1 + x else 1 - x
  let hi := if up then 1 + x + x * x else 1 - x + x * x / 2
  if lo * (1 - rtol) ≤ e ∧ e ≤ hi * (1 + rtol) then none
  else some s!"ssa {if up then "up" else "down"} {n}: outside the enclosure of exp(±1/n)"

/-! ## one step -/

def showLam {n : Nat} : Lam Rat n → String
  | .glob l => s!"g:{showRat l}"
  | .comp l => s!"c:{showCsv l.toList}"

def showShape {n : Nat} : Shape Rat n → String
  | .diag v => s!"d:{showCsv v.toList}"
  | .full m => s!"f:{showMat m}"

def header (p : PropSt) (upd : Bool) (dk : Int) (amb : Bool) : String :=
  s!"st raw={p.raw} upd={if upd then 1 else 0} dk={dk} ev={p.events.length} amb={if amb then 1 else 0}"

def near (a b : Rat) : Bool := absR (a - b) ≤ tiny * (absR a + absR b)

def stepMach (st : DState) (toks : List String) : Except String (Mach × String) := do
  let some m := st.mach | throw "bad-op step before fam"
  let some acc := kvBool toks "acc" | throw "bad-op step: acc"
  let p := m.clock
  let upd := p.callJump && p.inWindow
  let dk := p.dkUpdate
  let needGain := match m with | .ss .. => false | _ => true
  if upd && needGain && (lookup st.gains dk).isNone then
    throw s!"DESYNC the model updates at dk={dk} (raw={p.raw}) but no gain was supplied for it"
  let gain : Int → Rat := fun d => (lookup st.gains d).getD 0
  match m with
  | .veitch n xi deltas a =>
    let c : VeitchCfg Rat n := { xi := xi, deltas := deltas, gain := gain }
    let amb := upd && (List.range n).any fun i =>
      let s := a.num.toList.getD i 0
      let nv := s + veitchAlpha xi acc * gain dk * deltas.toList.getD i 0 / 10
      absR nv ≤ tiny * absR s
    match veitchUpdate c a acc with
    | none => throw "raise veitch"
    | some a' => pure (.veitch n xi deltas a', s!"{header a'.clock upd dk amb} std={showCsv a'.num.toList}")
  | .ss mm diag xi cap a =>
    let up : Nat → Rat := fun k => (lookup st.ssUp k).getD 1
    let down : Nat → Rat := fun k => (lookup st.ssDown k).getD 1
    let c : SSCfg Rat := { xi := xi, cap := cap, alphaUp := up, alphaDown := down }
    let nIter := (dk + 1).toNat
    let nn := a.num.nAcc + (if acc then 1 else 0)
    let rate : Rat := (nn : Rat) / (nIter : Rat)
    let br := ssBranch xi rate
    if upd && dk + 1 > 0 then
      match br with
      | .up => if (lookup st.ssUp nn).isNone then throw s!"DESYNC the model needs exp(1/{nn}) but it was not supplied"
      | .down => if (lookup st.ssDown (nIter - nn)).isNone then
          throw s!"DESYNC the model needs exp(-1/{nIter - nn}) but it was not supplied"
      | .same => pure ()
    let f := ssAlpha c nn nIter
    let amb := upd && (near rate xi || (decide (1 < f) && match cap, vmax a.num.vals with
      | some cp, some mx => near (f * mx) cp
      | _, _ => false))
    match ssUpdate c a acc with
    | none => throw "raise ss: n_iter <= 0"
    | some a' => pure (.ss mm diag xi cap a',
        s!"{header a'.clock upd dk amb} nacc={a'.num.nAcc} vals={showCsv a'.num.vals.toList}")
  | .at n xi a =>
    let c : ATCfg Rat := { xi := xi, gain := gain }
    let ar := (kvRat toks "ar").getD 0
    let some x := (kvCsv toks "x").bind (mkVec n) | throw "bad-op step: x"
    let vars := ((kvCsv toks "vars").bind (mkVec n)).getD (Vector.ofFn fun _ => 0)
    match a.num.logLam, (kvCsv toks "vars") with
    | .comp _, none => if upd then throw "DESYNC the model updates componentwise but no virtual ratios were supplied"
    | _, _ => pure ()
    match atUpdate c a acc { ar := ar, vars := vars, x := x } with
    | none => throw "raise at"
    | some a' =>
      let scale := match (kvCsv toks "sl") with
        | some sl => if sl.length = n then
            s!" scale={showShape (atScale (fun j : Fin n => sl.getD j.val 0) a'.num)}" else ""
        | none => ""
      pure (.at n xi a', s!"{header a'.clock upd dk false} lam={showLam a'.num.logLam} mean={showCsv a'.num.mean.toList} ucov={showShape a'.num.ucov}{scale}")
  | .eig n xi tol a =>
    let c : ATCfg Rat := { xi := xi, gain := gain }
    let ar := (kvRat toks "ar").getD 0
    let some x := (kvCsv toks "x").bind (mkVec n) | throw "bad-op step: x"
    let w := ((kvCsv toks "w").bind (mkVec n)).getD a.num.eigvals
    let el := (kvRat toks "el").getD 1
    if upd && (kv toks "w").isNone then throw "DESYNC the model updates but no eigenvalues were supplied"
    match eigUpdate c tol a acc { ar := ar, x := x, w := w, el := el } with
    | none => throw "raise eig: negative eigenvalue"
    | some a' =>
      -- the oracle eigenvalues must at least have the trace of the model's covariance
      let tr := (List.range n).foldl (fun s i => s + (a'.num.cov.toList.getD i (Vector.ofFn fun _ => 0)).toList.getD i 0) 0
      let sw := w.toList.foldl (· + ·) 0
      if upd && !(absR (tr - sw) ≤ (1 : Rat) / 100000000 * (absR tr + absR sw)) then
        throw s!"bad-oracle eigenvalues: sum {showRat sw} vs trace {showRat tr}"
      pure (.eig n xi tol a', s!"{header a'.clock upd dk false} lam={showRat a'.num.logLam} mu={showCsv a'.num.mu.toList} cov={showMat a'.num.cov} eig={showCsv a'.num.eigvals.toList}")
  | .vmf xi a =>
    let c : ATCfg Rat := { xi := xi, gain := gain }
    let ar := (kvRat toks "ar").getD 0
    let ek := (kvRat toks "ek").getD a.num.kappa
    let nm := (kvRat toks "nm").getD a.num.norm
    if upd && ((kv toks "ek").isNone || (kv toks "nm").isNone) then
      throw "DESYNC the model updates but exp(log kappa) / the normalisation were not supplied"
    match vmfUpdate c a acc { ar := ar, ek := ek, nm := nm } with
    | none => throw s!"raise vmf: {if 0 < ek then "normalisation must be >= 0" else "kappa must be > 0"}"
    | some a' => pure (.vmf xi a', s!"{header a'.clock upd dk false} lk={showRat a'.num.logKappa} kappa={showRat a'.num.kappa} norm={showRat a'.num.norm}")

def handleLine (st : DState) (line : String) : DState × List String :=
  let toks := (line.trimAscii.toString.splitOn " ").filter (· ≠ "")
  match toks with
  | [] => (st, [])
  | "case" :: id => ({}, [s!"case {" ".intercalate id}"])
  | _ =>
    if st.dead then (st, []) else
    match toks with
    | "clock" :: rest =>
      match parseClock rest with
      | some c => ({ st with cfg := some c }, [])
      | none => ({ st with dead := true }, [s!"bad-op {line}"])
    | "fam" :: rest =>
      match st.cfg with
      | none => ({ st with dead := true }, [s!"bad-op {line}"])
      | some c =>
        match parseFam c rest with
        | .ok m => ({ st with mach := some m, mach0 := some m }, [])
        | .error e => ({ st with dead := true }, [e])
    | ["gain", dk, g] =>
      match dk.toInt?, parseRat g, st.cfg with
      | some dk, some g, some cfg =>
        match checkGain cfg dk g none with
        | none => ({ st with gains := (dk, g) :: st.gains }, [])
        | some e => ({ st with dead := true }, [s!"bad-oracle {e}"])
      | _, _, _ => ({ st with dead := true }, [s!"bad-op {line}"])
    | ["gainv", dk, g, c] =>
      match dk.toInt?, parseRat g, parseRat c, st.cfg with
      | some dk, some g, some c, some cfg =>
        match checkGainV cfg dk g c with
        | none => ({ st with gains := (dk, g) :: st.gains }, [])
        | some e => ({ st with dead := true }, [s!"bad-oracle {e}"])
      | _, _, _, _ => ({ st with dead := true }, [s!"bad-op {line}"])
    | ["gain", dk, g, c] =>
      match dk.toInt?, parseRat g, parseRat c, st.cfg with
      | some dk, some g, some c, some cfg =>
        match checkGain cfg dk g (some c) with
        | none => ({ st with gains := (dk, g) :: st.gains }, [])
        | some e => ({ st with dead := true }, [s!"bad-oracle {e}"])
      | _, _, _, _ => ({ st with dead := true }, [s!"bad-op {line}"])
    | ["ssa", dir, n, a] =>
      match n.toNat?, parseRat a, st.mach with
      | some n, some a, some (.ss _ diag _ _ _) =>
        let up := dir == "up"
        match checkSS diag up n a with
        | none => (if up then { st with ssUp := (n, a) :: st.ssUp } else { st with ssDown := (n, a) :: st.ssDown }, [])
        | some e => ({ st with dead := true }, [s!"bad-oracle {e}"])
      | _, _, _ => ({ st with dead := true }, [s!"bad-op {line}"])
    | ["reset"] =>
      match st.mach, st.mach0 with
      | some m, some m0 => ({ st with mach := some (m.resetTo m0) }, [])
      | _, _ => ({ st with dead := true }, [s!"bad-op {line}"])
    | "step" :: rest =>
      match stepMach st rest with
      | .ok (m, out) => ({ st with mach := some m }, [out])
      | .error e => ({ st with dead := true }, [e])
    | _ => ({ st with dead := true }, [s!"bad-op {line}"])

partial def loop (h : IO.FS.Stream) (out : IO.FS.Stream) (st : DState) : IO Unit := do
  let line ← h.getLine
  if line.isEmpty then return ()
  let (st', outs) := handleLine st line
  for o in outs do out.putStrLn o
  loop h out st'

def main : IO Unit := do
  let out ← IO.getStdout
  loop (← IO.getStdin) out {}
  out.flush
