/-
  DriverSource — evaluates the TRANSLATED kernels (`EpsieModel/Generated/Source.lean`) on concrete
  arguments, one request per line, so that harness/source_corr.py can compare them with what the real
  Python methods return on the same arguments (a differential check of the translator itself and of the
  bind tables: that `self._nsteps` is `raw`, that Python `//`, `%`, negative indices mean what
  `Src.fdiv`, `Src.pmod`, `Src.get` say, ...).  Run with `lake env lean --run DriverSource.lean`.
  Rationals are `p/q` or integers; lists are comma separated (`-` = empty); booleans `T`/`F`;
  an optional integer is `none` or the integer.
-/
import EpsieModel.Generated.Source
open Epsie

def parseRat (s : String) : Option Rat :=
  match s.splitOn "/" with
  | [n] => n.toInt?.map (fun i => (i : Rat))
  | [n, d] => do
      let i ← n.toInt?
      let j ← d.toNat?
      if j = 0 then none else some ((i : Rat) / (j : Rat))
  | _ => none

def showRat (q : Rat) : String := if q.den = 1 then toString q.num else s!"{q.num}/{q.den}"
def showB (b : Bool) : String := if b then "T" else "F"
def showAR : AR → String
  | .zero => "zero"
  | .one => "one"
  | .exp l => s!"exp:{showRat l}"
def parseB (s : String) : Option Bool := if s = "T" then some true else if s = "F" then some false else none
def parseOptInt (s : String) : Option (Option Int) := if s = "none" then some none else s.toInt?.map some
def parseList {α} (f : String → Option α) (s : String) : Option (List α) :=
  if s = "-" then some [] else (s.splitOn ",").mapM f
def showList {α} (f : α → String) (l : List α) : String := if l.isEmpty then "-" else ",".intercalate (l.map f)

def answer (toks : List String) : Option String :=
  match toks with
  | ["nsteps", raw, k] => do
      pure (toString (Gen.nsteps (← raw.toInt?) (← k.toInt?)))
  | ["callJump", raw, k, dur, st] => do
      pure (showB (Gen.callJump (← raw.toInt?) (← k.toInt?) (← dur.toInt?) (← parseOptInt st)))
  | ["update", raw, k, dur, st] => do
      let r := Gen.update (← raw.toInt?) (← k.toInt?) (← dur.toInt?) (← parseOptInt st)
      pure s!"{showB r.1} {r.2}"
  | ["logpdf", raw, k, dur, st, lp] => do
      pure (showRat (Gen.logpdf (← raw.toInt?) (← k.toInt?) (← dur.toInt?) (← parseOptInt st) (← parseRat lp)))
  | ["jump", raw, k, dur, st] => do
      pure (Gen.jump String (← raw.toInt?) (← k.toInt?) (← dur.toInt?) (← parseOptInt st) "copied" "jumped")
  | ["resetStart", raw, k] => do
      pure (toString (Gen.resetStart (← raw.toInt?) (← k.toInt?)))
  | ["chainLen", it, lc] => do
      pure (toString (Gen.chainLen (← it.toInt?) (← lc.toInt?)))
  | ["getitem", i, len, hb] => do
      let r := Gen.getitemReads (← i.toInt?) (← len.toInt?) (← parseB hb)
      pure (" ".intercalate (r.map fun e => s!"{e.1}:{e.2}"))
  | ["sweepDue", nt, it, s] => do
      pure (showB (Gen.sweepDue (← nt.toInt?) (← it.toInt?) (← s.toInt?)))
  | ["sweepRow", it, lc, s] => do
      let r := Gen.sweepRow (← it.toInt?) (← lc.toInt?) (← s.toInt?)
      pure s!"{r.1} {r.2}"
  | ["rowsViewed", len, s] => do
      pure (toString (Gen.swapRowsViewed (← len.toInt?) (← s.toInt?)))
  | ["annealerRow", it, len, s] => do
      let r := Gen.annealerRow (← it.toInt?) (← len.toInt?) (← s.toInt?)
      pure s!"{r.1} {r.2}"
  | ["runGrowth", n, sl, len] => do
      pure (toString (Gen.runGrowth (← n.toInt?) (← sl.toInt?) (← len.toInt?)))
  | ["accept", logp, logl, beta, clp, cll, sym, rev, fwd, us] => do
      let r := Gen.acceptanceRatio (← parseRat logp) (← parseRat logl) (← parseRat beta) (← parseRat clp)
        (← parseRat cll) (← parseB sym) (← parseRat rev) (← parseRat fwd) (← parseList parseRat us)
      pure s!"{showB r.1.1} {showAR r.1.2} {r.2.length}"
  | ["sweepLoop", nt, betas, logls, us] => do
      let r := Gen.sweepLoop (← nt.toInt?) (← parseList parseRat betas) (← parseList parseRat logls)
        (← parseList parseRat us)
      pure s!"{showList toString r.1} {showList showAR r.2.1} {r.2.2.2.length}"
  | ["annealLoop", nt, betas, es] => do
      let r := Gen.annealLoop (← nt.toInt?) (← parseList parseRat betas) (← parseList parseRat es)
      pure s!"{showList showRat r.1} {showList (fun e => s!"{e.1}:{showRat e.2}") r.2}"
  | ["veitch", n, st, T, acc, xi, g, delta, sigma] => do
      pure (showRat (Gen.veitchUpdate (← n.toInt?) (← st.toInt?) (← T.toInt?) (← parseB acc) (← parseRat xi)
        (← parseRat g) (← parseRat delta) (← parseRat sigma)))
  | ["vmf", n, st, T, xi, g, ar, lk] => do
      pure (showRat (Gen.vmfUpdate (← n.toInt?) (← st.toInt?) (← T.toInt?) (← parseRat xi) (← parseRat g)
        (← parseRat ar) (← parseRat lk)))
  | ["atglobal", n, st, T, xi, g, ar, x, ll, mean, ucov] => do
      let r := Gen.atUpdate (← n.toInt?) (← st.toInt?) (← T.toInt?) false true (← parseRat xi) (← parseRat g)
        (← parseRat ar) 0 (← parseRat x) 0 (← parseRat ll) (← parseRat mean) (← parseRat ucov)
      pure s!"{showRat r.1} {showRat r.2.1} {showRat r.2.2}"
  | ["tdLogpdf", K, idx, kxi, kg, cur, prop, birth, inm] => do
      pure (showRat (Gen.tdLogpdf (← K.toInt?) (← parseRat idx) (← kxi.toInt?) (← kg.toInt?)
        (← parseList parseB cur) (← parseList parseB prop) (← parseList parseRat birth) (← parseList parseRat inm)))
  | ["tdJump", K, k, newk, cur, chosen] => do
      let r := Gen.tdJump (← K.toInt?) (← k.toInt?) (← newk.toInt?) (← parseList parseB cur) (← parseList String.toInt? chosen)
      let ix := fun (l : List (Int × Unit)) => showList (fun e => toString e.1) l
      let ch := showList (fun (e : List Int × Int) => s!"{showList toString e.1}:{e.2}") r.2.2.1
      pure s!"{r.1} {showList showB r.2.1} {ch.replace "," ";"} {ix r.2.2.2.1} {ix r.2.2.2.2.1} {ix r.2.2.2.2.2}"
  | ["clear", hb, it, lc, sl] => do
      let r := Gen.chainClear String String String (← parseB hb) (← it.toInt?) (← lc.toInt?) (← sl.toInt?)
        "cur" "cur" "cur" "old" "old" "old"
      pure s!"{r.1} {r.2.1} {r.2.2.1} {showList (fun (e : String × Int) => s!"{e.1}:{e.2}") r.2.2.2.1} {r.2.2.2.2}"
  | ["ss", n, st, acc, diag, xi, mx, maxstd, nacc, scale, eUp, eDown, sUp, sDown] => do
      let eUp ← parseRat eUp; let eDown ← parseRat eDown; let sUp ← parseRat sUp; let sDown ← parseRat sDown
      let EXP : Rat → Rat := fun x => if x > 0 then eUp else eDown
      let SQRT : Rat → Rat := fun a => if a = 1 then 1 else if a = eUp then sUp else sDown
      let r := Gen.ssUpdate (← n.toInt?) (← st.toInt?) (← parseB acc) (← parseB diag) (← parseRat xi) EXP SQRT
        (← parseRat mx) (← parseRat maxstd) (← nacc.toInt?) (← parseRat scale)
      pure s!"{r.1} {showRat r.2}"
  | ["acceptX", logp, logl, beta, clp, cll, sym, rev, fwd, us] => do
      let pe : String → Option EL := fun t =>
        if t = "-inf" then some .ninf else if t = "inf" then some .pinf else if t = "nan" then some .nan
        else (parseRat t).map .fin
      let r := Gen.acceptanceRatioX (← pe logp) (← pe logl) (← pe beta) (← pe clp) (← pe cll) (← parseB sym)
        (← pe rev) (← pe fwd) (← parseList parseRat us)
      let a := match r.1.2 with
        | .zero => "zero" | .one => "one" | .exp l => s!"exp:{showRat l}" | .inf => "inf" | .nan => "nan"
      pure s!"{showB r.1.1} {a} {r.2.length}"
  | ["stateKeys"] => pure (",".intercalate (Gen.chainStateKeys.map (·.1)))
  | ["stateReads"] => pure (",".intercalate ((Gen.chainSetStateFlow.filter (fun f => f.2.1 ≠ "")).map (·.2.1)))
  | _ => none

partial def loop (h : IO.FS.Stream) : IO Unit := do
  let line ← h.getLine
  if line.isEmpty then return ()
  let toks := (line.trimAscii.toString.splitOn " ").filter (· ≠ "")
  match answer toks with
  | some a => IO.println a
  | none => IO.println s!"bad-op {line.trimAscii.toString}"
  loop h

def main : IO Unit := do loop (← IO.getStdin)
