/-
  DriverAlias — line-protocol front end of the executable alias model
  (`EpsieModel.Alias`).  Run with `lake env lean --run DriverAlias.lean < case-file`.

  Protocol (one record per line, space separated):
    case <id>                       start a new case (forgets everything)
    field <attr> <adapted> <inplace> <hot> <inState> <live> <aliased> <store> <reset>
                                    declare the next attribute (slot) of the proposal type;
                                    flags 0/1, reset ∈ none|alias|copy|recompute
    new <s> <share_0> … <share_n>   construct sampler s; share_j = '-' or the slot whose array
                                    attribute j is bound to at construction (oracle: observed)
    upd <s> <m_0> … <m_n>           one `_update`: m_j = 1 iff it gave attribute j a new content
                                    (oracle: observed on the real object)
    snap <s> <k>                    `state` → snapshot object (s, k)
    load <s> <src> <k>              `set_state` of sampler s with snapshot object (src, k)
    reset <s>                       `_reset_adaptation`
    dump <nsamplers> <nsnaps>       print the alias partition of all references, numbered by first
                                    occurrence: per sampler and slot `c<id>` and `i<id>|i-` (the
                                    stored initial value, for reset ∈ alias|copy), per snapshot
                                    object and slot `<id>|-`
  The model decides every identity; contents are opaque.
-/
import EpsieModel.Alias
open Epsie Epsie.Alias

structure AState where
  fields : Array FieldSpec := #[]
  w : World := World.empty
  ctr : Nat := 0
  dead : Bool := false

def parseBool (s : String) : Bool := s == "1"

def parseMode : String → ResetMode
  | "alias" => .alias
  | "copy" => .copy
  | "recompute" => .recompute
  | _ => .none

def number (seen : List Loc) (l : Loc) : List Loc × Nat :=
  match seen.findIdx? (· == l) with
  | some i => (seen, i)
  | none => (seen ++ [l], seen.length)

def dumpWorld (st : AState) (ns nk : Nat) : String := Id.run do
  let n := st.fields.size
  let mut seen : List Loc := []
  let mut out : List String := []
  for s in [0:ns] do
    let mut toks : List String := []
    for j in [0:n] do
      match st.w.fld s j with
      | none => toks := toks ++ ["c-", "i-"]
      | some f =>
        let (sn, i) := number seen f.cur
        seen := sn
        toks := toks ++ [s!"c{i}"]
        let showInit := f.spec.reset == .alias || f.spec.reset == .copy
        match f.init, showInit with
        | some l, true =>
          let (sn, i) := number seen l
          seen := sn
          toks := toks ++ [s!"i{i}"]
        | _, _ => toks := toks ++ ["i-"]
    out := out ++ [s!"s{s}: " ++ " ".intercalate toks]
  for s in [0:ns] do
    for k in [0:nk] do
      let mut toks : List String := []
      let mut any := false
      for j in [0:n] do
        match st.w.snap s k j with
        | none => toks := toks ++ ["-"]
        | some l =>
          any := true
          let (sn, i) := number seen l
          seen := sn
          toks := toks ++ [s!"{i}"]
      if any then out := out ++ [s!"snap{s}.{k}: " ++ " ".intercalate toks]
  return " | ".intercalate out

def handleLine (st : AState) (line : String) : AState × List String :=
  let toks := (line.trimAscii.toString.splitOn " ").filter (· ≠ "")
  if st.dead ∧ toks.head? ≠ some "case" then (st, []) else
  match toks with
  | [] => (st, [])
  | "case" :: id :: _ => ({}, [s!"case {id}"])
  | ["field", attr, a, ip, h, ins, lv, al, sto, md] =>
    let f : FieldSpec := { attr := attr, adapted := parseBool a, inplace := parseBool ip, hot := parseBool h,
                           inState := parseBool ins, liveInState := parseBool lv, aliasedByLoad := parseBool al,
                           storeAliases := parseBool sto, reset := parseMode md }
    ({ st with fields := st.fields.push f }, [])
  | "new" :: s :: shares =>
    match s.toNat? with
    | none => ({ st with dead := true }, [s!"bad-op {line}"])
    | some s =>
      let specs := (st.fields.toList.zip shares).zipIdx.map fun ((f, sh), j) =>
        (f, Buf.opaque (st.ctr + j), sh.toNat?)
      ({ st with w := st.w.run (constructAll s specs), ctr := st.ctr + specs.length }, ["ok new"])
  | "upd" :: s :: mask =>
    match s.toNat? with
    | none => ({ st with dead := true }, [s!"bad-op {line}"])
    | some s =>
      let ws := mask.zipIdx.map fun (m, j) => if m == "1" then some (Buf.opaque (st.ctr + j)) else none
      ({ st with w := st.w.run (updateAll s ws), ctr := st.ctr + ws.length }, ["ok upd"])
  | ["snap", s, k] =>
    match s.toNat?, k.toNat? with
    | some s, some k => ({ st with w := st.w.run (snapshotAll s st.fields.size k) }, ["ok snap"])
    | _, _ => ({ st with dead := true }, [s!"bad-op {line}"])
  | ["load", s, src, k] =>
    match s.toNat?, src.toNat?, k.toNat? with
    | some s, some src, some k => ({ st with w := st.w.run (loadAll s st.fields.size src k) }, ["ok load"])
    | _, _, _ => ({ st with dead := true }, [s!"bad-op {line}"])
  | ["reset", s] =>
    match s.toNat? with
    | some s => ({ st with w := st.w.run (resetAll s (List.range st.fields.size)) }, ["ok reset"])
    | none => ({ st with dead := true }, [s!"bad-op {line}"])
  | ["dump", ns, nk] =>
    match ns.toNat?, nk.toNat? with
    | some ns, some nk => (st, [dumpWorld st ns nk])
    | _, _ => ({ st with dead := true }, [s!"bad-op {line}"])
  | _ => ({ st with dead := true }, [s!"bad-op {line}"])

partial def loop (h : IO.FS.Stream) (out : IO.FS.Stream) (st : AState) : IO Unit := do
  let line ← h.getLine
  if line.isEmpty then return ()
  let (st', outs) := handleLine st line
  for o in outs do out.putStrLn o
  loop h out st'

def main : IO Unit := do
  let out ← IO.getStdout
  loop (← IO.getStdin) out {}
  out.flush
