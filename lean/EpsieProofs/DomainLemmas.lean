/-
  Helper lemmas about `EpsieModel.Domain` (property C12): rejection loops return
  only what passed the membership test, integer maps, Python's `%`, the
  `isclose` band, and the real-analysis facts behind the solid-angle proposal.
-/
import EpsieModel.Domain
import Mathlib.Tactic.Linarith
import Mathlib.Tactic.Ring
import Mathlib.Tactic.FieldSimp
import Mathlib.Tactic.Positivity
import Mathlib.Tactic.LinearCombination
import Mathlib.Algebra.Order.Floor.Ring
import Mathlib.Data.Rat.Floor
import Mathlib.Analysis.SpecialFunctions.Log.Basic
import Mathlib.Analysis.SpecialFunctions.Trigonometric.Inverse
import Mathlib.Analysis.SpecialFunctions.Complex.Arg
import Mathlib.Analysis.SpecialFunctions.Sqrt

namespace Epsie.Domain

/-! ### numbers -/

theorem rabs_nonneg (q : Rat) : 0 ≤ rabs q := by
  unfold rabs; split <;> linarith

theorem le_rabs (q : Rat) : q ≤ rabs q := by
  unfold rabs; split <;> linarith

theorem neg_le_rabs (q : Rat) : -q ≤ rabs q := by
  unfold rabs; split <;> linarith

theorem rabs_le_iff {q t : Rat} : rabs q ≤ t ↔ -t ≤ q ∧ q ≤ t := by
  unfold rabs; split <;> constructor <;> intro h <;> (try constructor) <;> (try obtain ⟨h1, h2⟩ := h) <;> linarith

theorem floorceil_pos {d : Rat} (h : 0 < d) : 0 < floorceil d := by
  unfold floorceil
  rw [if_pos h]
  exact Rat.lt_ceil_iff.mpr (by simpa using h)

theorem floorceil_neg {d : Rat} (h : d < 0) : floorceil d < 0 := by
  unfold floorceil
  rw [if_neg (by linarith), if_pos h]
  exact Rat.floor_lt_iff.mpr (by simpa using h)

theorem floorceil_ne_zero {d : Rat} (h : d ≠ 0) : floorceil d ≠ 0 := by
  rcases lt_trichotomy d 0 with h' | h' | h'
  · exact ne_of_lt (floorceil_neg h')
  · exact absurd h' h
  · exact ne_of_gt (floorceil_pos h')

theorem floorceil_zero : floorceil 0 = 0 := by
  unfold floorceil; simp

/-- `_floorceil` rounds away from zero by less than one unit. -/
theorem floorceil_spec (d : Rat) :
    (0 < d → d ≤ (floorceil d : Rat) ∧ (floorceil d : Rat) < d + 1) ∧
    (d < 0 → d - 1 < (floorceil d : Rat) ∧ (floorceil d : Rat) ≤ d) := by
  constructor
  · intro h
    unfold floorceil
    rw [if_pos h]
    refine ⟨Rat.le_ceil, ?_⟩
    have : d.ceil < (d + 1).floor + 1 := by
      have h1 : d.ceil - 1 < d.ceil := by omega
      have h2 : ((d.ceil - 1 : Int) : Rat) < d := Rat.lt_ceil_iff.mp h1
      have h3 : (d.ceil - 1 + 1 : Int) ≤ (d + 1).floor := by
        apply Rat.le_floor_iff.mpr
        push_cast at h2 ⊢
        linarith
      omega
    have h4 := Rat.lt_ceil_iff.mp (show d.ceil - 1 < d.ceil by omega)
    push_cast at h4
    linarith
  · intro h
    unfold floorceil
    rw [if_neg (by linarith), if_pos h]
    refine ⟨?_, Rat.floor_le d⟩
    have := Rat.lt_floor_add_one d
    push_cast at this
    linarith

/-- Python's `round` returns an integer within half a unit of its argument. -/
theorem roundHalfEven_spec (q : Rat) :
    (roundHalfEven q : Rat) - q ≤ 1 / 2 ∧ q - (roundHalfEven q : Rat) ≤ 1 / 2 := by
  have h1 := Rat.floor_le q
  have h2 := Rat.lt_floor_add_one q
  push_cast at h2
  unfold roundHalfEven
  simp only
  split
  · constructor <;> linarith
  · split
    · push_cast; constructor <;> linarith
    · have : q - (q.floor : Rat) = 1 / 2 := by
        rename_i ha hb
        linarith [not_lt.mp ha, not_lt.mp hb]
      split
      · constructor <;> linarith
      · push_cast; constructor <;> linarith

/-- Python's `%`: the result lies in `[0, m)` for a positive modulus. -/
theorem pyMod_range {a m : Rat} (hm : 0 < m) : 0 ≤ pyMod a m ∧ pyMod a m < m := by
  have h1 := Rat.floor_le (a / m)
  have h2 := Rat.lt_floor_add_one (a / m)
  push_cast at h2
  have ha : a = a / m * m := by field_simp
  unfold pyMod
  constructor
  · have : ((a / m).floor : Rat) * m ≤ a / m * m := mul_le_mul_of_nonneg_right h1 hm.le
    nlinarith
  · have : a / m * m < (((a / m).floor : Rat) + 1) * m := mul_lt_mul_of_pos_right h2 hm
    nlinarith

/-! ### rejection loops -/

theorem firstIn_ok {ok : Rat → Bool} :
    ∀ {f : Nat} {ds : List Rat} {v : Rat} {r : List Rat},
      firstIn ok f ds = some (v, r) → ok v = true ∧ v ∈ ds ∧ r.length < ds.length
  | 0, _, _, _, h => by simp [firstIn] at h
  | _ + 1, [], _, _, h => by simp [firstIn] at h
  | f + 1, d :: ds, v, r, h => by
    unfold firstIn at h
    split at h
    · rename_i hok
      simp only [Option.some.injEq, Prod.mk.injEq] at h
      obtain ⟨rfl, rfl⟩ := h
      exact ⟨hok, by simp, by simp⟩
    · obtain ⟨h1, h2, h3⟩ := firstIn_ok h
      exact ⟨h1, List.mem_cons_of_mem _ h2, by simp; omega⟩

theorem Box.contains_iff {b : Box} {v : Rat} : b.contains v = true ↔ b.lo ≤ v ∧ v ≤ b.hi := by
  simp [Box.contains]

/-- Every value returned by the loops of `BoundedNormal._jump` is one of the draws
    and lies in its parameter's closed interval. -/
theorem bnLoop_in {fuel : Nat} :
    ∀ {boxes : List Box} {ds ys r : List Rat}, bnLoop fuel boxes ds = some (ys, r) →
      List.Forall₂ (fun b y => b.lo ≤ y ∧ y ≤ b.hi ∧ y ∈ ds) boxes ys
  | [], ds, ys, r, h => by
    simp only [bnLoop, Option.some.injEq, Prod.mk.injEq] at h
    obtain ⟨rfl, _⟩ := h
    exact .nil
  | b :: bs, ds, ys, r, h => by
    unfold bnLoop at h
    split at h
    · simp at h
    · rename_i y ds' hf
      split at h
      · simp at h
      · rename_i ys' r' hl
        simp only [Option.some.injEq, Prod.mk.injEq] at h
        obtain ⟨rfl, rfl⟩ := h
        obtain ⟨hok, hmem, hlen⟩ := firstIn_ok hf
        have hrest := bnLoop_in hl
        refine .cons ⟨(Box.contains_iff.mp hok).1, (Box.contains_iff.mp hok).2, hmem⟩ ?_
        -- the remaining draws are a suffix of the stream
        have hsub : ∀ z, z ∈ ds' → z ∈ ds := by
          clear hrest hl
          intro z hz
          exact firstIn_rest_subset hf z hz
        exact hrest.imp (fun _ _ ⟨a, b', c⟩ => ⟨a, b', hsub _ c⟩)
where
  firstIn_rest_subset {ok : Rat → Bool} :
      ∀ {f : Nat} {ds : List Rat} {v : Rat} {r : List Rat},
        firstIn ok f ds = some (v, r) → ∀ z, z ∈ r → z ∈ ds
    | 0, _, _, _, h => by simp [firstIn] at h
    | _ + 1, [], _, _, h => by simp [firstIn] at h
    | f + 1, d :: ds, v, r, h => by
      unfold firstIn at h
      split at h
      · simp only [Option.some.injEq, Prod.mk.injEq] at h
        obtain ⟨_, rfl⟩ := h
        intro z hz; exact List.mem_cons_of_mem _ hz
      · intro z hz; exact List.mem_cons_of_mem _ (firstIn_rest_subset h z hz)

theorem bnJump_ok_iff {boxes : List Box} {x : List Rat} {fuel : Nat} {draws ys : List Rat} :
    bnJump? boxes x fuel draws = some ys ↔
      allIn boxes x = true ∧ ∃ r, bnLoop fuel boxes draws = some (ys, r) := by
  unfold bnJump? bnJump
  by_cases hx : allIn boxes x = true
  · simp only [hx, if_true, true_and]
    cases hl : bnLoop fuel boxes draws with
    | none => simp [Outcome.toOption]
    | some p => obtain ⟨ys', r⟩ := p; simp [Outcome.toOption]
  · simp [hx, Outcome.toOption]

/-! ### discrete -/

theorem DBox.containsZ_iff {b : DBox} {k : Int} : b.containsZ k = true ↔ b.ilo ≤ k ∧ k ≤ b.ihi := by
  simp [DBox.containsZ]

theorem DBox.accepts_iff {b : DBox} {x0 : Int} {d : Rat} :
    b.accepts x0 d = true ↔
      (b.ilo ≤ x0 + dstep b.succ d ∧ x0 + dstep b.succ d ≤ b.ihi) ∧
      (b.succ = false → dstep b.succ d ≠ 0) := by
  unfold DBox.accepts
  rw [Bool.and_eq_true, DBox.containsZ_iff]
  cases b.succ <;> simp

theorem bdFirst_in {b : DBox} {x0 : Int} :
    ∀ {f : Nat} {ds : List Rat} {y : Int} {r : List Rat},
      bdFirst b x0 f ds = some (y, r) →
        b.ilo ≤ y ∧ y ≤ b.ihi ∧ ∃ d ∈ ds, y = x0 + dstep b.succ d ∧
          (b.succ = false → dstep b.succ d ≠ 0)
  | 0, _, _, _, h => by simp [bdFirst] at h
  | _ + 1, [], _, _, h => by simp [bdFirst] at h
  | f + 1, d :: ds, y, r, h => by
    unfold bdFirst at h
    split at h
    · rename_i hok
      simp only [Option.some.injEq, Prod.mk.injEq] at h
      obtain ⟨rfl, rfl⟩ := h
      obtain ⟨⟨h1, h2⟩, h3⟩ := DBox.accepts_iff.mp hok
      exact ⟨h1, h2, d, by simp, rfl, h3⟩
    · obtain ⟨h1, h2, d', hd', he⟩ := bdFirst_in h
      exact ⟨h1, h2, d', List.mem_cons_of_mem _ hd', he⟩

/-- What `bdLoop` returns: per parameter an integer inside the integer bounds that is
    the truncated start plus the integer image of one of the draws. -/
theorem bdLoop_in {fuel : Nat} :
    ∀ {boxes : List DBox} {x ds : List Rat} {ys : List Int} {r : List Rat},
      bdLoop fuel boxes x ds = some (ys, r) →
      List.Forall₂ (fun (bx : DBox × Rat) y =>
          bx.1.ilo ≤ y ∧ y ≤ bx.1.ihi ∧ ∃ d : Rat, y = truncZ bx.2 + dstep bx.1.succ d)
        (boxes.zip x) ys
  | [], x, ds, ys, r, h => by
    simp only [bdLoop, Option.some.injEq, Prod.mk.injEq] at h
    obtain ⟨rfl, _⟩ := h
    simp
  | b :: bs, [], ds, ys, r, h => by simp [bdLoop] at h
  | b :: bs, x :: xs, ds, ys, r, h => by
    unfold bdLoop at h
    split at h
    · simp at h
    · rename_i y ds' hf
      split at h
      · simp at h
      · rename_i ys' r' hl
        simp only [Option.some.injEq, Prod.mk.injEq] at h
        obtain ⟨rfl, rfl⟩ := h
        obtain ⟨h1, h2, d, _, he, _⟩ := bdFirst_in hf
        exact .cons ⟨h1, h2, d, he⟩ (bdLoop_in hl)

theorem bdLoop_length {fuel : Nat} :
    ∀ {boxes : List DBox} {x ds : List Rat} {ys : List Int} {r : List Rat},
      bdLoop fuel boxes x ds = some (ys, r) → ys.length = boxes.length
  | [], x, ds, ys, r, h => by
    simp only [bdLoop, Option.some.injEq, Prod.mk.injEq] at h
    obtain ⟨rfl, _⟩ := h; rfl
  | b :: bs, [], ds, ys, r, h => by simp [bdLoop] at h
  | b :: bs, x :: xs, ds, ys, r, h => by
    unfold bdLoop at h
    split at h
    · simp at h
    · split at h
      · simp at h
      · rename_i ys' r' hl
        simp only [Option.some.injEq, Prod.mk.injEq] at h
        obtain ⟨rfl, rfl⟩ := h
        simp [bdLoop_length hl]

theorem bdJump_ok_iff {boxes : List DBox} {x : List Rat} {fuel : Nat} {draws : List Rat}
    {ys : List Int} :
    bdJump? boxes x fuel draws = some ys ↔
      allIn (boxes.map DBox.box) x = true ∧ ∃ r, bdLoop fuel boxes x draws = some (ys, r) := by
  unfold bdJump? bdJump
  by_cases hx : allIn (boxes.map DBox.box) x = true
  · simp only [hx, if_true, true_and]
    cases hl : bdLoop fuel boxes x draws with
    | none => simp [Outcome.toOption]
    | some p => obtain ⟨ys', r⟩ := p; simp [Outcome.toOption]
  · simp [hx, Outcome.toOption]

theorem ndOk_false {d : Rat} (h : ndOk false d = true) : d ≠ 0 := by
  simpa [ndOk] using h

/-- What `ndLoop` returns: per parameter the truncated start plus the integer image of a draw
    that the parameter accepts (any draw with successive jumps, a non-zero one otherwise). -/
theorem ndLoop_spec {fuel : Nat} :
    ∀ {succ : List Bool} {x ds : List Rat} {ys : List Int} {r : List Rat},
      ndLoop fuel succ x ds = some (ys, r) →
      List.Forall₂ (fun (sx : Bool × Rat) (y : Int) =>
          ∃ d : Rat, ndOk sx.1 d = true ∧ y = truncZ sx.2 + dstep sx.1 d)
        (succ.zip x) ys
  | [], x, ds, ys, r, h => by
    simp only [ndLoop, Option.some.injEq, Prod.mk.injEq] at h
    obtain ⟨rfl, _⟩ := h
    simp
  | s :: ss, [], ds, ys, r, h => by simp [ndLoop] at h
  | s :: ss, x :: xs, ds, ys, r, h => by
    unfold ndLoop at h
    split at h
    · simp at h
    · rename_i d ds' hf
      split at h
      · simp at h
      · rename_i ys' r' hl
        simp only [Option.some.injEq, Prod.mk.injEq] at h
        obtain ⟨rfl, rfl⟩ := h
        exact .cons ⟨d, (firstIn_ok hf).1, rfl⟩ (ndLoop_spec hl)

/-! ### angular -/

theorem angOne_range {c : AngCfg} (hh : 0 < c.h) (hf : 0 < c.f) {x : Rat} {fuel : Nat}
    {ds : List Rat} {y : Rat} {r : List Rat} (h : angOne c x fuel ds = some (y, r)) :
    0 ≤ y ∧ y < 2 * c.h * c.f ∧ ∃ v ∈ ds, rabs v ≤ c.h ∧ y = wrap c (v + x * c.invf) * c.f := by
  unfold angOne at h
  split at h
  · simp at h
  · rename_i v r' hfi
    simp only [Option.some.injEq, Prod.mk.injEq] at h
    obtain ⟨rfl, rfl⟩ := h
    obtain ⟨hok, hmem, _⟩ := firstIn_ok hfi
    have hr := pyMod_range (a := v + x * c.invf) (m := 2 * c.h) (by linarith)
    refine ⟨mul_nonneg hr.1 hf.le, ?_, v, hmem, by simpa using hok, rfl⟩
    unfold wrap
    exact mul_lt_mul_of_pos_right hr.2 hf

theorem angLoop_range {c : AngCfg} (hh : 0 < c.h) (hf : 0 < c.f) {fuel : Nat} :
    ∀ {x ds ys r : List Rat}, angLoop c fuel x ds = some (ys, r) →
      ∀ y ∈ ys, 0 ≤ y ∧ y < 2 * c.h * c.f
  | [], ds, ys, r, h => by
    simp only [angLoop, Option.some.injEq, Prod.mk.injEq] at h
    obtain ⟨rfl, _⟩ := h
    simp
  | x :: xs, ds, ys, r, h => by
    unfold angLoop at h
    split at h
    · simp at h
    · rename_i y ds' ho
      split at h
      · simp at h
      · rename_i ys' r' hl
        simp only [Option.some.injEq, Prod.mk.injEq] at h
        obtain ⟨rfl, rfl⟩ := h
        intro z hz
        rcases List.mem_cons.mp hz with rfl | hz
        · exact ⟨(angOne_range hh hf ho).1, (angOne_range hh hf ho).2.1⟩
        · exact angLoop_range hh hf hl z hz

/-! ### the `isclose` band of the bounded eigenvector family -/

/-- The tolerance `numpy.isclose` applies around the bound `x`. -/
def tolAt (x : Rat) : Rat := atol + rtol * rabs x

theorem tolAt_nonneg (x : Rat) : 0 ≤ tolAt x := by
  unfold tolAt atol rtol
  have := rabs_nonneg x
  nlinarith

theorem isclose_iff {a b : Rat} : isclose a b = true ↔ b - tolAt b ≤ a ∧ a ≤ b + tolAt b := by
  unfold isclose tolAt
  rw [decide_eq_true_iff, rabs_le_iff]
  constructor <;> rintro ⟨h1, h2⟩ <;> constructor <;> linarith

/-- The largest tolerance applied at a face of the interval. -/
def Box.tol (b : Box) : Rat := if tolAt b.lo < tolAt b.hi then tolAt b.hi else tolAt b.lo

theorem Box.tol_ge (b : Box) : tolAt b.lo ≤ b.tol ∧ tolAt b.hi ≤ b.tol := by
  unfold Box.tol; split <;> constructor <;> linarith

theorem Box.containsTol_band {b : Box} {v : Rat} (h : b.containsTol v = true) :
    b.lo - b.tol ≤ v ∧ v ≤ b.hi + b.tol := by
  obtain ⟨tl, th⟩ := b.tol_ge
  have nl := tolAt_nonneg b.lo
  have nh := tolAt_nonneg b.hi
  unfold Box.containsTol Box.snap at h
  split at h
  · rename_i hc
    obtain ⟨h1, h2⟩ := isclose_iff.mp hc
    obtain ⟨_, h4⟩ := Box.contains_iff.mp h
    constructor <;> linarith
  · split at h
    · rename_i _ hc
      obtain ⟨h1, h2⟩ := isclose_iff.mp hc
      obtain ⟨h3, _⟩ := Box.contains_iff.mp h
      constructor <;> linarith
    · obtain ⟨h3, h4⟩ := Box.contains_iff.mp h
      constructor <;> linarith

theorem allInTol_band : ∀ {boxes : List Box} {pt : List Rat}, allInTol boxes pt = true →
    List.Forall₂ (fun b y => b.lo - b.tol ≤ y ∧ y ≤ b.hi + b.tol) (boxes.take pt.length) (pt.take boxes.length)
  | [], pt, _ => by simp
  | b :: bs, [], _ => by simp
  | b :: bs, v :: vs, h => by
    simp only [allInTol, Bool.and_eq_true] at h
    simp only [List.length_cons, List.take_succ_cons]
    exact .cons (Box.containsTol_band h.1) (allInTol_band h.2)

theorem beFirst_ok {boxes : List Box} :
    ∀ {f : Nat} {cs : List (List Rat)} {y : List Rat} {k : Nat},
      beFirst boxes f cs = some (y, k) → allInTol boxes y = true ∧ y ∈ cs
  | 0, _, _, _, h => by simp [beFirst] at h
  | _ + 1, [], _, _, h => by simp [beFirst] at h
  | f + 1, c :: cs, y, k, h => by
    unfold beFirst at h
    split at h
    · rename_i hok
      simp only [Option.some.injEq, Prod.mk.injEq] at h
      obtain ⟨rfl, _⟩ := h
      exact ⟨hok, by simp⟩
    · split at h
      · simp at h
      · rename_i y' k' hr
        simp only [Option.some.injEq, Prod.mk.injEq] at h
        obtain ⟨rfl, _⟩ := h
        exact ⟨(beFirst_ok hr).1, List.mem_cons_of_mem _ (beFirst_ok hr).2⟩

theorem beJump_ok_iff {boxes : List Box} {x : List Rat} {fuel : Nat} {cs : List (List Rat)}
    {y : List Rat} :
    beJump? boxes x fuel cs = some y ↔
      allInTol boxes x = true ∧ ∃ k, beFirst boxes fuel cs = some (y, k) := by
  unfold beJump? beJump
  by_cases hx : allInTol boxes x = true
  · simp only [hx, if_true, true_and]
    cases hl : beFirst boxes fuel cs with
    | none => simp
    | some p => obtain ⟨y', k⟩ := p; simp
  · simp [hx]

/-! ### births -/

theorem birthUniform_range {b : Box} {u : Rat} (hb : b.lo ≤ b.hi) (h0 : 0 ≤ u) (h1 : u < 1) :
    b.lo ≤ birthUniform b u ∧ birthUniform b u ≤ b.hi := by
  unfold birthUniform
  constructor <;> nlinarith

/-! ### real analysis behind the solid-angle proposal -/

/-- The inverse cdf of the von Mises–Fisher polar angle as `_new_point` now writes it:
    `costheta = 1 + log1p(u·expm1(−2κ))/κ`. -/
noncomputable def vmfW (κ u : ℝ) : ℝ :=
  1 + Real.log (1 + u * (Real.exp (-2 * κ) - 1)) / κ

/-- The expression the code used before (with `norm = κ/(4π sinh κ)`), kept to show that the
    rewrite did not change the law. -/
noncomputable def vmfWOld (κ u : ℝ) : ℝ :=
  Real.log (Real.exp κ - κ * u / (2 * Real.pi * (κ / (4 * Real.pi * Real.sinh κ)))) / κ

theorem vmf_inner_bounds {κ u : ℝ} (hκ : 0 < κ) (h0 : 0 ≤ u) (h1 : u ≤ 1) :
    Real.exp (-2 * κ) ≤ 1 + u * (Real.exp (-2 * κ) - 1) ∧ 1 + u * (Real.exp (-2 * κ) - 1) ≤ 1 := by
  have he : 0 < Real.exp (-2 * κ) := Real.exp_pos _
  have he1 : Real.exp (-2 * κ) < 1 := by
    have := Real.exp_lt_exp.mpr (show -2 * κ < 0 by linarith)
    rwa [Real.exp_zero] at this
  constructor <;> nlinarith

theorem vmfW_range {κ u : ℝ} (hκ : 0 < κ) (h0 : 0 ≤ u) (h1 : u ≤ 1) :
    -1 ≤ vmfW κ u ∧ vmfW κ u ≤ 1 := by
  obtain ⟨hl, hu⟩ := vmf_inner_bounds hκ h0 h1
  have he : 0 < Real.exp (-2 * κ) := Real.exp_pos _
  have hpos : 0 < 1 + u * (Real.exp (-2 * κ) - 1) := lt_of_lt_of_le he hl
  have l1 : -2 * κ ≤ Real.log (1 + u * (Real.exp (-2 * κ) - 1)) := by
    have := Real.log_le_log he hl
    rwa [Real.log_exp] at this
  have l2 : Real.log (1 + u * (Real.exp (-2 * κ) - 1)) ≤ 0 := by
    have := Real.log_le_log hpos hu
    rwa [Real.log_one] at this
  unfold vmfW
  constructor
  · have : -2 ≤ Real.log (1 + u * (Real.exp (-2 * κ) - 1)) / κ := by
      rw [le_div_iff₀ hκ]; linarith
    linarith
  · have : Real.log (1 + u * (Real.exp (-2 * κ) - 1)) / κ ≤ 0 :=
      div_nonpos_of_nonpos_of_nonneg l2 hκ.le
    linarith

theorem vmf_arg_eq {κ : ℝ} (hκ : 0 < κ) (u : ℝ) :
    Real.exp κ - κ * u / (2 * Real.pi * (κ / (4 * Real.pi * Real.sinh κ)))
      = Real.exp κ * (1 + u * (Real.exp (-2 * κ) - 1)) := by
  have hs : Real.sinh κ ≠ 0 := by
    have hlt : Real.exp (-κ) < Real.exp κ := Real.exp_lt_exp.mpr (by linarith)
    have : 0 < Real.sinh κ := by rw [Real.sinh_eq]; linarith
    exact ne_of_gt this
  have hpi : (Real.pi : ℝ) ≠ 0 := Real.pi_ne_zero
  have hk : κ ≠ 0 := ne_of_gt hκ
  have h1 : κ * u / (2 * Real.pi * (κ / (4 * Real.pi * Real.sinh κ))) = 2 * u * Real.sinh κ := by
    field_simp
    ring
  have h2 : Real.exp κ * Real.exp (-2 * κ) = Real.exp (-κ) := by
    rw [← Real.exp_add]; congr 1; ring
  rw [h1, Real.sinh_eq]
  have : Real.exp κ * (1 + u * (Real.exp (-2 * κ) - 1))
      = Real.exp κ + u * (Real.exp κ * Real.exp (-2 * κ)) - u * Real.exp κ := by ring
  rw [this, h2]
  ring

theorem vmfW_eq_old {κ u : ℝ} (hκ : 0 < κ) (h0 : 0 ≤ u) (h1 : u ≤ 1) : vmfWOld κ u = vmfW κ u := by
  obtain ⟨hl, _⟩ := vmf_inner_bounds hκ h0 h1
  have he : 0 < Real.exp (-2 * κ) := Real.exp_pos _
  have hpos : 0 < 1 + u * (Real.exp (-2 * κ) - 1) := lt_of_lt_of_le he hl
  unfold vmfWOld vmfW
  rw [vmf_arg_eq hκ u, Real.log_mul (ne_of_gt (Real.exp_pos κ)) (ne_of_gt hpos), Real.log_exp]
  field_simp

theorem clip1_range (q : Rat) : -1 ≤ clip1 q ∧ clip1 q ≤ 1 := by
  unfold clip1
  split
  · constructor <;> norm_num
  · split
    · constructor <;> norm_num
    · constructor <;> linarith

theorem clipXR_range {x : XR} {w : Rat} (h : clipXR x = .fin w) : -1 ≤ w ∧ w ≤ 1 := by
  cases x with
  | fin q => simp only [clipXR, XR.fin.injEq] at h; subst h; exact clip1_range q
  | nan => simp [clipXR] at h
  | pinf => simp only [clipXR, XR.fin.injEq] at h; subst h; constructor <;> norm_num
  | ninf => simp only [clipXR, XR.fin.injEq] at h; subst h; constructor <;> norm_num

/-- The rotation of `_rotmat` preserves the Euclidean norm whenever its entries are the
    cosine and sine of two angles (in any commutative ring). -/
theorem rot_norm {R : Type*} [CommRing R] {sb cb sg cg : R}
    (hb : cb ^ 2 + sb ^ 2 = 1) (hg : cg ^ 2 + sg ^ 2 = 1) (x y z : R) :
    (cb * cg * x - sg * y + sb * cg * z) ^ 2 + (cb * sg * x + cg * y + sb * sg * z) ^ 2
      + (-sb * x + cb * z) ^ 2 = x ^ 2 + y ^ 2 + z ^ 2 := by
  linear_combination ((cb * x + sb * z) ^ 2 + y ^ 2) * hg + (x ^ 2 + z ^ 2) * hb


/-! ### refusal -/

theorem allIn_false_of_outside : ∀ {boxes : List Box} {x : List Rat} (i : Nat) {b : Box} {v : Rat},
    boxes[i]? = some b → x[i]? = some v → (v < b.lo ∨ b.hi < v) → allIn boxes x = false
  | [], _, i, _, _, hb, _, _ => by simp at hb
  | _ :: _, [], i, _, _, _, hv, _ => by simp at hv
  | b' :: bs, v' :: vs, 0, b, v, hb, hv, ho => by
    simp only [List.getElem?_cons_zero, Option.some.injEq] at hb hv
    subst hb hv
    have : b'.contains v' = false := by
      rw [Bool.eq_false_iff]
      intro hc
      obtain ⟨h1, h2⟩ := Box.contains_iff.mp hc
      rcases ho with ho | ho <;> linarith
    simp [allIn, this]
  | b' :: bs, v' :: vs, i + 1, b, v, hb, hv, ho => by
    simp only [List.getElem?_cons_succ] at hb hv
    simp [allIn, allIn_false_of_outside i hb hv ho]

theorem allInTol_false_of_outside : ∀ {boxes : List Box} {x : List Rat} (i : Nat) {b : Box} {v : Rat},
    boxes[i]? = some b → x[i]? = some v → (v < b.lo - b.tol ∨ b.hi + b.tol < v) →
    allInTol boxes x = false
  | [], _, i, _, _, hb, _, _ => by simp at hb
  | _ :: _, [], i, _, _, _, hv, _ => by simp at hv
  | b' :: bs, v' :: vs, 0, b, v, hb, hv, ho => by
    simp only [List.getElem?_cons_zero, Option.some.injEq] at hb hv
    subst hb hv
    have : b'.containsTol v' = false := by
      rw [Bool.eq_false_iff]
      intro hc
      obtain ⟨h1, h2⟩ := Box.containsTol_band hc
      rcases ho with ho | ho <;> linarith
    simp [allInTol, this]
  | b' :: bs, v' :: vs, i + 1, b, v, hb, hv, ho => by
    simp only [List.getElem?_cons_succ] at hb hv
    simp [allInTol, allInTol_false_of_outside i hb hv ho]


/-! ### non-successive discrete jumps move -/

theorem bdLoop_moves {fuel : Nat} :
    ∀ {boxes : List DBox} {x ds : List Rat} {ys : List Int} {r : List Rat},
      bdLoop fuel boxes x ds = some (ys, r) →
      List.Forall₂ (fun (bx : DBox × Rat) (y : Int) => bx.1.succ = false → y ≠ truncZ bx.2)
        (boxes.zip x) ys
  | [], x, ds, ys, r, h => by
    simp only [bdLoop, Option.some.injEq, Prod.mk.injEq] at h
    obtain ⟨rfl, _⟩ := h
    simp
  | b :: bs, [], ds, ys, r, h => by simp [bdLoop] at h
  | b :: bs, x :: xs, ds, ys, r, h => by
    unfold bdLoop at h
    split at h
    · simp at h
    · rename_i y ds' hf
      split at h
      · simp at h
      · rename_i ys' r' hl
        simp only [Option.some.injEq, Prod.mk.injEq] at h
        obtain ⟨rfl, rfl⟩ := h
        obtain ⟨_, _, d, _, he, hne⟩ := bdFirst_in hf
        refine .cons ?_ (bdLoop_moves hl)
        intro hs
        have hs' : b.succ = false := hs
        have := hne hs'
        simp only
        omega

theorem ndLoop_moves {fuel : Nat} {succ : List Bool} {x ds : List Rat} {ys : List Int} {r : List Rat}
    (h : ndLoop fuel succ x ds = some (ys, r)) :
    List.Forall₂ (fun (sx : Bool × Rat) (y : Int) => sx.1 = false → y ≠ truncZ sx.2) (succ.zip x) ys := by
  refine (ndLoop_spec h).imp ?_
  rintro ⟨s, x⟩ y ⟨d, hok, rfl⟩ hs
  have hs' : s = false := hs
  subst hs'
  have := floorceil_ne_zero (ndOk_false hok)
  simp only [dstep, Bool.false_eq_true, if_false]
  omega

/-- `_cartesian2spherical` over the reals (`arctan2(y, x) = arg(x + iy)`), in the four
    conventions: azimuth in `[0, 2π)` resp. `[0, 360)`; polar angle in `[0, π]`,
    `[−π/2, π/2]` (radec), `[0, 180]`, `[−90, 90]` (degrees). -/
noncomputable def sphOut (radec degs : Bool) (x y z : ℝ) : ℝ × ℝ :=
  let a := Complex.arg ⟨x, y⟩
  let phi := if a < 0 then a + 2 * Real.pi else a
  let t := Real.arccos z
  let phi := if degs then phi * (180 / Real.pi) else phi
  let t := if degs then t * (180 / Real.pi) else t
  let t := if radec then (if degs then t - 90 else t - Real.pi / 2) else t
  (phi, t)


/-! ### the solid-angle jump of the model returns a pair only through `saFromColat` -/

theorem useFin_ok {name : String} {s : Site} {m scale dev : Rat} {r : Rat × Rat}
    (h : useFin name s m scale dev = .ok r) : s.val = .fin r.1 := by
  unfold useFin at h
  split at h
  · simp only [Except.ok.injEq] at h; subst h; assumption
  · simp at h

theorem useFin_not_ok {name : String} {s : Site} {m scale dev : Rat} {p t d : Rat}
    (h : useFin name s m scale dev = .error (.ok p t d)) : False := by
  unfold useFin at h
  split at h <;> simp at h

theorem useFin_not_nan {name : String} {s : Site} {m scale dev : Rat} {site : String} {d : Rat}
    (h : useFin name s m scale dev = .error (.nan site d)) : False := by
  unfold useFin at h
  split at h <;> simp at h

theorem useAcos_ok {name : String} {s : Site} {m dev : Rat} {r : Rat × Rat}
    (h : useAcos name s m dev = .ok r) :
    s.val = .fin r.1 ∧ ∃ a, s.arg = .fin a ∧ -1 ≤ a ∧ a ≤ 1 := by
  unfold useAcos at h
  split at h
  · rename_i a ha
    split at h
    · rename_i hc
      split at h
      · simp only [Except.ok.injEq] at h; subst h
        simp only [Bool.and_eq_true, decide_eq_true_eq] at hc
        exact ⟨by assumption, a, ha, hc.1, hc.2⟩
      · simp at h
    · split at h <;> simp at h
  · split at h <;> simp at h

theorem useAcos_not_ok {name : String} {s : Site} {m dev : Rat} {p t d : Rat}
    (h : useAcos name s m dev = .error (.ok p t d)) : False := by
  unfold useAcos at h
  repeat' (split at h <;> try (simp at h; done))

/-- An `arccos` site yields the NaN outcome only if numpy's recorded value is NaN. -/
theorem useAcos_nan {name : String} {s : Site} {m dev : Rat} {site : String} {d : Rat}
    (h : useAcos name s m dev = .error (.nan site d)) : s.val = .nan := by
  unfold useAcos at h
  repeat' (split at h <;> try (simp at h; done))
  all_goals assumption

set_option maxHeartbeats 2000000 in
theorem saJump_ok {k : Consts} {c : SACfg} {p t u1 u2 : Rat} {o : SAOracle} {phi theta dev : Rat}
    (h : saJump k c p t u1 u2 o = .ok phi theta dev) :
    ∃ a tt z, o.atan2.val = .fin a ∧ o.acosZ.val = .fin tt ∧ o.acosZ.arg = .fin z ∧ -1 ≤ z ∧ z ≤ 1 ∧
      (phi, theta) = saFromColat k c a tt := by
  unfold saJump at h
  split at h
  · rename_i r hr
    subst h
    unfold saJumpE at hr
    simp only [bind, Except.bind, pure, Except.pure, throw, throwThe, MonadExceptOf.throw] at hr
    repeat' (split at hr <;> try (simp at hr; done))
    all_goals
      (rename_i hat _ _ hz
       obtain ⟨hv, z, hz1, hz2, hz3⟩ := useAcos_ok hz
       simp only [Except.ok.injEq, SAOut.ok.injEq] at hr
       obtain ⟨rfl, rfl, _⟩ := hr
       exact ⟨_, _, z, hat, hv, hz1, hz2, hz3, rfl⟩)
  · rename_i r hr
    subst h
    exfalso
    unfold saJumpE at hr
    simp only [bind, Except.bind, pure, Except.pure, throw, throwThe, MonadExceptOf.throw] at hr
    repeat' (split at hr <;> try (simp at hr; done))
    all_goals
      (simp only [Except.error.injEq] at hr; subst hr
       first | exact useFin_not_ok ‹_› | exact useAcos_not_ok ‹_›)

set_option maxHeartbeats 2000000 in
/-- The model reports a NaN coordinate only where numpy itself returned NaN: at `log1p` or at
    one of the four `arccos` calls (the one for γ exists only away from the poles). -/
theorem saJump_nan {k : Consts} {c : SACfg} {p t u1 u2 : Rat} {o : SAOracle} {site : String} {dev : Rat}
    (h : saJump k c p t u1 u2 o = .nan site dev) :
    o.log1p.val = .nan ∨ o.acosW.val = .nan ∨ o.acosMz.val = .nan ∨
      (∃ s, o.acosG = some s ∧ s.val = .nan) ∨ o.acosZ.val = .nan := by
  unfold saJump at h
  split at h
  · rename_i r hr
    subst h
    exfalso
    unfold saJumpE at hr
    simp only [bind, Except.bind, pure, Except.pure, throw, throwThe, MonadExceptOf.throw] at hr
    repeat' (split at hr <;> try (simp at hr; done))
  · rename_i r hr
    subst h
    unfold saJumpE at hr
    simp only [bind, Except.bind, pure, Except.pure, throw, throwThe, MonadExceptOf.throw] at hr
    repeat' (split at hr <;> try (simp at hr; done))
    all_goals
      first
      | (exfalso; simp only [Except.error.injEq] at hr; subst hr; exact useFin_not_nan ‹_›)
      | (simp only [Except.error.injEq] at hr; subst hr
         have := useAcos_nan ‹_›
         simp_all)
      | simp_all

/-! ### long rejection streaks: the loops never give up while fuel and draws last -/

theorem firstIn_streak {ok : Rat → Bool} {v : Rat} {rest : List Rat} (hv : ok v = true) :
    ∀ (pre : List Rat) (fuel : Nat), (∀ d ∈ pre, ok d = false) → pre.length < fuel →
      firstIn ok fuel (pre ++ v :: rest) = some (v, rest)
  | [], 0, _, h => by simp at h
  | [], f + 1, _, _ => by simp [firstIn, hv]
  | d :: pre, 0, _, h => by simp at h
  | d :: pre, f + 1, hp, h => by
    have hd : ok d = false := hp d (by simp)
    have ih := firstIn_streak (rest := rest) hv pre f (fun e he => hp e (List.mem_cons_of_mem _ he))
      (by simpa using h)
    simp [firstIn, hd, ih]

theorem firstIn_all_rejected {ok : Rat → Bool} :
    ∀ (ds : List Rat) (fuel : Nat), (∀ d ∈ ds, ok d = false) → firstIn ok fuel ds = none
  | _, 0, _ => by simp [firstIn]
  | [], _ + 1, _ => by simp [firstIn]
  | d :: ds, f + 1, hp => by
    have hd : ok d = false := hp d (by simp)
    have ih := firstIn_all_rejected ds f (fun e he => hp e (List.mem_cons_of_mem _ he))
    simp [firstIn, hd, ih]

theorem firstIn_fuel_spent {ok : Rat → Bool} :
    ∀ (pre : List Rat) (fuel : Nat) (rest : List Rat), (∀ d ∈ pre, ok d = false) →
      fuel ≤ pre.length → firstIn ok fuel (pre ++ rest) = none
  | _, 0, _, _, _ => by simp [firstIn]
  | [], _ + 1, _, _, h => by simp at h
  | d :: pre, f + 1, rest, hp, h => by
    have hd : ok d = false := hp d (by simp)
    have ih := firstIn_fuel_spent pre f rest (fun e he => hp e (List.mem_cons_of_mem _ he))
      (by simpa using h)
    simp [firstIn, hd, ih]

theorem bdFirst_streak {b : DBox} {x0 : Int} {d : Rat} {rest : List Rat}
    (hd : b.accepts x0 d = true) :
    ∀ (pre : List Rat) (fuel : Nat), (∀ e ∈ pre, b.accepts x0 e = false) → pre.length < fuel →
      bdFirst b x0 fuel (pre ++ d :: rest) = some (x0 + dstep b.succ d, rest)
  | [], 0, _, h => by simp at h
  | [], f + 1, _, _ => by simp [bdFirst, hd]
  | e :: pre, 0, _, h => by simp at h
  | e :: pre, f + 1, hp, h => by
    have he : b.accepts x0 e = false := hp e (by simp)
    have ih := bdFirst_streak (rest := rest) hd pre f (fun e' he' => hp e' (List.mem_cons_of_mem _ he'))
      (by simpa using h)
    simp [bdFirst, he, ih]

theorem beFirst_streak {boxes : List Box} {c : List Rat} {rest : List (List Rat)}
    (hc : allInTol boxes c = true) :
    ∀ (pre : List (List Rat)) (fuel : Nat), (∀ e ∈ pre, allInTol boxes e = false) →
      pre.length < fuel → beFirst boxes fuel (pre ++ c :: rest) = some (c, pre.length + 1)
  | [], 0, _, h => by simp at h
  | [], f + 1, _, _ => by simp [beFirst, hc]
  | e :: pre, 0, _, h => by simp at h
  | e :: pre, f + 1, hp, h => by
    have he : allInTol boxes e = false := hp e (by simp)
    have ih := beFirst_streak (rest := rest) hc pre f (fun e' he' => hp e' (List.mem_cons_of_mem _ he'))
      (by simpa using h)
    simp [beFirst, he, ih]

/-- `bnLoop` on a stream that holds, for each parameter in turn, a streak of rejected values and
    then an accepted one. -/
theorem bnLoop_streaks {fuel : Nat} {rest : List Rat} :
    ∀ {boxes : List Box} {ps : List (List Rat × Rat)},
      List.Forall₂ (fun (b : Box) (p : List Rat × Rat) =>
        (∀ d ∈ p.1, b.contains d = false) ∧ b.contains p.2 = true ∧ p.1.length < fuel) boxes ps →
      bnLoop fuel boxes (streakStream ps rest) = some (ps.map Prod.snd, rest)
  | [], [], _ => by simp [bnLoop, streakStream]
  | b :: bs, (pre, v) :: ps, h => by
    obtain ⟨⟨h1, h2, h3⟩, ht⟩ := List.forall₂_cons.mp h
    simp only [bnLoop, streakStream, firstIn_streak h2 pre fuel h1 h3, bnLoop_streaks ht,
      List.map_cons]

theorem ndLoop_streaks {fuel : Nat} {rest : List Rat} :
    ∀ {succ : List Bool} {x : List Rat} {ps : List (List Rat × Rat)},
      x.length = succ.length →
      List.Forall₂ (fun (s : Bool) (p : List Rat × Rat) =>
        (∀ d ∈ p.1, ndOk s d = false) ∧ ndOk s p.2 = true ∧ p.1.length < fuel) succ ps →
      ndLoop fuel succ x (streakStream ps rest) =
        some (List.zipWith (fun (sx : Bool × Rat) (p : List Rat × Rat) => truncZ sx.2 + dstep sx.1 p.2)
          (succ.zip x) ps, rest)
  | [], x, [], _, _ => by simp [ndLoop, streakStream]
  | s :: ss, [], _, hl, _ => by simp at hl
  | s :: ss, x :: xs, (pre, v) :: ps, hl, h => by
    obtain ⟨⟨h1, h2, h3⟩, ht⟩ := List.forall₂_cons.mp h
    have hl' : xs.length = ss.length := by simpa using hl
    simp only [ndLoop, streakStream, firstIn_streak h2 pre fuel h1 h3, ndLoop_streaks hl' ht,
      List.zip_cons_cons, List.zipWith_cons_cons]

theorem bdLoop_streaks {fuel : Nat} {rest : List Rat} :
    ∀ {boxes : List DBox} {x : List Rat} {ps : List (List Rat × Rat)},
      x.length = boxes.length →
      List.Forall₂ (fun (bx : DBox × Rat) (p : List Rat × Rat) =>
        (∀ d ∈ p.1, bx.1.accepts (truncZ bx.2) d = false) ∧ bx.1.accepts (truncZ bx.2) p.2 = true ∧
          p.1.length < fuel) (boxes.zip x) ps →
      bdLoop fuel boxes x (streakStream ps rest) =
        some (List.zipWith (fun (bx : DBox × Rat) (p : List Rat × Rat) =>
          truncZ bx.2 + dstep bx.1.succ p.2) (boxes.zip x) ps, rest)
  | [], x, ps, _, h => by
    simp only [List.zip_nil_left] at h
    cases h
    simp [bdLoop, streakStream]
  | b :: bs, [], _, hl, _ => by simp at hl
  | b :: bs, x :: xs, ps, hl, h => by
    rw [List.zip_cons_cons] at h
    cases h with
    | cons hh ht =>
      rename_i p ps'
      obtain ⟨pre, v⟩ := p
      obtain ⟨h1, h2, h3⟩ := hh
      have hl' : xs.length = bs.length := by simpa using hl
      simp only [bdLoop, streakStream, bdFirst_streak h2 pre fuel h1 h3, bdLoop_streaks hl' ht,
        List.zip_cons_cons, List.zipWith_cons_cons]

theorem angLoop_streaks {c : AngCfg} {fuel : Nat} {rest : List Rat} :
    ∀ {x : List Rat} {ps : List (List Rat × Rat)},
      List.Forall₂ (fun (_ : Rat) (p : List Rat × Rat) =>
        (∀ d ∈ p.1, ¬ rabs d ≤ c.h) ∧ rabs p.2 ≤ c.h ∧ p.1.length < fuel) x ps →
      angLoop c fuel x (streakStream ps rest) =
        some (List.zipWith (fun (xi : Rat) (p : List Rat × Rat) => wrap c (p.2 + xi * c.invf) * c.f) x ps,
          rest)
  | [], [], _ => by simp [angLoop, streakStream]
  | x :: xs, (pre, v) :: ps, h => by
    obtain ⟨⟨h1, h2, h3⟩, ht⟩ := List.forall₂_cons.mp h
    have h1' : ∀ d ∈ pre, (fun v => decide (rabs v ≤ c.h)) d = false := fun d hd => by
      simpa using h1 d hd
    have h2' : (fun v => decide (rabs v ≤ c.h)) v = true := by simpa using h2
    simp only [angLoop, angOne, streakStream, firstIn_streak h2' pre fuel h1' h3, angLoop_streaks ht,
      List.zipWith_cons_cons]

end Epsie.Domain
