/-
  EpsieProofs.MHLemmas — helper lemmas for property C01 (every chain step is an
  exact Metropolis–Hastings move at its temperature).

  The model (`EpsieModel/Chain.lean`) is over exact rationals; the statements
  about probabilities and transcendental values are made over ℝ through the
  canonical cast `ℚ → ℝ`.
-/
import EpsieModel.Chain
import EpsieProofs.ChainInv
import Mathlib.Analysis.SpecialFunctions.Exp
import Mathlib.Analysis.SpecialFunctions.Log.Basic
import Mathlib.Analysis.SpecialFunctions.Pow.Real
import Mathlib.MeasureTheory.Measure.Lebesgue.Basic
import Mathlib.Algebra.BigOperators.Ring.Finset
import Mathlib.Algebra.Order.BigOperators.Ring.Finset

set_option linter.unusedSectionVars false

namespace Epsie
namespace MH
open Chain

/-! ### Real value of a recorded acceptance probability; the code's test -/

/-- The real number a symbolic acceptance probability stands for. -/
noncomputable def arReal : AR → ℝ
  | .zero => 0
  | .one => 1
  | .exp l => Real.exp (l : ℝ)

/-- The test the *code* performs on the uniform `u` itself:
    forced reject / `logar > 0` / `u <= numpy.exp(logar)`. -/
def acceptedU : Decision → ℝ → Prop
  | .forced, _ => False
  | .sure, _ => True
  | .draw l, u => u ≤ Real.exp (l : ℝ)

theorem logspace_test {u l : ℝ} (hu : 0 < u) : Real.log u ≤ l ↔ u ≤ Real.exp l := by
  constructor
  · intro h
    have := Real.exp_le_exp.mpr h
    rwa [Real.exp_log hu] at this
  · intro h
    have := Real.log_le_log hu h
    rwa [Real.log_exp] at this

/-- The model's decision in log space agrees with the code's test on `u` whenever the
    rational `logu` handed to the model lies on the same side of every rational as `log u`. -/
theorem accepted_iff_acceptedU (d : Decision) (logu : Rat) {u : ℝ} (hu : 0 < u)
    (hside : ∀ l : Rat, logu ≤ l ↔ Real.log u ≤ (l : ℝ)) :
    d.accepted logu = true ↔ acceptedU d u := by
  cases d with
  | forced => simp [Decision.accepted, acceptedU]
  | sure => simp [Decision.accepted, acceptedU]
  | draw l =>
    simp only [Decision.accepted, acceptedU, decide_eq_true_eq]
    rw [hside l, logspace_test hu]

/-! ### Lebesgue volume of the acceptance event -/

theorem volume_Ico_inter_le {a : ℝ} (h0 : 0 ≤ a) (h1 : a ≤ 1) :
    MeasureTheory.volume {u : ℝ | u ∈ Set.Ico (0:ℝ) 1 ∧ u ≤ a} = ENNReal.ofReal a := by
  rcases eq_or_lt_of_le h1 with rfl | hlt
  · have : {u : ℝ | u ∈ Set.Ico (0:ℝ) 1 ∧ u ≤ 1} = Set.Ico 0 1 := by
      ext u
      constructor
      · exact fun h => h.1
      · exact fun h => ⟨h, h.2.le⟩
    rw [this, Real.volume_Ico]; simp
  · have : {u : ℝ | u ∈ Set.Ico (0:ℝ) 1 ∧ u ≤ a} = Set.Icc 0 a := by
      ext u
      constructor
      · rintro ⟨⟨h0, _⟩, h⟩; exact ⟨h0, h⟩
      · rintro ⟨h0, h⟩; exact ⟨⟨h0, lt_of_le_of_lt h hlt⟩, h⟩
    rw [this, Real.volume_Icc]; simp

theorem volume_Ico_inter_gt {a : ℝ} (h0 : 0 ≤ a) (h1 : a ≤ 1) :
    MeasureTheory.volume {u : ℝ | u ∈ Set.Ico (0:ℝ) 1 ∧ ¬ u ≤ a} = ENNReal.ofReal (1 - a) := by
  rcases eq_or_lt_of_le h1 with rfl | hlt
  · have : {u : ℝ | u ∈ Set.Ico (0:ℝ) 1 ∧ ¬ u ≤ 1} = ∅ := by
      ext u
      constructor
      · rintro ⟨⟨_, h⟩, h'⟩; exact (h' h.le).elim
      · intro h; exact h.elim
    rw [this]; simp
  · have : {u : ℝ | u ∈ Set.Ico (0:ℝ) 1 ∧ ¬ u ≤ a} = Set.Ioo a 1 := by
      ext u
      constructor
      · rintro ⟨⟨_, h⟩, h'⟩; exact ⟨not_le.mp h', h⟩
      · rintro ⟨h, h'⟩; exact ⟨⟨le_trans h0 h.le, h'⟩, not_le.mpr h⟩
    rw [this, Real.volume_Ioo]

theorem arReal_nonneg (a : AR) : 0 ≤ arReal a := by
  cases a <;> simp [arReal, Real.exp_nonneg]

theorem arReal_le_one {a : AR} (h : a.wf) : arReal a ≤ 1 := by
  cases a with
  | zero => simp [arReal]
  | one => simp [arReal]
  | exp l =>
    simp only [arReal]
    have hl : (l : ℝ) ≤ 0 := by
      have : l ≤ 0 := h
      exact_mod_cast this
    calc Real.exp (l : ℝ) ≤ Real.exp 0 := Real.exp_le_exp.mpr hl
      _ = 1 := Real.exp_zero

/-- A decision whose `draw` carries a non-positive `logar` (every decision the model makes). -/
def Decision.wf : Decision → Prop
  | .draw l => l ≤ 0
  | _ => True

theorem decision_wf (beta : Rat) (cur : St) (e : Eval) (h : Rat) :
    Decision.wf (decision beta cur e h) := by
  unfold decision
  cases e.logp with
  | none => trivial
  | some lp =>
    simp only
    split
    · trivial
    · rename_i hl; exact Rat.not_lt.mp hl

theorem volume_accepted (d : Decision) (hd : Decision.wf d) :
    MeasureTheory.volume {u : ℝ | u ∈ Set.Ico (0:ℝ) 1 ∧ acceptedU d u} = ENNReal.ofReal (arReal d.ar) := by
  cases d with
  | forced => simp [acceptedU, Decision.ar, arReal]
  | sure =>
    have : {u : ℝ | u ∈ Set.Ico (0:ℝ) 1 ∧ acceptedU Decision.sure u} = Set.Ico 0 1 := by
      ext u; simp [acceptedU]
    rw [this, Real.volume_Ico]; simp [Decision.ar, arReal]
  | draw l =>
    have hl : (l : ℝ) ≤ 0 := by
      have : l ≤ 0 := hd
      exact_mod_cast this
    have h1 : Real.exp (l : ℝ) ≤ 1 := by
      calc Real.exp (l : ℝ) ≤ Real.exp 0 := Real.exp_le_exp.mpr hl
        _ = 1 := Real.exp_zero
    exact volume_Ico_inter_le (Real.exp_nonneg _) h1

/-! ### The acceptance ratio as a closed formula -/

theorem cast_logAR (beta : Rat) (cur : St) (logl logp h : Rat) :
    ((logAR beta cur logl logp h : Rat) : ℝ) =
      (logp : ℝ) + (logl : ℝ) * (beta : ℝ) - (cur.logp : ℝ) - (cur.logl : ℝ) * (beta : ℝ) + (h : ℝ) := by
  unfold logAR; push_cast; ring

/-- `exp (lp' + ll'·β − lp − ll·β + (lqr − lqf)) = p'·L'^β·qr / (p·L^β·qf)`. -/
theorem exp_logar_formula {p L p' L' qr qf b : ℝ}
    (hp : 0 < p) (hL : 0 < L) (hp' : 0 < p') (hL' : 0 < L') (hqr : 0 < qr) (hqf : 0 < qf) :
    Real.exp (Real.log p' + Real.log L' * b - Real.log p - Real.log L * b
        + (Real.log qr - Real.log qf)) = p' * L' ^ b * qr / (p * L ^ b * qf) := by
  have e1 : Real.log p' + Real.log L' * b - Real.log p - Real.log L * b + (Real.log qr - Real.log qf)
      = (Real.log p' + b * Real.log L' + Real.log qr) - (Real.log p + b * Real.log L + Real.log qf) := by
    ring
  rw [e1, Real.exp_sub, Real.exp_add, Real.exp_add, Real.exp_add, Real.exp_add,
    Real.exp_log hp', Real.exp_log hp, Real.exp_log hqr, Real.exp_log hqf,
    Real.rpow_def_of_pos hL', Real.rpow_def_of_pos hL]
  congr 3 <;> ring_nf

/-! ### The joint Hastings term -/

/-- Log-ratio of the joint law when the constituents act on disjoint parameter blocks and
    jump independently: a constituent that is due contributes `log q_i(x_i|x'_i) − log q_i(x'_i|x_i)`,
    one that is not due copies its block (a point mass on both sides: contributes 0). -/
def jointLogRatio : List PropSt → List Rat → List Rat → Rat
  | p :: ps, r :: rs, f :: fs => (if p.callJump then r - f else 0) + jointLogRatio ps rs fs
  | _, _, _ => 0

/-- The reported densities are consistent with the `symmetric` flags: a constituent that
    declares itself symmetric has `q(x|x') = q(x'|x)`; one value per constituent. -/
def SymOK : List PropSt → List Rat → List Rat → Prop
  | p :: ps, r :: rs, f :: fs => (p.cfg.symmetric = true → r = f) ∧ SymOK ps rs fs
  | [], [], [] => True
  | _, _, _ => False

theorem sumContrib_sub : ∀ (ps : List PropSt) (rev fwd : List Rat), SymOK ps rev fwd →
    sumContrib ps rev - sumContrib ps fwd = jointLogRatio ps rev fwd
  | [], [], [], _ => by simp [sumContrib, jointLogRatio]
  | p :: ps, r :: rs, f :: fs, h => by
    obtain ⟨h1, h2⟩ := h
    have ih := sumContrib_sub ps rs fs h2
    simp only [sumContrib, jointLogRatio, contributes]
    rw [← ih]
    by_cases hs : p.cfg.symmetric = true
    · have := h1 hs
      subst this
      by_cases hj : p.callJump = true <;> simp [hs, hj]
    · have hs' : p.cfg.symmetric = false := by simpa using hs
      by_cases hj : p.callJump = true
      · simp [hs', hj]; ring
      · have hj' : p.callJump = false := by simpa using hj
        simp [hs', hj']
  | [], [], _ :: _, h => by simp [SymOK] at h
  | [], _ :: _, _, h => by simp [SymOK] at h
  | _ :: _, [], _, h => by simp [SymOK] at h
  | _ :: _, _ :: _, [], h => by simp [SymOK] at h

theorem jointLogRatio_allSym : ∀ (ps : List PropSt) (rev fwd : List Rat), SymOK ps rev fwd →
    jointSymmetric ps = true → jointLogRatio ps rev fwd = 0
  | [], [], [], _, _ => by simp [jointLogRatio]
  | p :: ps, r :: rs, f :: fs, h, hall => by
    obtain ⟨h1, h2⟩ := h
    simp only [jointSymmetric, List.all_cons, Bool.and_eq_true] at hall
    have ih := jointLogRatio_allSym ps rs fs h2 (by simpa [jointSymmetric] using hall.2)
    simp only [jointLogRatio, ih, h1 hall.1]
    split <;> ring
  | [], [], _ :: _, h, _ => by simp [SymOK] at h
  | [], _ :: _, _, h, _ => by simp [SymOK] at h
  | _ :: _, [], _, h, _ => by simp [SymOK] at h
  | _ :: _, _ :: _, [], h, _ => by simp [SymOK] at h

theorem hastings_eq_jointLogRatio (ps : List PropSt) (rev fwd : List Rat) (h : SymOK ps rev fwd) :
    hastings ps rev fwd = jointLogRatio ps rev fwd := by
  unfold hastings
  split
  · rename_i hs; exact (jointLogRatio_allSym ps rev fwd h hs).symm
  · exact sumContrib_sub ps rev fwd h

/-- A constituent together with what it reports for one proposed move: the true one-block
    densities `qr = q_i(x_i | x'_i)`, `qf = q_i(x'_i | x_i)` and the reported logs. -/
structure Block where
  st : PropSt
  qr : ℝ
  qf : ℝ
  lr : Rat
  lf : Rat

/-- The reported values are the logs of positive densities, and a constituent that declares
    itself symmetric is symmetric. -/
def Block.ok (b : Block) : Prop :=
  0 < b.qr ∧ 0 < b.qf ∧ (b.lr : ℝ) = Real.log b.qr ∧ (b.lf : ℝ) = Real.log b.qf ∧
    (b.st.cfg.symmetric = true → b.qr = b.qf)

/-- The joint (product) law of the move: the blocks of the constituents that are due are
    drawn independently; the others are copied (probability one). -/
noncomputable def jointDensity (q : Block → ℝ) : List Block → ℝ
  | [] => 1
  | b :: bs => (if b.st.callJump then q b else 1) * jointDensity q bs

theorem symOK_of_blocks : ∀ bs : List Block, (∀ b ∈ bs, b.ok) →
    SymOK (bs.map (·.st)) (bs.map (·.lr)) (bs.map (·.lf))
  | [], _ => by simp [SymOK]
  | b :: bs, h => by
    simp only [List.map_cons, SymOK]
    refine ⟨?_, symOK_of_blocks bs (fun c hc => h c (List.mem_cons_of_mem _ hc))⟩
    intro hs
    obtain ⟨_, _, h3, h4, h5⟩ := h b (List.mem_cons_self ..)
    have : (b.lr : ℝ) = (b.lf : ℝ) := by rw [h3, h4, h5 hs]
    exact_mod_cast this

theorem jointDensity_pos (q : Block → ℝ) : ∀ bs : List Block, (∀ b ∈ bs, 0 < q b) →
    0 < jointDensity q bs
  | [], _ => by simp [jointDensity]
  | b :: bs, h => by
    have ih := jointDensity_pos q bs (fun c hc => h c (List.mem_cons_of_mem _ hc))
    have hb := h b (List.mem_cons_self ..)
    simp only [jointDensity]
    split
    · exact mul_pos hb ih
    · simpa using ih

theorem cast_jointLogRatio : ∀ bs : List Block, (∀ b ∈ bs, b.ok) →
    ((jointLogRatio (bs.map (·.st)) (bs.map (·.lr)) (bs.map (·.lf)) : Rat) : ℝ) =
      Real.log (jointDensity (·.qr) bs) - Real.log (jointDensity (·.qf) bs)
  | [], _ => by simp [jointLogRatio, jointDensity]
  | b :: bs, h => by
    have hbs : ∀ c ∈ bs, c.ok := fun c hc => h c (List.mem_cons_of_mem _ hc)
    have ih := cast_jointLogRatio bs hbs
    obtain ⟨h1, h2, h3, h4, _⟩ := h b (List.mem_cons_self ..)
    have pa := jointDensity_pos (·.qr) bs (fun c hc => (hbs c hc).1)
    have pb := jointDensity_pos (·.qf) bs (fun c hc => (hbs c hc).2.1)
    simp only [List.map_cons, jointLogRatio, jointDensity]
    by_cases hj : b.st.callJump = true
    · simp only [hj, if_true]
      rw [Real.log_mul h1.ne' pa.ne', Real.log_mul h2.ne' pb.ne']
      push_cast
      rw [ih, h3, h4]; ring
    · simp only [hj]
      simp [ih]

/-! ### The joint jump acts blockwise -/

theorem applyJump_length : ∀ (ps : List Nat) (vs : List Val) (pos : List Val),
    (applyJump pos ps vs).length = pos.length
  | [], _, _ => by simp [applyJump]
  | _ :: _, [], _ => by simp [applyJump]
  | p :: ps, v :: vs, pos => by
    simp only [applyJump]
    rw [applyJump_length ps vs]; simp

theorem applyJump_of_not_mem : ∀ (ps : List Nat) (vs : List Val) (pos : List Val) (j : Nat),
    j ∉ ps → (applyJump pos ps vs)[j]? = pos[j]?
  | [], _, _, _, _ => by simp [applyJump]
  | _ :: _, [], _, _, _ => by simp [applyJump]
  | p :: ps, v :: vs, pos, j, h => by
    simp only [applyJump]
    have hp : p ≠ j := fun e => h (by simp [e])
    rw [applyJump_of_not_mem ps vs _ j (fun hm => h (List.mem_cons_of_mem _ hm)),
      List.getElem?_set_ne hp]

theorem applyJump_of_mem : ∀ (ps : List Nat) (vs : List Val) (pos : List Val),
    ps.Nodup → vs.length = ps.length → (∀ p ∈ ps, p < pos.length) →
    ∀ k (hk : k < ps.length), (applyJump pos ps vs)[ps[k]]? = vs[k]?
  | [], _, _, _, _, _, k, hk => by simp at hk
  | _ :: _, [], _, _, hl, _, _, _ => by simp at hl
  | p :: ps, v :: vs, pos, hnd, hl, hr, k, hk => by
    simp only [applyJump]
    have hnd' := List.nodup_cons.mp hnd
    cases k with
    | zero =>
      simp only [List.getElem_cons_zero, List.getElem?_cons_zero]
      rw [applyJump_of_not_mem ps vs _ p hnd'.1,
        List.getElem?_set_self (hr p (List.mem_cons_self ..))]
    | succ k =>
      simp only [List.getElem_cons_succ, List.getElem?_cons_succ]
      exact applyJump_of_mem ps vs _ hnd'.2 (by simpa using hl)
        (fun q hq => by rw [List.length_set]; exact hr q (List.mem_cons_of_mem _ hq)) k
        (by simpa using hk)

theorem jointJump_length : ∀ (zs : List (PropSt × List Val)) (pos : List Val),
    (jointJump pos (zs.map (·.1)) (zs.map (·.2))).length = pos.length
  | [], _ => by simp [jointJump]
  | z :: zs, pos => by
    simp only [List.map_cons, jointJump]
    rw [jointJump_length zs]
    split
    · exact applyJump_length _ _ _
    · rfl

/-- A parameter that belongs to no constituent that is due keeps its value. -/
theorem jointJump_untouched : ∀ (zs : List (PropSt × List Val)) (pos : List Val) (j : Nat),
    (∀ z ∈ zs, z.1.callJump = true → j ∉ z.1.cfg.params) →
    (jointJump pos (zs.map (·.1)) (zs.map (·.2)))[j]? = pos[j]?
  | [], _, _, _ => by simp [jointJump]
  | z :: zs, pos, j, h => by
    simp only [List.map_cons, jointJump]
    rw [jointJump_untouched zs _ j (fun w hw => h w (List.mem_cons_of_mem _ hw))]
    split
    · rename_i hd
      exact applyJump_of_not_mem _ _ _ j (h z (List.mem_cons_self ..) hd)
    · rfl

/-- Well-formed joint proposal on a position vector: every constituent's parameter list is
    duplicate-free and in range, its jump returns one value per parameter, and the blocks of
    different constituents are disjoint (`JointProposal.__init__` rejects repeated parameters). -/
structure BlocksOK (n : Nat) (zs : List (PropSt × List Val)) : Prop where
  nodup : ∀ z ∈ zs, z.1.cfg.params.Nodup
  range : ∀ z ∈ zs, ∀ p ∈ z.1.cfg.params, p < n
  len : ∀ z ∈ zs, z.2.length = z.1.cfg.params.length
  disj : zs.Pairwise (fun a b => ∀ p ∈ a.1.cfg.params, p ∉ b.1.cfg.params)

theorem BlocksOK.tail {n : Nat} {z : PropSt × List Val} {zs : List (PropSt × List Val)}
    (h : BlocksOK n (z :: zs)) : BlocksOK n zs :=
  ⟨fun w hw => h.nodup w (List.mem_cons_of_mem _ hw), fun w hw => h.range w (List.mem_cons_of_mem _ hw),
    fun w hw => h.len w (List.mem_cons_of_mem _ hw), (List.pairwise_cons.mp h.disj).2⟩

/-- The block of a constituent that is due is exactly what its own `_jump` returned. -/
theorem jointJump_block : ∀ (zs : List (PropSt × List Val)) (pos : List Val),
    BlocksOK pos.length zs → ∀ z ∈ zs, z.1.callJump = true →
    ∀ k (hk : k < z.1.cfg.params.length),
      (jointJump pos (zs.map (·.1)) (zs.map (·.2)))[z.1.cfg.params[k]]? = z.2[k]?
  | [], _, _, z, hz, _, _, _ => by simp at hz
  | z0 :: zs, pos, hok, z, hz, hd, k, hk => by
    simp only [List.map_cons, jointJump]
    rcases List.mem_cons.mp hz with rfl | hz'
    · simp only [hd, if_true]
      rw [jointJump_untouched zs _ _ (fun w hw _ =>
        (List.pairwise_cons.mp hok.disj).1 w hw _ (List.getElem_mem hk))]
      exact applyJump_of_mem _ _ _ (hok.nodup _ (List.mem_cons_self ..))
        (hok.len _ (List.mem_cons_self ..)) (hok.range _ (List.mem_cons_self ..)) k hk
    · have hlen : (if z0.1.callJump = true then applyJump pos z0.1.cfg.params z0.2 else pos).length
          = pos.length := by
        split
        · exact applyJump_length _ _ _
        · rfl
      exact jointJump_block zs _ (by rw [hlen]; exact hok.tail) z hz' hd k hk

/-! ### Detailed balance and stationarity on a finite state space -/

section Kernel
variable {S : Type*} [Fintype S] [DecidableEq S]

/-- The Metropolis–Hastings acceptance probability for weights `f` and proposal kernel `q`.
    Totalisation: for `f x * q x y = 0` Lean's `_ / 0 = 0` makes it `0`. Neither case is
    reachable with positive probability: `q x y = 0` means `y` is never proposed from `x` (the
    kernel multiplies by `q x y`), and `f x = 0` means the chain is at a point of zero prior,
    which the real code refuses as a start (`Chain.setStart = none`) and never accepts. -/
noncomputable def acceptProb (f : S → ℝ) (q : S → S → ℝ) (x y : S) : ℝ :=
  min 1 (f y * q y x / (f x * q x y))

/-- One step: propose `y` with probability `q x y`, accept with `acceptProb`, else stay. -/
noncomputable def mhKernel (f : S → ℝ) (q : S → S → ℝ) (x y : S) : ℝ :=
  q x y * acceptProb f q x y + (if x = y then 1 - ∑ z, q x z * acceptProb f q x z else 0)

theorem acceptProb_nonneg {f : S → ℝ} {q : S → S → ℝ} (hf : ∀ x, 0 ≤ f x) (hq : ∀ x y, 0 ≤ q x y)
    (x y : S) : 0 ≤ acceptProb f q x y :=
  le_min zero_le_one (div_nonneg (mul_nonneg (hf y) (hq y x)) (mul_nonneg (hf x) (hq x y)))

theorem acceptProb_le_one (f : S → ℝ) (q : S → S → ℝ) (x y : S) : acceptProb f q x y ≤ 1 :=
  min_le_left _ _

theorem flux_symm {f : S → ℝ} {q : S → S → ℝ} (hf : ∀ x, 0 ≤ f x) (hq : ∀ x y, 0 ≤ q x y)
    (x y : S) :
    f x * (q x y * acceptProb f q x y) = f y * (q y x * acceptProb f q y x) := by
  unfold acceptProb
  set A := f x * q x y with hA
  set B := f y * q y x with hB
  have hA0 : 0 ≤ A := mul_nonneg (hf x) (hq x y)
  have hB0 : 0 ≤ B := mul_nonneg (hf y) (hq y x)
  have key : A * min 1 (B / A) = B * min 1 (A / B) := by
    rcases eq_or_lt_of_le hA0 with hA' | hA'
    · rw [← hA']; simp
    rcases eq_or_lt_of_le hB0 with hB' | hB'
    · rw [← hB']; simp
    rcases le_total A B with hab | hab
    · have h1 : 1 ≤ B / A := by rw [le_div_iff₀ hA']; simpa using hab
      have h2 : A / B ≤ 1 := by rw [div_le_iff₀ hB']; simpa using hab
      rw [min_eq_left h1, min_eq_right h2]; field_simp
    · have h1 : B / A ≤ 1 := by rw [div_le_iff₀ hA']; simpa using hab
      have h2 : 1 ≤ A / B := by rw [le_div_iff₀ hB']; simpa using hab
      rw [min_eq_right h1, min_eq_left h2]; field_simp
  calc f x * (q x y * min 1 (B / A)) = A * min 1 (B / A) := by rw [hA]; ring
    _ = B * min 1 (A / B) := key
    _ = f y * (q y x * min 1 (A / B)) := by rw [hB]; ring

theorem mhKernel_detailed_balance {f : S → ℝ} {q : S → S → ℝ} (hf : ∀ x, 0 ≤ f x)
    (hq : ∀ x y, 0 ≤ q x y) (x y : S) :
    f x * mhKernel f q x y = f y * mhKernel f q y x := by
  unfold mhKernel
  by_cases hxy : x = y
  · subst hxy; rfl
  · have hyx : ¬ y = x := fun h => hxy h.symm
    simp only [hxy, hyx, if_false, add_zero]
    exact flux_symm hf hq x y

theorem mhKernel_row_sum (f : S → ℝ) (q : S → S → ℝ) (x : S) : ∑ y, mhKernel f q x y = 1 := by
  unfold mhKernel
  rw [Finset.sum_add_distrib, Finset.sum_ite_eq Finset.univ x]
  simp

theorem mhKernel_nonneg {f : S → ℝ} {q : S → S → ℝ} (hf : ∀ x, 0 ≤ f x) (hq : ∀ x y, 0 ≤ q x y)
    (hrow : ∀ x, ∑ y, q x y = 1) (x y : S) : 0 ≤ mhKernel f q x y := by
  unfold mhKernel
  have h1 : 0 ≤ q x y * acceptProb f q x y := mul_nonneg (hq x y) (acceptProb_nonneg hf hq x y)
  have h2 : ∑ z, q x z * acceptProb f q x z ≤ 1 := by
    calc ∑ z, q x z * acceptProb f q x z ≤ ∑ z, q x z := by
          apply Finset.sum_le_sum
          intro z _
          exact mul_le_of_le_one_right (hq x z) (acceptProb_le_one f q x z)
      _ = 1 := hrow x
  split
  · linarith
  · linarith

theorem mhKernel_stationary {f : S → ℝ} {q : S → S → ℝ} (hf : ∀ x, 0 ≤ f x)
    (hq : ∀ x y, 0 ≤ q x y) (y : S) :
    ∑ x, f x * mhKernel f q x y = f y := by
  calc ∑ x, f x * mhKernel f q x y = ∑ x, f y * mhKernel f q y x :=
        Finset.sum_congr rfl (fun x _ => mhKernel_detailed_balance hf hq x y)
    _ = f y * ∑ x, mhKernel f q y x := by rw [Finset.mul_sum]
    _ = f y := by rw [mhKernel_row_sum]; ring

end Kernel

end MH
end Epsie
