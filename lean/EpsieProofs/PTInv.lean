/-
  Lifting the chain invariants through `ParallelTemperedChain` and the samplers:
  a temperature swap rewrites last records with whole states of other levels.
-/
import EpsieModel.Sampler
import EpsieProofs.ChainInv
namespace Epsie
open Chain

/-- Every level is structurally sound and faithful to the pure model `m`. -/
def LevelsOK (m : List Val → Eval) (ls : List Chain) : Prop :=
  ∀ l ∈ ls, Chain.Inv l ∧ Chain.Faithful m l

/-- The oracle evaluation of a step input is what `m` returns at the proposed point. -/
def StepOk (m : List Val → Eval) (l : Chain) (i : Chain.StepIn) : Prop :=
  ∀ cur, l.current = some cur → i.eval = m (jointJump cur.pos l.props i.jumps)

def StepsOk (m : List Val → Eval) : List Chain → List Chain.StepIn → Prop
  | l :: ls, i :: is => StepOk m l i ∧ StepsOk m ls is
  | _, _ => True

theorem levelsOK_stepLevels {m : List Val → Eval} {ls ls' : List Chain} {is : List Chain.StepIn}
    (h : LevelsOK m ls) (hok : StepsOk m ls is) (hs : PTChain.stepLevels ls is = some ls') :
    LevelsOK m ls' := by
  induction ls generalizing is ls' with
  | nil =>
    simp [PTChain.stepLevels] at hs; subst hs
    intro l hl; simp at hl
  | cons l ls ih =>
    cases is with
    | nil => simp [PTChain.stepLevels] at hs
    | cons i is =>
      simp only [PTChain.stepLevels, bind, Option.bind] at hs
      cases h1 : l.step i with
      | none => simp [h1] at hs
      | some l' =>
        simp only [h1] at hs
        cases h2 : PTChain.stepLevels ls is with
        | none => simp [h2] at hs
        | some ls'' =>
          simp [h2] at hs
          subst hs
          have hl := h l (by simp)
          have htail : LevelsOK m ls := fun x hx => h x (by simp [hx])
          intro x hx
          simp at hx
          rcases hx with rfl | hx
          · refine ⟨inv_step hl.1 h1, ?_⟩
            have := faithful_apply hl.1 hl.2 (.step i) hok.1
            simpa [Chain.apply, h1] using this
          · exact ih htail hok.2 h2 x hx

theorem current_mem_faithful {m : List Val → Eval} {ls : List Chain} (h : LevelsOK m ls)
    {k : Nat} {st : St} (hk : (ls.map (·.current)).getD k none = some st) : StFaithful m st := by
  unfold List.getD at hk
  cases hg : (ls.map (·.current))[k]? with
  | none => simp [hg] at hk
  | some o =>
    simp [hg] at hk
    subst hk
    rw [List.getElem?_map] at hg
    cases hl : ls[k]? with
    | none => simp [hl] at hg
    | some l =>
      simp [hl] at hg
      have hmem : l ∈ ls := List.mem_of_getElem? hl
      exact faithful_current (h l hmem).2 hg

theorem ok_maybeReset {m : List Val → Eval} {y : Chain} (hy : Chain.Inv y ∧ Chain.Faithful m y)
    (b : Bool) : Chain.Inv (PTChain.maybeReset b y) ∧ Chain.Faithful m (PTChain.maybeReset b y) := by
  unfold PTChain.maybeReset
  cases b with
  | false => simpa using hy
  | true =>
    simp only [if_true]
    exact ⟨inv_apply hy.1 .reset, faithful_apply hy.1 hy.2 .reset trivial⟩

theorem ok_maybeRewrite {m : List Val → Eval} {l : Chain} (hl : Chain.Inv l ∧ Chain.Faithful m l)
    (o : Option St) (ho : ∀ st, o = some st → StFaithful m st) :
    Chain.Inv (PTChain.maybeRewrite l o) ∧ Chain.Faithful m (PTChain.maybeRewrite l o) := by
  cases o with
  | none => exact hl
  | some st =>
    exact ⟨inv_rewriteLast hl.1 st, faithful_apply hl.1 hl.2 (.rewrite st) (ho st rfl)⟩

theorem levelsOK_applySwap {m : List Val → Eval} {ls : List Chain} (h : LevelsOK m ls)
    (reset : Bool) (idx : List Nat) : LevelsOK m (PTChain.applySwap reset ls idx) := by
  intro x hx
  unfold PTChain.applySwap at hx
  simp only [List.mem_map] at hx
  obtain ⟨⟨l, t⟩, hmem, rfl⟩ := hx
  have hl : l ∈ ls := (List.of_mem_zip hmem).1
  have hli := h l hl
  exact ok_maybeReset (ok_maybeRewrite hli _ (fun st hst => current_mem_faithful h hst)) _

theorem levelsOK_setBetas {m : List Val → Eval} {c : PTChain} (h : LevelsOK m c.levels)
    (nb : List Rat) : LevelsOK m (c.setBetas nb).levels := by
  intro x hx
  simp only [PTChain.setBetas, List.mem_map] at hx
  obtain ⟨⟨l, b⟩, hmem, rfl⟩ := hx
  have hl : l ∈ c.levels := (List.of_mem_zip hmem).1
  have := h l hl
  exact ⟨⟨this.1.lc_le, this.1.rows⟩, ⟨this.2.rows, this.2.start⟩⟩

theorem levelsOK_afterSweep {m : List Val → Eval} {c : PTChain} (h : LevelsOK m c.levels)
    (row : Swap.Row) (nb : List Rat) : LevelsOK m (c.afterSweep row nb).levels := by
  have h1 : LevelsOK m (PTChain.applySwap c.resetAfterSwap c.levels row.idx) :=
    levelsOK_applySwap h _ _
  unfold PTChain.afterSweep
  simp only
  split
  · exact levelsOK_setBetas (c := { c with levels := _, rows := _ }) h1 _
  · exact h1

theorem levelsOK_swapTemperatures {m : List Val → Eval} {c c' : PTChain}
    (h : LevelsOK m c.levels) {i : PTChain.SweepIn}
    (hs : c.swapTemperatures i = some c') : LevelsOK m c'.levels := by
  unfold PTChain.swapTemperatures at hs
  split at hs
  · simp only [Option.some.injEq] at hs
    subst hs
    exact levelsOK_afterSweep h _ _
  · simp at hs

theorem levelsOK_step {m : List Val → Eval} {c c' : PTChain} (h : LevelsOK m c.levels)
    {i : PTChain.StepIn} (hok : StepsOk m c.levels i.levels) (hs : c.step i = some c') :
    LevelsOK m c'.levels := by
  unfold PTChain.step at hs
  simp only [bind, Option.bind] at hs
  cases h1 : PTChain.stepLevels c.levels i.levels with
  | none => simp [h1] at hs
  | some ls =>
    simp only [h1] at hs
    have hls := levelsOK_stepLevels h hok h1
    split at hs
    · exact levelsOK_swapTemperatures (c := { c with levels := ls }) hls hs
    · simp [pure] at hs; subst hs; exact hls

theorem levelsOK_clear {m : List Val → Eval} {c : PTChain} (h : LevelsOK m c.levels) :
    LevelsOK m c.clear.levels := by
  intro x hx
  simp only [PTChain.clear, List.mem_map] at hx
  obtain ⟨l, hl, rfl⟩ := hx
  have := h l hl
  exact ⟨inv_clear this.1, by simpa [Chain.apply] using faithful_apply this.1 this.2 .clear trivial⟩

theorem levelsOK_setScratchlen {m : List Val → Eval} {c : PTChain} (h : LevelsOK m c.levels)
    (n : Nat) : LevelsOK m (c.setScratchlen n).levels := by
  intro x hx
  simp only [PTChain.setScratchlen, List.mem_map] at hx
  obtain ⟨l, hl, rfl⟩ := hx
  have := h l hl
  exact ⟨inv_setScratchlen this.1 n,
         by simpa [Chain.apply] using faithful_apply this.1 this.2 (.grow n) trivial⟩

theorem levelsOK_extendFor {m : List Val → Eval} {c : PTChain} (h : LevelsOK m c.levels)
    (n : Nat) : LevelsOK m (c.extendFor n).levels :=
  levelsOK_setScratchlen h _


/-! ### Operation sequences on a parallel-tempered chain -/

namespace PTChain

def setStarts : List Chain → List (List Val × Eval) → List Chain
  | l :: ls, (pos, e) :: xs => (l.setStart pos e).getD l :: setStarts ls xs
  | ls, _ => ls

/-- Everything a sampler does to one of its chains. -/
inductive Op where
  | start (xs : List (List Val × Eval))     -- start_position setter (one model call per level)
  | step (i : StepIn)                       -- one iteration (all levels, then the sweep if due)
  | clear
  | extend (n : Nat)                        -- scratch growth at the beginning of run(n)
  | load (sv : List Chain.Saved)            -- set_state

def apply (c : PTChain) : Op → PTChain
  | .start xs => { c with levels := setStarts c.levels xs }
  | .step i => (c.step i).getD c
  | .clear => c.clear
  | .extend n => c.extendFor n
  | .load sv => c.load sv

def runOps (c : PTChain) (ops : List Op) : PTChain := ops.foldl apply c

@[simp] theorem runOps_nil (c : PTChain) : runOps c [] = c := rfl
@[simp] theorem runOps_cons (c : PTChain) (op : Op) (ops : List Op) :
    runOps c (op :: ops) = runOps (c.apply op) ops := rfl

theorem runOps_append (c : PTChain) (a b : List Op) :
    runOps c (a ++ b) = runOps (runOps c a) b := by
  simp [runOps, List.foldl_append]

/-- The oracle values of an operation are the outputs of the pure model `m`. -/
def Op.ok (m : List Val → Eval) (c : PTChain) : Op → Prop
  | .start xs => ∀ x ∈ xs, x.2 = m x.1
  | .step i => StepsOk m c.levels i.levels
  | .load sv => ∀ s ∈ sv, StFaithful m s.current
  | _ => True

def OkRun (m : List Val → Eval) : PTChain → List Op → Prop
  | _, [] => True
  | c, op :: ops => op.ok m c ∧ OkRun m (c.apply op) ops

/-- A freshly constructed chain: one fresh level per beta. -/
def fresh (betas : List Rat) (s : Nat) (cfgs : List PropCfg) (reset dyn : Bool := false)
    (cid : Nat := 0) : PTChain :=
  { levels := betas.map fun b => Chain.fresh b cfgs cid, betas := betas, s := s
    resetAfterSwap := reset, dynamic := dyn }

end PTChain

theorem levelsOK_setStarts {m : List Val → Eval} {ls : List Chain} (h : LevelsOK m ls)
    (xs : List (List Val × Eval)) (hx : ∀ x ∈ xs, x.2 = m x.1) :
    LevelsOK m (PTChain.setStarts ls xs) := by
  induction ls generalizing xs with
  | nil => intro l hl; cases xs <;> simp [PTChain.setStarts] at hl
  | cons l ls ih =>
    cases xs with
    | nil => simpa [PTChain.setStarts] using h
    | cons x xs =>
      obtain ⟨pos, e⟩ := x
      intro y hy
      simp only [PTChain.setStarts, List.mem_cons] at hy
      have hl := h l (by simp)
      rcases hy with rfl | hy
      · exact ⟨inv_apply hl.1 (.start pos e),
               faithful_apply hl.1 hl.2 (.start pos e) (hx (pos, e) (by simp))⟩
      · exact ih (fun z hz => h z (by simp [hz])) xs (fun z hz => hx z (by simp [hz])) y hy

theorem levelsOK_loadLevels {m : List Val → Eval} {ls : List Chain} (h : LevelsOK m ls)
    (sv : List Chain.Saved) (hs : ∀ s ∈ sv, StFaithful m s.current) :
    LevelsOK m (PTChain.loadLevels ls sv) := by
  induction ls generalizing sv with
  | nil => intro l hl; cases sv <;> simp [PTChain.loadLevels] at hl
  | cons l ls ih =>
    cases sv with
    | nil => simpa [PTChain.loadLevels] using h
    | cons s sv =>
      intro y hy
      simp only [PTChain.loadLevels, List.mem_cons] at hy
      have hl := h l (by simp)
      rcases hy with rfl | hy
      · exact ⟨inv_load hl.1 s, faithful_apply hl.1 hl.2 (.load s) (hs s (by simp))⟩
      · exact ih (fun z hz => h z (by simp [hz])) sv (fun z hz => hs z (by simp [hz])) y hy

theorem levelsOK_apply {m : List Val → Eval} {c : PTChain} (h : LevelsOK m c.levels)
    (op : PTChain.Op) (hok : op.ok m c) : LevelsOK m (c.apply op).levels := by
  cases op with
  | start xs => exact levelsOK_setStarts h xs hok
  | step i =>
    simp only [PTChain.apply]
    cases hs : c.step i with
    | none => simpa using h
    | some c' => simpa using levelsOK_step h hok hs
  | clear => exact levelsOK_clear h
  | extend n => exact levelsOK_extendFor h n
  | load sv => exact levelsOK_loadLevels h sv hok

theorem levelsOK_runOps {m : List Val → Eval} {c : PTChain} (h : LevelsOK m c.levels)
    (ops : List PTChain.Op) (hok : PTChain.OkRun m c ops) :
    LevelsOK m (PTChain.runOps c ops).levels := by
  induction ops generalizing c with
  | nil => exact h
  | cons op ops ih => exact ih (levelsOK_apply h op hok.1) hok.2

theorem levelsOK_fresh (m : List Val → Eval) (betas : List Rat) (s : Nat) (cfgs : List PropCfg)
    (reset dyn : Bool) (cid : Nat) : LevelsOK m (PTChain.fresh betas s cfgs reset dyn cid).levels := by
  intro l hl
  simp only [PTChain.fresh, List.mem_map] at hl
  obtain ⟨b, _, rfl⟩ := hl
  exact ⟨inv_fresh b cfgs cid, faithful_fresh m b cfgs cid⟩


/-! ### Generic lifting: any predicate preserved by every `Chain` operation (and by a
change of `beta`) holds for every level of every reachable parallel-tempered chain -/

section Lift
variable (P : Chain → Prop)
variable (hP : ∀ c op, P c → P (Chain.apply c op))
variable (hβ : ∀ (c : Chain) b, P c → P { c with beta := b })
include hP hβ

theorem lift_stepLevels {ls ls' : List Chain} {is : List Chain.StepIn}
    (h : ∀ l ∈ ls, P l) (hs : PTChain.stepLevels ls is = some ls') : ∀ l ∈ ls', P l := by
  induction ls generalizing is ls' with
  | nil => simp [PTChain.stepLevels] at hs; subst hs; intro l hl; simp at hl
  | cons l ls ih =>
    cases is with
    | nil => simp [PTChain.stepLevels] at hs
    | cons i is =>
      simp only [PTChain.stepLevels, bind, Option.bind] at hs
      cases h1 : l.step i with
      | none => simp [h1] at hs
      | some l' =>
        simp only [h1] at hs
        cases h2 : PTChain.stepLevels ls is with
        | none => simp [h2] at hs
        | some ls'' =>
          simp [h2] at hs; subst hs
          intro x hx
          simp at hx
          rcases hx with rfl | hx
          · have := hP l (.step i) (h l (by simp))
            simpa [Chain.apply, h1] using this
          · exact ih (fun z hz => h z (by simp [hz])) h2 x hx

theorem lift_applySwap {ls : List Chain} (h : ∀ l ∈ ls, P l) (reset : Bool) (idx : List Nat) :
    ∀ l ∈ PTChain.applySwap reset ls idx, P l := by
  intro x hx
  unfold PTChain.applySwap at hx
  simp only [List.mem_map] at hx
  obtain ⟨⟨l, t⟩, hmem, rfl⟩ := hx
  have hl : P l := h l (List.of_mem_zip hmem).1
  have h1 : ∀ o, P (PTChain.maybeRewrite l o) := by
    intro o; cases o with
    | none => exact hl
    | some st => exact hP l (.rewrite st) hl
  have h2 : ∀ b y, P y → P (PTChain.maybeReset b y) := by
    intro b y hy; unfold PTChain.maybeReset; cases b with
    | false => simpa using hy
    | true => simp only [if_true]; exact hP y .reset hy
  exact h2 _ _ (h1 _)

theorem lift_apply {c : PTChain} (h : ∀ l ∈ c.levels, P l) (op : PTChain.Op) :
    ∀ l ∈ (c.apply op).levels, P l := by
  cases op with
  | start xs =>
    simp only [PTChain.apply]
    generalize c.levels = ls at h
    induction ls generalizing xs with
    | nil => intro l hl; cases xs <;> simp [PTChain.setStarts] at hl
    | cons l ls ih =>
      cases xs with
      | nil => simpa [PTChain.setStarts] using h
      | cons x xs =>
        obtain ⟨pos, e⟩ := x
        intro y hy
        simp only [PTChain.setStarts, List.mem_cons] at hy
        rcases hy with rfl | hy
        · exact hP l (.start pos e) (h l (by simp))
        · exact ih xs (fun z hz => h z (by simp [hz])) y hy
  | step i =>
    simp only [PTChain.apply]
    cases hs : c.step i with
    | none => simpa using h
    | some c' =>
      simp only [Option.getD_some]
      unfold PTChain.step at hs
      simp only [bind, Option.bind] at hs
      cases h1 : PTChain.stepLevels c.levels i.levels with
      | none => simp [h1] at hs
      | some ls =>
        simp only [h1] at hs
        have hls := lift_stepLevels P hP hβ h h1
        split at hs
        · unfold PTChain.swapTemperatures at hs
          split at hs
          · simp only [Option.some.injEq] at hs
            subst hs
            unfold PTChain.afterSweep
            simp only
            have h3 := lift_applySwap P hP hβ hls c.resetAfterSwap (by assumption : Swap.Row).idx
            split
            · intro x hx
              simp only [PTChain.setBetas, List.mem_map] at hx
              obtain ⟨⟨l, b⟩, hmem, rfl⟩ := hx
              exact hβ l _ (h3 l (List.of_mem_zip hmem).1)
            · exact h3
          · simp at hs
        · simp [pure] at hs; subst hs; exact hls
  | clear =>
    intro x hx
    simp only [PTChain.apply, PTChain.clear, List.mem_map] at hx
    obtain ⟨l, hl, rfl⟩ := hx
    exact hP l .clear (h l hl)
  | extend n =>
    intro x hx
    simp only [PTChain.apply, PTChain.extendFor, PTChain.setScratchlen, List.mem_map] at hx
    obtain ⟨l, hl, rfl⟩ := hx
    exact hP l (.grow _) (h l hl)
  | load sv =>
    simp only [PTChain.apply, PTChain.load]
    generalize c.levels = ls at h
    induction ls generalizing sv with
    | nil => intro l hl; cases sv <;> simp [PTChain.loadLevels] at hl
    | cons l ls ih =>
      cases sv with
      | nil => simpa [PTChain.loadLevels] using h
      | cons s sv =>
        intro y hy
        simp only [PTChain.loadLevels, List.mem_cons] at hy
        rcases hy with rfl | hy
        · exact hP l (.load s) (h l (by simp))
        · exact ih sv (fun z hz => h z (by simp [hz])) y hy

theorem lift_runOps {c : PTChain} (h : ∀ l ∈ c.levels, P l) (ops : List PTChain.Op) :
    ∀ l ∈ (PTChain.runOps c ops).levels, P l := by
  induction ops generalizing c with
  | nil => exact h
  | cons op ops ih => exact ih (lift_apply P hP hβ h op)

end Lift

end Epsie
