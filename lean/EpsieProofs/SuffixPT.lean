/-
  C06 helper: the suffix relation lifted to parallel-tempered chains and preserved by a
  whole iteration (all levels step, then the sweep if due), by clears and by scratch growth.
-/
import EpsieProofs.Suffix
namespace Epsie
open Chain

/-- Level-by-level suffix relation (with the structural invariant of both sides). -/
def LevelsSfx : List Chain → List Chain → Prop
  | [], [] => True
  | a :: as, b :: bs => (Sfx a b ∧ Inv a ∧ Inv b) ∧ LevelsSfx as bs
  | _, _ => False

theorem LevelsSfx.length_eq : ∀ {as bs : List Chain}, LevelsSfx as bs → as.length = bs.length
  | [], [], _ => rfl
  | _ :: as, _ :: bs, h => by simp [LevelsSfx.length_eq (as := as) (bs := bs) h.2]
  | [], _ :: _, h => by simp [LevelsSfx] at h
  | _ :: _, [], h => by simp [LevelsSfx] at h

theorem LevelsSfx.get : ∀ {as bs : List Chain}, LevelsSfx as bs → ∀ t (ha : t < as.length) (hb : t < bs.length),
    Sfx as[t] bs[t] ∧ Inv as[t] ∧ Inv bs[t]
  | a :: as, b :: bs, h, 0, _, _ => h.1
  | a :: as, b :: bs, h, t+1, ha, hb => by
      simpa using LevelsSfx.get (as := as) (bs := bs) h.2 t (by simpa using ha) (by simpa using hb)
  | [], [], _, t, ha, _ => by simp at ha
  | [], _ :: _, h, _, _, _ => by simp [LevelsSfx] at h
  | _ :: _, [], h, _, _, _ => by simp [LevelsSfx] at h

theorem LevelsSfx.of_get : ∀ {as bs : List Chain}, as.length = bs.length →
    (∀ t (ha : t < as.length) (hb : t < bs.length), Sfx as[t] bs[t] ∧ Inv as[t] ∧ Inv bs[t]) →
    LevelsSfx as bs
  | [], [], _, _ => trivial
  | a :: as, b :: bs, hl, h => by
      refine ⟨h 0 (by simp) (by simp), LevelsSfx.of_get (by simpa using hl) ?_⟩
      intro t ha hb
      have := h (t+1) (by simpa using ha) (by simpa using hb)
      simp only [List.getElem_cons_succ] at this
      exact this
  | [], _ :: _, hl, _ => by simp at hl
  | _ :: _, [], hl, _ => by simp at hl

theorem levelsSfx_currents : ∀ {as bs : List Chain}, LevelsSfx as bs →
    as.map (·.current) = bs.map (·.current)
  | [], [], _ => rfl
  | a :: as, b :: bs, h => by
      simp only [List.map_cons]; rw [h.1.1.current, levelsSfx_currents h.2]
  | [], _ :: _, h => by simp [LevelsSfx] at h
  | _ :: _, [], h => by simp [LevelsSfx] at h

theorem levelsSfx_stepLevels : ∀ {as bs : List Chain} {is : List Chain.StepIn}, LevelsSfx as bs →
    (PTChain.stepLevels as is = none ↔ PTChain.stepLevels bs is = none) ∧
    ∀ as' bs', PTChain.stepLevels as is = some as' → PTChain.stepLevels bs is = some bs' →
      LevelsSfx as' bs' ∧ (∀ l ∈ as', 0 < l.len)
  | [], [], is, _ => by
      refine ⟨by simp [PTChain.stepLevels], ?_⟩
      intro as' bs' ha hb
      simp [PTChain.stepLevels] at ha hb
      subst ha; subst hb
      exact ⟨trivial, by intro l hl; simp at hl⟩
  | a :: as, b :: bs, [], _ => by
      refine ⟨by simp [PTChain.stepLevels], ?_⟩
      intro as' bs' ha; simp [PTChain.stepLevels] at ha
  | a :: as, b :: bs, i :: is, h => by
      have ih := levelsSfx_stepLevels (as := as) (bs := bs) (is := is) h.2
      have hn := sfx_step_none (i := i) h.1.1
      constructor
      · simp only [PTChain.stepLevels, bind, Option.bind]
        cases ha : a.step i with
        | none => simp [hn.mp ha]
        | some a' =>
          cases hb : b.step i with
          | none => rw [hn.mpr hb] at ha; cases ha
          | some b' =>
            simp only
            cases hx : PTChain.stepLevels as is with
            | none => simp [ih.1.mp hx]
            | some as' =>
              cases hy : PTChain.stepLevels bs is with
              | none => rw [ih.1.mpr hy] at hx; cases hx
              | some bs' => simp
      · intro as' bs' hA hB
        simp only [PTChain.stepLevels, bind, Option.bind] at hA hB
        cases ha : a.step i with
        | none => simp [ha] at hA
        | some a' =>
          cases hb : b.step i with
          | none => simp [hb] at hB
          | some b' =>
            simp only [ha] at hA
            simp only [hb] at hB
            cases hx : PTChain.stepLevels as is with
            | none => simp [hx] at hA
            | some as'' =>
              cases hy : PTChain.stepLevels bs is with
              | none => simp [hy] at hB
              | some bs'' =>
                simp [hx] at hA; simp [hy] at hB
                subst hA; subst hB
                have t := ih.2 as'' bs'' hx hy
                have hlen : 0 < a'.len := by
                  obtain ⟨_, _, hit, hlc, _⟩ := step_fields ha
                  have := h.1.2.1.lc_le
                  simp [len_def, hit, hlc]; omega
                refine ⟨⟨⟨sfx_step h.1.1 ha hb, inv_step h.1.2.1 ha, inv_step h.1.2.2 hb⟩, t.1⟩, ?_⟩
                intro l hl
                simp at hl
                rcases hl with rfl | hl
                · exact hlen
                · exact t.2 l hl
  | [], _ :: _, _, h => by simp [LevelsSfx] at h
  | _ :: _, [], _, h => by simp [LevelsSfx] at h

theorem sfx_maybeReset {a b : Chain} (h : Sfx a b ∧ Inv a ∧ Inv b) (x : Bool) :
    Sfx (PTChain.maybeReset x a) (PTChain.maybeReset x b) ∧ Inv (PTChain.maybeReset x a) ∧
    Inv (PTChain.maybeReset x b) := by
  unfold PTChain.maybeReset
  cases x with
  | false => simpa using h
  | true =>
    simp only [if_true]
    exact ⟨sfx_reset h.1, inv_apply h.2.1 .reset, inv_apply h.2.2 .reset⟩

theorem sfx_maybeRewrite {a b : Chain} (h : Sfx a b ∧ Inv a ∧ Inv b) (hpos : 0 < a.len) (o : Option St) :
    Sfx (PTChain.maybeRewrite a o) (PTChain.maybeRewrite b o) ∧ Inv (PTChain.maybeRewrite a o) ∧
    Inv (PTChain.maybeRewrite b o) := by
  cases o with
  | none => exact h
  | some st =>
    exact ⟨sfx_rewriteLast h.1 st hpos h.2.1 h.2.2, inv_rewriteLast h.2.1 st, inv_rewriteLast h.2.2 st⟩

theorem maybeReset_len (x : Bool) (l : Chain) : (PTChain.maybeReset x l).len = l.len := by
  unfold PTChain.maybeReset; cases x <;> rfl

theorem levelsSfx_applySwap {as bs : List Chain} (h : LevelsSfx as bs) (hpos : ∀ l ∈ as, 0 < l.len)
    (reset : Bool) (idx : List Nat) :
    LevelsSfx (PTChain.applySwap reset as idx) (PTChain.applySwap reset bs idx) := by
  have hl := h.length_eq
  apply LevelsSfx.of_get
  · rw [applySwap_length, applySwap_length, hl]
  · intro t ha hb
    rw [applySwap_length] at ha hb
    rw [applySwap_getElem reset as idx t ha, applySwap_getElem reset bs idx t hb,
        levelsSfx_currents h]
    exact sfx_maybeReset (sfx_maybeRewrite (h.get t ha hb) (hpos _ (List.getElem_mem ha)) _) _

theorem levelsSfx_map_beta {as bs : List Chain} (h : LevelsSfx as bs) (nb : List Rat) :
    LevelsSfx ((as.zip (List.range as.length)).map fun (l, t) => { l with beta := nb.getD t l.beta })
              ((bs.zip (List.range bs.length)).map fun (l, t) => { l with beta := nb.getD t l.beta }) := by
  have hl := h.length_eq
  apply LevelsSfx.of_get
  · simp [hl]
  · intro t ha hb
    have ha' : t < as.length := by simpa using ha
    have hb' : t < bs.length := by simpa using hb
    obtain ⟨h1, h2, h3⟩ := h.get t ha' hb'
    simp only [List.getElem_map, List.getElem_zip, List.getElem_range]
    rw [h1.beta]
    exact ⟨sfx_setBeta h1 _, ⟨h2.lc_le, h2.rows⟩, ⟨h3.lc_le, h3.rows⟩⟩

/-- The relation on parallel-tempered chains. -/
structure PSfx (a b : PTChain) : Prop where
  levels : LevelsSfx a.levels b.levels
  betas : a.betas = b.betas
  s : a.s = b.s
  reset : a.resetAfterSwap = b.resetAfterSwap
  dynamic : a.dynamic = b.dynamic

theorem PSfx.iteration {a b : PTChain} (h : PSfx a b) : a.iteration = b.iteration := by
  unfold PTChain.iteration
  cases ha : a.levels with
  | nil =>
    have := h.levels.length_eq; rw [ha] at this
    cases hb : b.levels with
    | nil => rfl
    | cons _ _ => rw [hb] at this; simp at this
  | cons x xs =>
    cases hb : b.levels with
    | nil => have := h.levels.length_eq; rw [ha, hb] at this; simp at this
    | cons y ys =>
      have := h.levels; rw [ha, hb] at this
      simp [this.1.1.iteration]

theorem PSfx.logls {a b : PTChain} (h : PSfx a b) : a.logls = b.logls := by
  unfold PTChain.logls
  have := levelsSfx_currents h.levels
  have e : ∀ ls : List Chain, ls.map (fun l => (l.current.map (·.logl)).getD 0)
      = (ls.map (·.current)).map (fun o => (o.map (·.logl)).getD 0) := by
    intro ls; simp [List.map_map]
  rw [e, e, this]

/-- One whole iteration (every level steps, then the sweep if due) preserves the relation and
    succeeds on one side iff it does on the other. -/
theorem psfx_step {a b : PTChain} (h : PSfx a b) (i : PTChain.StepIn) :
    (a.step i = none ↔ b.step i = none) ∧
    ∀ a' b', a.step i = some a' → b.step i = some b' → PSfx a' b' := by
  have hst := levelsSfx_stepLevels (is := i.levels) h.levels
  unfold PTChain.step
  simp only [bind, Option.bind]
  cases ha : PTChain.stepLevels a.levels i.levels with
  | none =>
    rw [hst.1.mp ha]
    exact ⟨by simp, by intro a' b' h1; simp at h1⟩
  | some as' =>
    cases hb : PTChain.stepLevels b.levels i.levels with
    | none => rw [hst.1.mpr hb] at ha; cases ha
    | some bs' =>
      obtain ⟨hl', hpos⟩ := hst.2 as' bs' ha hb
      simp only
      have hmid : PSfx { a with levels := as' } { b with levels := bs' } :=
        ⟨hl', h.betas, h.s, h.reset, h.dynamic⟩
      have hdue : PTChain.sweepDue (PTChain.ntemps { a with levels := as' }) a.s
            (PTChain.iteration { a with levels := as' }) =
          PTChain.sweepDue (PTChain.ntemps { b with levels := bs' }) b.s
            (PTChain.iteration { b with levels := bs' }) := by
        rw [hmid.iteration, h.s]
        simp only [PTChain.ntemps]
        rw [hl'.length_eq]
      rw [hdue]
      split
      · -- sweep due on both
        unfold PTChain.swapTemperatures
        rw [hmid.logls]
        simp only [h.betas]
        cases hsw : Swap.sweep b.betas (PTChain.logls { b with levels := bs' }) i.sweep.us with
        | none => exact ⟨by simp, by intro a' b' h1; simp at h1⟩
        | some res =>
          obtain ⟨row, rest⟩ := res
          cases rest with
          | cons u us => exact ⟨by simp, by intro a' b' h1; simp at h1⟩
          | nil =>
            refine ⟨by simp, ?_⟩
            intro a' b' h1 h2
            simp only [Option.some.injEq] at h1 h2
            subst h1; subst h2
            unfold PTChain.afterSweep
            simp only [h.dynamic, h.reset, h.betas]
            have hsw' := levelsSfx_applySwap hl' hpos b.resetAfterSwap row.idx
            split
            · exact ⟨levelsSfx_map_beta hsw' _, rfl, h.s, rfl, rfl⟩
            · exact ⟨hsw', rfl, h.s, rfl, rfl⟩
      · exact ⟨by simp [pure], by
          intro a' b' h1 h2
          simp [pure] at h1 h2
          subst h1; subst h2; exact hmid⟩

theorem levelsSfx_map_left {as bs : List Chain} (f : Chain → Chain)
    (hf : ∀ a b, (Sfx a b ∧ Inv a ∧ Inv b) → (Sfx (f a) b ∧ Inv (f a) ∧ Inv b)) :
    LevelsSfx as bs → LevelsSfx (as.map f) bs := by
  induction as generalizing bs with
  | nil => intro h; cases bs <;> simp [LevelsSfx] at h ⊢
  | cons a as ih =>
    intro h
    cases bs with
    | nil => simp [LevelsSfx] at h
    | cons b bs => exact ⟨hf a b h.1, ih h.2⟩

theorem psfx_clear_left {a b : PTChain} (h : PSfx a b) : PSfx a.clear b :=
  ⟨levelsSfx_map_left Chain.clear (fun _ _ hx => ⟨sfx_clear_left hx.1, inv_clear hx.2.1, hx.2.2⟩) h.levels,
   h.betas, h.s, h.reset, h.dynamic⟩

theorem psfx_extend_left {a b : PTChain} (h : PSfx a b) (n : Nat) : PSfx (a.extendFor n) b :=
  ⟨levelsSfx_map_left _ (fun _ _ hx => ⟨sfx_grow_left hx.1 _, inv_setScratchlen hx.2.1 _, hx.2.2⟩) h.levels,
   h.betas, h.s, h.reset, h.dynamic⟩

end Epsie
