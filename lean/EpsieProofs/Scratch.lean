/-
  Helper lemmas about the scratch-space primitives (`growTo`, `setAt`, `rowAt`).
-/
import EpsieModel.Basic
namespace Epsie

variable {α : Type}

@[simp] theorem length_growTo (l : List (Option α)) (n : Nat) :
    (growTo l n).length = max l.length n := by
  unfold growTo; simp; omega

theorem rowAt_growTo (l : List (Option α)) (n j : Nat) :
    rowAt (growTo l n) j = rowAt l j := by
  unfold rowAt growTo
  by_cases h : j < l.length
  · simp [List.getElem?_append_left h]
  · have h' : l.length ≤ j := Nat.le_of_not_lt h
    rw [List.getElem?_append_right h']
    simp only [List.getElem?_eq_none h', Option.join_none]
    by_cases h2 : j - l.length < n - l.length
    · simp [h2]
    · simp [h2]

@[simp] theorem length_setAt (l : List (Option α)) (i : Nat) (r : α) :
    (setAt l i r).length = max l.length (i + 1) := by
  unfold setAt; simp

theorem rowAt_setAt_same (l : List (Option α)) (i : Nat) (r : α) :
    rowAt (setAt l i r) i = some r := by
  unfold rowAt setAt
  have : i < (growTo l (i+1)).length := by simp; omega
  simp [List.getElem?_set_self this]

theorem rowAt_setAt_ne (l : List (Option α)) (i j : Nat) (r : α) (h : j ≠ i) :
    rowAt (setAt l i r) j = rowAt l j := by
  unfold setAt
  have : rowAt ((growTo l (i+1)).set i (some r)) j = rowAt (growTo l (i+1)) j := by
    unfold rowAt
    rw [List.getElem?_set_ne (Ne.symm h)]
  rw [this, rowAt_growTo]

theorem rowAt_replicate_none (n j : Nat) :
    rowAt (List.replicate n (none : Option α)) j = none := by
  unfold rowAt
  by_cases h : j < n
  · simp [h]
  · simp [h]

theorem rowAt_take (l : List (Option α)) (n j : Nat) (h : j < n) :
    rowAt (l.take n) j = rowAt l j := by
  unfold rowAt
  simp [h]

theorem rowAt_nil (j : Nat) : rowAt ([] : List (Option α)) j = none := by
  unfold rowAt; simp

end Epsie
