/-
  Helper lemmas for C10 / C11 (nested transdimensional proposal).
-/
import EpsieModel.Transdim
import Mathlib.Data.Nat.Choose.Basic
import Mathlib.Data.Finset.Powerset
import Mathlib.Algebra.BigOperators.Ring.Finset
import Mathlib.Algebra.BigOperators.Field
import Mathlib.Analysis.SpecialFunctions.Exp
set_option linter.unnecessarySeqFocus false
set_option linter.unusedSimpArgs false
namespace Epsie
namespace Transdim

/-! ## well-formedness -/

/-- A recorded point is well formed: one slot per in-model proposal, the index is the
    number of active slots and lies within the model proposal's bounds.  (That inactive
    slots are all-NaN and active ones finite is what the two constructors of a slot say.) -/
structure DataWF (cfg : Cfg) (p : Point) : Prop where
  len : p.comps.length = cfg.K
  count : p.k = (countTrue p.pattern : Int)
  lo : cfg.kmin ≤ p.k
  hi : p.k ≤ cfg.kmax

/-- A point carrying a `_state` entry is well formed when moreover the mask is the
    point's NaN pattern. -/
structure WF (cfg : Cfg) (x : SPoint) : Prop where
  data : DataWF cfg x.pt
  mask : x.state = x.pt.pattern

/-! ## masks -/

@[simp] theorem pattern_length (p : Point) : p.pattern.length = p.comps.length := by
  simp [Point.pattern]

@[simp] theorem flip_length (cur : List Bool) (ch : List Nat) : (flip cur ch).length = cur.length := by
  simp [flip]

theorem flip_getElem (cur : List Bool) (ch : List Nat) (j : Nat) (h : j < cur.length) :
    (flip cur ch)[j]'(by simpa using h) = if j ∈ ch then !cur[j] else cur[j] := by
  simp [flip, List.getD_eq_getElem?_getD, h]

theorem flip_nil (cur : List Bool) : flip cur [] = cur := by
  apply List.ext_getElem (by simp)
  intro j h1 h2
  rw [flip_getElem _ _ _ h2]; simp

theorem flip_cons (cur : List Bool) (c : Nat) (ch : List Nat) (hc : c ∉ ch) (hlt : c < cur.length) :
    flip cur (c :: ch) = (flip cur ch).set c (!cur[c]) := by
  apply List.ext_getElem (by simp)
  intro j h1 h2
  have hj : j < cur.length := by simpa using h1
  rw [flip_getElem _ _ _ hj]
  by_cases hjc : j = c
  · subst hjc; simp
  · rw [List.getElem_set_ne (Ne.symm hjc), flip_getElem _ _ _ hj]
    simp [hjc]

theorem nodupB_cons {a : Nat} {l : List Nat} (h : nodupB (a :: l) = true) : a ∉ l ∧ nodupB l = true := by
  simpa [nodupB] using h

theorem count_flip_up (cur : List Bool) : ∀ (ch : List Nat), nodupB ch = true →
    (∀ c ∈ ch, ∃ h : c < cur.length, cur[c] = false) →
    countTrue (flip cur ch) = countTrue cur + ch.length
  | [], _, _ => by simp [flip_nil]
  | c :: ch, hnd, hall => by
    obtain ⟨hc, hnd'⟩ := nodupB_cons hnd
    obtain ⟨hlt, hval⟩ := hall c (by simp)
    have ih := count_flip_up cur ch hnd' (fun d hd => hall d (by simp [hd]))
    rw [flip_cons cur c ch hc hlt]
    unfold countTrue at *
    have hl : c < (flip cur ch).length := by simpa using hlt
    rw [List.count_set hl, flip_getElem _ _ _ hlt]
    simp [hc, hval, ih]; omega

theorem count_flip_down (cur : List Bool) : ∀ (ch : List Nat), nodupB ch = true →
    (∀ c ∈ ch, ∃ h : c < cur.length, cur[c] = true) →
    countTrue (flip cur ch) + ch.length = countTrue cur
  | [], _, _ => by simp [flip_nil]
  | c :: ch, hnd, hall => by
    obtain ⟨hc, hnd'⟩ := nodupB_cons hnd
    obtain ⟨hlt, hval⟩ := hall c (by simp)
    have ih := count_flip_down cur ch hnd' (fun d hd => hall d (by simp [hd]))
    rw [flip_cons cur c ch hc hlt]
    unfold countTrue at *
    have hl : c < (flip cur ch).length := by simpa using hlt
    have hpos : 0 < List.count true (flip cur ch) := by
      rw [List.count_pos_iff]
      have : (flip cur ch)[c]'hl = true := by rw [flip_getElem _ _ _ hlt]; simp [hc, hval]
      exact this ▸ List.getElem_mem hl
    rw [List.count_set hl, flip_getElem _ _ _ hlt]
    simp [hc, hval]; omega

/-! ## candidates -/

theorem self_eq_map_range (l : List Bool) :
    l = (List.range l.length).map (fun i => l.getD i false) := by
  apply List.ext_getElem (by simp)
  intro j h1 h2
  simp [List.getD_eq_getElem?_getD, h1]

theorem countTrue_eq_filter (l : List Bool) :
    countTrue l = ((List.range l.length).filter (fun i => l.getD i false)).length := by
  have h := congrArg countTrue (self_eq_map_range l)
  rw [h]
  unfold countTrue
  rw [List.count_eq_countP, List.countP_map, List.countP_eq_length_filter]
  congr 1
  apply List.filter_congr
  intro x _
  simp

theorem candidates_down_length (cur : List Bool) :
    (candidates false cur).length = countTrue cur := by
  rw [countTrue_eq_filter]; simp [candidates]

theorem candidates_up_length (cur : List Bool) :
    (candidates true cur).length + countTrue cur = cur.length := by
  rw [countTrue_eq_filter]
  have h := List.length_eq_countP_add_countP (fun i => cur.getD i false) (l := List.range cur.length)
  simp only [List.length_range] at h
  rw [List.countP_eq_length_filter, List.countP_eq_length_filter] at h
  have h2 : (candidates true cur) = List.filter (fun a => decide ¬cur.getD a false = true) (List.range cur.length) := by
    unfold candidates
    apply List.filter_congr
    intro x _
    simp
  rw [h2]; omega

theorem mem_candidates {up : Bool} {cur : List Bool} {c : Nat} (h : c ∈ candidates up cur) :
    ∃ hlt : c < cur.length, cur[c] = !up := by
  unfold candidates at h
  rw [List.mem_filter] at h
  obtain ⟨hr, hp⟩ := h
  have hlt : c < cur.length := by simpa using hr
  refine ⟨hlt, ?_⟩
  cases up <;> simp [List.getD_eq_getElem?_getD, hlt] at hp <;> simp [hp]

theorem countTrue_le_length (l : List Bool) : countTrue l ≤ l.length := List.count_le_length

/-! ## the jump -/

theorem newComp_isSome (dk : Int) (c p : Bool) (old : Comp) (b m : List Rat)
    (hold : old.isSome = c)
    (hup : dk > 0 → c = true → p = true) (hdown : dk < 0 → p = true → c = true)
    (hsame : dk = 0 → p = c) :
    (newComp dk c p old b m).isSome = p := by
  unfold newComp
  rcases Int.lt_trichotomy dk 0 with h | h | h
  · have h1 : ¬ dk > 0 := by omega
    have h2 : dk ≠ 0 := by omega
    have h3 := hdown h
    simp only [h1, h2, if_false, ne_eq, not_false_eq_true, true_and]
    cases c <;> cases p <;> simp at h3 ⊢ <;> simpa using hold
  · have h3 := hsame h
    have h1 : ¬ dk ≠ 0 := by omega
    simp only [h1, false_and, if_false]
    subst h3
    cases p <;> simp <;> simpa using hold
  · have h2 : dk ≠ 0 := by omega
    have h3 := hup h
    simp only [h, h2, if_true, ne_eq, not_false_eq_true, true_and]
    cases c <;> cases p <;> simp at h3 ⊢ <;> simpa using hold

theorem assemble_pattern (x : SPoint) (i : JumpIn) (dk : Int) (prop : List Bool)
    (hmask : x.state = x.pt.pattern) (hlen : prop.length = x.pt.comps.length)
    (hup : dk > 0 → ∀ j (h : j < x.state.length) (h' : j < prop.length), x.state[j] = true → prop[j] = true)
    (hdown : dk < 0 → ∀ j (h : j < x.state.length) (h' : j < prop.length), prop[j] = true → x.state[j] = true)
    (hsame : dk = 0 → prop = x.state) :
    (assemble x i dk prop).pt.pattern = prop := by
  have hsl : x.state.length = x.pt.comps.length := by rw [hmask]; simp
  apply List.ext_getElem (by simp [assemble, Point.pattern, hlen])
  intro j h1 h2
  have hj : j < x.pt.comps.length := by omega
  have hjs : j < x.state.length := by omega
  simp only [assemble, Point.pattern, List.getElem_map, List.getElem_range]
  have e1 : x.state.getD j false = x.state[j] := by simp [List.getD_eq_getElem?_getD, hjs]
  have e2 : prop.getD j false = prop[j] := by simp [List.getD_eq_getElem?_getD, h2]
  have e3 : x.pt.comps.getD j none = x.pt.comps[j] := by simp [List.getD_eq_getElem?_getD, hj]
  rw [e1, e2, e3]
  apply newComp_isSome
  · have : x.state[j] = x.pt.pattern[j]'(by simpa using hj) := List.getElem_of_eq hmask hjs
    rw [this]; simp [Point.pattern]
  · intro h; exact hup h j hjs h2
  · intro h; exact hdown h j hjs h2
  · intro h; have := hsame h; subst this; rfl

theorem assemble_k (x : SPoint) (i : JumpIn) (dk : Int) (prop : List Bool) :
    (assemble x i dk prop).pt.k = i.newk := rfl
theorem assemble_state (x : SPoint) (i : JumpIn) (dk : Int) (prop : List Bool) :
    (assemble x i dk prop).state = prop := rfl
theorem assemble_len (x : SPoint) (i : JumpIn) (dk : Int) (prop : List Bool) :
    (assemble x i dk prop).pt.comps.length = x.pt.comps.length := by simp [assemble]

/-- Inversion of a successful jump. -/
theorem jump_ok_inv {cfg : Cfg} {x y : SPoint} {i : JumpIn} (h : jump cfg x i = .ok y) :
    (cfg.kmin ≤ x.pt.k ∧ x.pt.k ≤ cfg.kmax) ∧ (cfg.kmin ≤ i.newk ∧ i.newk ≤ cfg.kmax) ∧
    ((i.newk - x.pt.k = 0 ∧ y = assemble x i 0 x.state) ∨
     (i.newk - x.pt.k ≠ 0 ∧
      (i.newk - x.pt.k).natAbs ≤ (candidates (decide (i.newk - x.pt.k > 0)) x.state).length ∧
      i.chosen.length = (i.newk - x.pt.k).natAbs ∧ nodupB i.chosen = true ∧
      (∀ c ∈ i.chosen, c ∈ candidates (decide (i.newk - x.pt.k > 0)) x.state) ∧
      y = assemble x i (i.newk - x.pt.k) (flip x.state i.chosen))) := by
  unfold jump at h
  split at h
  · cases h
  rename_i hb1
  split at h
  · cases h
  rename_i hb2
  refine ⟨Classical.not_not.mp hb1, Classical.not_not.mp hb2, ?_⟩
  simp only at h
  split at h
  · rename_i hdk
    left
    refine ⟨hdk, ?_⟩
    rw [hdk] at h
    cases h; rfl
  · rename_i hdk
    right
    split at h
    · cases h
    rename_i hc
    split at h
    · cases h
    rename_i hv
    have hv := Classical.not_not.mp hv
    cases h
    exact ⟨hdk, by omega, hv.1, hv.2.1, hv.2.2, rfl⟩

theorem jump_ok_wf {cfg : Cfg} {x y : SPoint} {i : JumpIn} (hx : WF cfg x)
    (h : jump cfg x i = .ok y) : WF cfg y := by
  obtain ⟨_, hb, hcase⟩ := jump_ok_inv h
  have hsl : x.state.length = x.pt.comps.length := by rw [hx.mask]; simp
  rcases hcase with ⟨hdk, rfl⟩ | ⟨hdk, _, hlen, hnd, hmem, rfl⟩
  · have hp : (assemble x i 0 x.state).pt.pattern = x.state :=
      assemble_pattern x i 0 x.state hx.mask hsl (by omega) (by omega) (fun _ => rfl)
    refine ⟨⟨by rw [assemble_len]; exact hx.data.len, ?_, hb.1, hb.2⟩, by rw [hp]; rfl⟩
    rw [hp, assemble_k, hx.mask, ← hx.data.count]; omega
  · have hfl : (flip x.state i.chosen).length = x.pt.comps.length := by simp [hsl]
    have hcnt := hx.data.count
    rw [← hx.mask] at hcnt
    rcases Int.lt_or_gt_of_ne hdk with hneg | hpos
    · have hd : decide (i.newk - x.pt.k > 0) = false := decide_eq_false (by omega)
      rw [hd] at hmem
      have hval : ∀ c ∈ i.chosen, ∃ h : c < x.state.length, x.state[c] = true := by
        intro c hc
        obtain ⟨hl, hv⟩ := mem_candidates (hmem c hc)
        exact ⟨hl, by simpa using hv⟩
      have hp : (assemble x i (i.newk - x.pt.k) (flip x.state i.chosen)).pt.pattern = flip x.state i.chosen := by
        apply assemble_pattern x i _ _ hx.mask hfl
        · intro hpos; omega
        · intro _ j hj hj' hp
          rw [flip_getElem _ _ _ hj] at hp
          by_cases hjc : j ∈ i.chosen
          · exact (hval j hjc).2
          · simpa [hjc] using hp
        · intro h0; exact absurd h0 hdk
      refine ⟨⟨by rw [assemble_len]; exact hx.data.len, ?_, hb.1, hb.2⟩, by rw [hp]; rfl⟩
      rw [hp, assemble_k]
      have := count_flip_down x.state i.chosen hnd hval
      omega
    · have hd : decide (i.newk - x.pt.k > 0) = true := decide_eq_true hpos
      rw [hd] at hmem
      have hval : ∀ c ∈ i.chosen, ∃ h : c < x.state.length, x.state[c] = false := by
        intro c hc
        obtain ⟨hl, hv⟩ := mem_candidates (hmem c hc)
        exact ⟨hl, by simpa using hv⟩
      have hp : (assemble x i (i.newk - x.pt.k) (flip x.state i.chosen)).pt.pattern = flip x.state i.chosen := by
        apply assemble_pattern x i _ _ hx.mask hfl
        · intro _ j hj hj' hc
          rw [flip_getElem _ _ _ hj]
          by_cases hjc : j ∈ i.chosen
          · have := (hval j hjc).2
            rw [this] at hc; cases hc
          · simp [hjc, hc]
        · intro hneg; omega
        · intro h0; exact absurd h0 hdk
      refine ⟨⟨by rw [assemble_len]; exact hx.data.len, ?_, hb.1, hb.2⟩, by rw [hp]; rfl⟩
      rw [hp, assemble_k]
      have := count_flip_up x.state i.chosen hnd hval
      omega

/-- Oracle values that the real code can produce from `x`: the new index respects the
    model proposal's bounds (C12) and `choice` returned `|dk|` distinct candidates. -/
def JumpIn.Valid (cfg : Cfg) (x : SPoint) (i : JumpIn) : Prop :=
  (cfg.kmin ≤ i.newk ∧ i.newk ≤ cfg.kmax) ∧
  (i.newk - x.pt.k ≠ 0 →
    i.chosen.length = (i.newk - x.pt.k).natAbs ∧ nodupB i.chosen = true ∧
    ∀ c ∈ i.chosen, c ∈ candidates (decide (i.newk - x.pt.k > 0)) x.state)

theorem choice_feasible {cfg : Cfg} {x : SPoint} (hx : WF cfg x) (h0 : 0 ≤ cfg.kmin)
    (hK : cfg.kmax ≤ cfg.K) (newk : Int) (hb : cfg.kmin ≤ newk ∧ newk ≤ cfg.kmax) :
    (newk - x.pt.k).natAbs ≤ (candidates (decide (newk - x.pt.k > 0)) x.state).length := by
  have hcnt := hx.data.count
  rw [← hx.mask] at hcnt
  have hsl : x.state.length = cfg.K := by rw [hx.mask, pattern_length, hx.data.len]
  by_cases hpos : newk - x.pt.k > 0
  · rw [decide_eq_true hpos]
    have := candidates_up_length x.state
    omega
  · rw [decide_eq_false hpos]
    rw [candidates_down_length]
    omega

theorem jump_total {cfg : Cfg} {x : SPoint} {i : JumpIn} (hx : WF cfg x) (h0 : 0 ≤ cfg.kmin)
    (hK : cfg.kmax ≤ cfg.K) (hv : i.Valid cfg x) : ∃ y, jump cfg x i = .ok y := by
  unfold jump
  have hb1 : cfg.kmin ≤ x.pt.k ∧ x.pt.k ≤ cfg.kmax := ⟨hx.data.lo, hx.data.hi⟩
  simp only [hb1, hv.1, and_self, not_true_eq_false, if_false]
  by_cases hdk : i.newk - x.pt.k = 0
  · simp [hdk]
  · have hf := choice_feasible hx h0 hK i.newk hv.1
    have hv2 := hv.2 hdk
    have : ¬ (candidates (decide (i.newk - x.pt.k > 0)) x.state).length < (i.newk - x.pt.k).natAbs := by omega
    simp only [hdk, if_false, this]
    rw [if_neg (by simp only [not_not]; exact hv2)]
    exact ⟨_, rfl⟩

/-! ## levels -/

structure LevelWF (cfg : Cfg) (l : Level) : Prop where
  recs : ∀ p ∈ l.recs, DataWF cfg p
  start : ∀ p, l.start = some p → DataWF cfg p
  proposed : ∀ y, l.proposed = some y → WF cfg y
  active : ∀ cur, l.current = some cur → l.active = cur.pattern

def SavedWF (cfg : Cfg) (s : Saved) : Prop :=
  DataWF cfg s.cur ∧ ∀ y, s.proposed = some y → WF cfg y

theorem levelWF_fresh (cfg : Cfg) : LevelWF cfg {} :=
  ⟨by simp, by simp, by simp, by simp [Level.current]⟩

theorem current_mem {l : Level} {cur : Point} (h : l.current = some cur) :
    cur ∈ l.recs ∨ (l.recs = [] ∧ l.start = some cur) := by
  unfold Level.current at h
  split at h
  · rename_i p hp
    cases h
    exact Or.inl (List.mem_of_getLast? hp)
  · rename_i hn
    exact Or.inr ⟨List.getLast?_eq_none_iff.mp hn, h⟩

theorem current_dataWF {cfg : Cfg} {l : Level} (hl : LevelWF cfg l) {cur : Point}
    (h : l.current = some cur) : DataWF cfg cur := by
  rcases current_mem h with hm | ⟨_, hs⟩
  · exact hl.recs cur hm
  · exact hl.start cur hs

theorem current_append (l : Level) (p : Point) (s : Option Point) (a : List Bool) (pr : Option SPoint) (n : Nat) :
    ({ start := s, recs := l.recs ++ [p], active := a, proposed := pr, iteration := n } : Level).current = some p := by
  simp [Level.current]

theorem levelWF_setStart {cfg : Cfg} {l : Level} (hl : LevelWF cfg l) {p : Point}
    (hp : DataWF cfg p) (hr : l.recs = []) : LevelWF cfg (l.setStart p) := by
  refine ⟨?_, ?_, hl.proposed, ?_⟩
  · intro q hq; simp [Level.setStart, hr] at hq
  · intro q hq; simp [Level.setStart] at hq; subst hq; exact hp
  · intro cur hc
    simp [Level.setStart, Level.current, hr] at hc
    subst hc; rfl

theorem levelWF_step {cfg : Cfg} {l l' : Level} {i : StepIn} (hl : LevelWF cfg l)
    (h : l.step cfg i = some l') : LevelWF cfg l' := by
  unfold Level.step at h
  split at h
  · cases h
  rename_i cur hcur
  split at h
  · rename_i y hy
    have hx : WF cfg { pt := cur, state := l.active } := ⟨current_dataWF hl hcur, hl.active cur hcur⟩
    have hy' := jump_ok_wf hx hy
    cases h
    refine ⟨?_, hl.start, ?_, ?_⟩
    · intro p hp
      simp only [List.mem_append, List.mem_singleton] at hp
      rcases hp with hp | hp
      · exact hl.recs p hp
      · subst hp
        split
        · exact hy'.data
        · exact current_dataWF hl hcur
    · intro z hz; simp at hz; subst hz; exact hy'
    · intro c hc
      rw [current_append] at hc
      cases hc
      by_cases ha : i.accept = true
      · simp [ha, hy'.mask]
      · simp [ha, hl.active cur hcur]
  · cases h

theorem levelWF_clear {cfg : Cfg} {l : Level} (hl : LevelWF cfg l) : LevelWF cfg l.clear := by
  unfold Level.clear
  split
  · refine ⟨by simp, ?_, hl.proposed, ?_⟩
    · intro p hp; exact current_dataWF hl hp
    · intro c hc
      simp only [Level.current, List.getLast?_nil] at hc
      exact hl.active c hc
  · exact hl

theorem savedWF_save {cfg : Cfg} {l : Level} (hl : LevelWF cfg l) {s : Saved}
    (h : l.save = some s) : SavedWF cfg s := by
  unfold Level.save at h
  split at h
  · cases h
  split at h
  · cases h
  · rename_i cur hcur
    cases h
    exact ⟨current_dataWF hl hcur, hl.proposed⟩

theorem levelWF_load {cfg : Cfg} (l : Level) {s : Saved} (hs : SavedWF cfg s) :
    LevelWF cfg (l.load s) := by
  refine ⟨by simp [Level.load], ?_, ?_, ?_⟩
  · intro p hp; simp [Level.load] at hp; subst hp; exact hs.1
  · intro y hy; simp [Level.load] at hy; exact hs.2 y hy
  · intro c hc
    simp [Level.load, Level.current] at hc
    subst hc; rfl

/-- A step of a well-formed level whose oracle values are possible never raises. -/
theorem step_total {cfg : Cfg} {l : Level} {i : StepIn} (hl : LevelWF cfg l) {cur : Point}
    (hcur : l.current = some cur) (h0 : 0 ≤ cfg.kmin) (hK : cfg.kmax ≤ cfg.K)
    (hv : i.jump.Valid cfg { pt := cur, state := l.active }) : ∃ l', l.step cfg i = some l' := by
  have hx : WF cfg { pt := cur, state := l.active } := ⟨current_dataWF hl hcur, hl.active cur hcur⟩
  obtain ⟨y, hy⟩ := jump_total hx h0 hK hv
  unfold Level.step
  simp [hcur, hy]

/-! ## the ladder -/

theorem levelWF_sweep {cfg : Cfg} {ls ls' : List Level} {idx : List Nat}
    (hls : ∀ l ∈ ls, LevelWF cfg l) (h : sweep ls idx = some ls') : ∀ l ∈ ls', LevelWF cfg l := by
  unfold sweep at h
  split at h
  · rename_i hok
    cases h
    simp only [sweepOk, Bool.and_eq_true, beq_iff_eq, List.all_eq_true] at hok
    obtain ⟨⟨hlen, hidx⟩, hne⟩ := hok
    intro l hl
    simp only [List.mem_map, List.mem_range] at hl
    obtain ⟨t, ht, rfl⟩ := hl
    have htgt : ls.getD t default ∈ ls := by
      rw [List.getD_eq_getElem?_getD, List.getElem?_eq_getElem ht]; exact List.getElem_mem ht
    have hs : idx.getD t 0 < ls.length := by
      have : idx.getD t 0 ∈ idx := by
        rw [List.getD_eq_getElem?_getD, List.getElem?_eq_getElem (by omega)]
        exact List.getElem_mem _
      simpa using hidx _ this
    have hsrc : ls.getD (idx.getD t 0) default ∈ ls := by
      rw [List.getD_eq_getElem?_getD, List.getElem?_eq_getElem hs]; exact List.getElem_mem hs
    have hT := hls _ htgt
    have hS := hls _ hsrc
    have hne' : (ls.getD (idx.getD t 0) default).recs ≠ [] := by
      have := hne _ hsrc; simpa using this
    obtain ⟨pos, hpos⟩ : ∃ pos, (ls.getD (idx.getD t 0) default).recs.getLast? = some pos := by
      cases hq : (ls.getD (idx.getD t 0) default).recs.getLast? with
      | none => exact absurd (List.getLast?_eq_none_iff.mp hq) hne'
      | some pos => exact ⟨pos, rfl⟩
    have hcurS : (ls.getD (idx.getD t 0) default).current = some pos := by
      unfold Level.current; rw [hpos]
    refine ⟨?_, hT.start, hT.proposed, ?_⟩
    · intro p hp
      simp only [hpos, Option.getD_some, List.mem_append, List.mem_singleton] at hp
      rcases hp with hp | hp
      · exact hT.recs p (List.dropLast_subset _ hp)
      · subst hp; exact hS.recs _ (List.mem_of_getLast? hpos)
    · intro c hc
      simp only [Level.current, hpos, Option.getD_some, List.getLast?_concat] at hc
      cases hc
      exact hS.active _ hcurS
  · cases h

structure PTWF (cfg : Cfg) (c : PT) : Prop where
  levels : ∀ l ∈ c.levels, LevelWF cfg l
  saved : ∀ sv, c.saved = some sv → ∀ s ∈ sv, SavedWF cfg s

theorem zipStep_wf {cfg : Cfg} : ∀ {ls : List Level} {ins : List StepIn} {ls' : List Level},
    (∀ l ∈ ls, LevelWF cfg l) → zipStep cfg ls ins = some ls' → ∀ l ∈ ls', LevelWF cfg l
  | [], [], _, _, h => by simp [zipStep] at h; subst h; simp
  | [], _ :: _, _, _, h => by simp [zipStep] at h
  | _ :: _, [], _, _, h => by simp [zipStep] at h
  | l :: ls, i :: is, ls', hl, h => by
    simp only [zipStep, Option.bind_eq_bind, Option.pure_def] at h
    cases h1 : l.step cfg i with
    | none => simp [h1] at h
    | some l1 =>
      cases h2 : zipStep cfg ls is with
      | none => simp [h1, h2] at h
      | some ls1 =>
        simp [h1, h2] at h
        subst h
        intro q hq
        simp only [List.mem_cons] at hq
        rcases hq with rfl | hq
        · exact levelWF_step (hl l (by simp)) h1
        · exact zipStep_wf (fun l hl' => hl l (by simp [hl'])) h2 q hq

theorem zipStart_wf {cfg : Cfg} : ∀ {ls : List Level} {pts : List Point} {ls' : List Level},
    (∀ l ∈ ls, LevelWF cfg l) → (∀ p ∈ pts, DataWF cfg p) → (∀ l ∈ ls, l.recs = []) →
    zipStart ls pts = some ls' → ∀ l ∈ ls', LevelWF cfg l
  | [], [], _, _, _, _, h => by simp [zipStart] at h; subst h; simp
  | [], _ :: _, _, _, _, _, h => by simp [zipStart] at h
  | _ :: _, [], _, _, _, _, h => by simp [zipStart] at h
  | l :: ls, p :: ps, ls', hl, hp, hr, h => by
    simp only [zipStart, Option.bind_eq_bind, Option.pure_def] at h
    cases h2 : zipStart ls ps with
    | none => simp [h2] at h
    | some ls1 =>
      simp [h2] at h
      subst h
      intro q hq
      simp only [List.mem_cons] at hq
      rcases hq with rfl | hq
      · exact levelWF_setStart (hl l (by simp)) (hp p (by simp)) (hr l (by simp))
      · exact zipStart_wf (fun l hl' => hl l (by simp [hl'])) (fun p hp' => hp p (by simp [hp']))
          (fun l hl' => hr l (by simp [hl'])) h2 q hq

theorem zipLoad_wf {cfg : Cfg} : ∀ {ls : List Level} {sv : List Saved} {ls' : List Level},
    (∀ s ∈ sv, SavedWF cfg s) → zipLoad ls sv = some ls' → ∀ l ∈ ls', LevelWF cfg l
  | [], [], _, _, h => by simp [zipLoad] at h; subst h; simp
  | [], _ :: _, _, _, h => by simp [zipLoad] at h
  | _ :: _, [], _, _, h => by simp [zipLoad] at h
  | l :: ls, s :: ss, ls', hs, h => by
    simp only [zipLoad, Option.bind_eq_bind, Option.pure_def] at h
    cases h2 : zipLoad ls ss with
    | none => simp [h2] at h
    | some ls1 =>
      simp [h2] at h
      subst h
      intro q hq
      simp only [List.mem_cons] at hq
      rcases hq with rfl | hq
      · exact levelWF_load l (hs s (by simp))
      · exact zipLoad_wf (fun s hs' => hs s (by simp [hs'])) h2 q hq

/-- Side condition of an operation that the code does not check itself. -/
def Op.ok (cfg : Cfg) (c : PT) : Op → Prop
  | .start pts => (∀ p ∈ pts, DataWF cfg p) ∧ ∀ l ∈ c.levels, l.recs = []
  | _ => True

def OkRun (cfg : Cfg) : PT → List Op → Prop
  | _, [] => True
  | c, op :: ops => op.ok cfg c ∧ ∀ c', c.apply cfg op = some c' → OkRun cfg c' ops

theorem ptwf_apply {cfg : Cfg} {c c' : PT} {op : Op} (hc : PTWF cfg c) (hok : op.ok cfg c)
    (h : c.apply cfg op = some c') : PTWF cfg c' := by
  cases op with
  | start pts =>
    simp only [PT.apply, Option.bind_eq_bind, Option.pure_def] at h
    cases h1 : zipStart c.levels pts with
    | none => simp [h1] at h
    | some ls =>
      simp [h1] at h; subst h
      exact ⟨zipStart_wf hc.levels hok.1 hok.2 h1, hc.saved⟩
  | step ins sw =>
    simp only [PT.apply, Option.bind_eq_bind, Option.pure_def] at h
    cases h1 : zipStep cfg c.levels ins with
    | none => simp [h1] at h
    | some ls =>
      have hls := zipStep_wf hc.levels h1
      cases sw with
      | none => simp [h1] at h; subst h; exact ⟨hls, hc.saved⟩
      | some idx =>
        simp only [h1, Option.bind_some] at h
        cases h2 : sweep ls idx with
        | none => simp [h2] at h
        | some ls2 =>
          simp [h2] at h; subst h
          exact ⟨levelWF_sweep hls h2, hc.saved⟩
  | clear =>
    simp only [PT.apply] at h
    cases h
    refine ⟨?_, hc.saved⟩
    intro l hl
    simp only [List.mem_map] at hl
    obtain ⟨l0, hl0, rfl⟩ := hl
    exact levelWF_clear (hc.levels l0 hl0)
  | save =>
    simp only [PT.apply] at h
    split at h
    · cases h
      refine ⟨hc.levels, ?_⟩
      intro sv hsv s hs
      simp at hsv; subst hsv
      simp only [List.mem_filterMap] at hs
      obtain ⟨l, hl, hls⟩ := hs
      exact savedWF_save (hc.levels l hl) hls
    · cases h
  | load =>
    simp only [PT.apply, Option.bind_eq_bind, Option.pure_def] at h
    cases h1 : c.saved with
    | none => simp [h1] at h
    | some sv =>
      cases h2 : zipLoad c.levels sv with
      | none => simp [h1, h2] at h
      | some ls =>
        simp [h1, h2] at h; subst h
        exact ⟨zipLoad_wf (hc.saved sv h1) h2, by
          intro sv' hsv'; simp only at hsv'; exact hc.saved sv' (h1.trans hsv')⟩

theorem ptwf_run {cfg : Cfg} : ∀ (ops : List Op) {c c' : PT}, PTWF cfg c → OkRun cfg c ops →
    c.run cfg ops = some c' → PTWF cfg c'
  | [], c, c', hc, _, h => by simp [PT.run] at h; subst h; exact hc
  | op :: ops, c, c', hc, hok, h => by
    simp only [PT.run] at h
    cases h1 : c.apply cfg op with
    | none => simp [h1] at h
    | some c1 =>
      simp only [h1] at h
      exact ptwf_run ops (ptwf_apply hc hok.1 h1) (hok.2 c1 h1) h

theorem ptwf_fresh (cfg : Cfg) (n : Nat) : PTWF cfg (PT.fresh n) := by
  refine ⟨?_, by simp [PT.fresh]⟩
  intro l hl
  simp only [PT.fresh, List.mem_replicate] at hl
  rw [hl.2]; exact levelWF_fresh cfg

/-! ## `_update`: which in-model proposals are updated -/

theorem step_inv {cfg : Cfg} {l l' : Level} {i : StepIn} (h : l.step cfg i = some l') :
    ∃ cur y, l.current = some cur ∧ jump cfg { pt := cur, state := l.active } i.jump = .ok y ∧
      l' = { l with proposed := some y
                    recs := l.recs ++ [if i.accept then y.pt else cur]
                    active := if i.accept then y.state else l.active
                    iteration := l.iteration + 1 } := by
  unfold Level.step at h
  split at h
  · cases h
  rename_i cur hcur
  split at h
  · rename_i y hy
    cases h
    exact ⟨cur, y, hcur, hy, rfl⟩
  · cases h

theorem updated_after_step {cfg : Cfg} {l l' : Level} {i : StepIn} (hl : LevelWF cfg l)
    (h : l.step cfg i = some l') (hit : 1 ≤ l.iteration) :
    ∃ cur y, l.current = some cur ∧ jump cfg { pt := cur, state := l.active } i.jump = .ok y ∧
      l'.updated = (List.range cfg.K).map fun j =>
        l.active.getD j false && (if i.accept then y.state.getD j false else l.active.getD j false) := by
  obtain ⟨cur, y, hcur, hy, rfl⟩ := step_inv h
  refine ⟨cur, y, hcur, hy, ?_⟩
  have hx : WF cfg { pt := cur, state := l.active } := ⟨current_dataWF hl hcur, hl.active cur hcur⟩
  have hy' := jump_ok_wf hx hy
  have hact := hl.active cur hcur
  have hprev : (if (l.recs ++ [if i.accept then y.pt else cur]).length = 1 then l.start
      else (l.recs ++ [if i.accept then y.pt else cur]).dropLast.getLast?) = some cur := by
    rw [List.dropLast_concat]
    unfold Level.current at hcur
    cases hr : l.recs.getLast? with
    | none =>
      have : l.recs = [] := List.getLast?_eq_none_iff.mp hr
      simp [this]
      rw [hr] at hcur; exact hcur
    | some p =>
      rw [hr] at hcur
      have : l.recs ≠ [] := by intro h0; rw [h0] at hr; simp at hr
      have hlen : l.recs.length ≠ 0 := by
        intro h0; exact this (List.length_eq_zero_iff.mp h0)
      simp [hlen]
      simpa using hcur
  unfold Level.updated
  simp only [List.getLast?_concat, hprev]
  have hit' : l.iteration + 1 > 1 := by omega
  simp only [hit', if_true]
  by_cases ha : i.accept = true
  · simp only [ha, if_true]
    rw [hy'.data.len, ← hact, ← hy'.mask]
  · have ha' : i.accept = false := by simpa using ha
    simp only [ha', Bool.false_eq_true, if_false]
    rw [(current_dataWF hl hcur).len, ← hact]

/-! ## C11: counting -/

theorem choose_eq : ∀ n k, choose n k = Nat.choose n k
  | _, 0 => by simp [choose]
  | 0, k + 1 => by simp [choose]
  | n + 1, k + 1 => by
    simp [choose, Nat.choose_succ_succ, choose_eq n k, choose_eq n (k + 1)]

/-- `C(K,k) · C(K−k,d) = C(K,k+d) · C(k+d,d)` — for all `K k d` (both sides vanish when `k+d > K`). -/
theorem choose_identity (K k d : ℕ) :
    K.choose k * (K - k).choose d = K.choose (k + d) * (k + d).choose d := by
  have h := @Nat.choose_mul K (k + d) k (by omega)
  rw [Nat.add_sub_cancel_left] at h
  rw [← h, Nat.choose_symm_add]

/-- `C(x)`: the number of ways of choosing as many active components as `x` has. -/
def Cw (cfg : Cfg) (x : SPoint) : ℕ := choose cfg.K x.pt.k.toNat

theorem wf_k_eq {cfg : Cfg} {x : SPoint} (hx : WF cfg x) :
    x.pt.k = (countTrue x.state : Int) ∧ x.state.length = cfg.K ∧ countTrue x.state ≤ cfg.K := by
  have h1 := hx.data.count
  rw [← hx.mask] at h1
  have h2 : x.state.length = cfg.K := by rw [hx.mask, pattern_length, hx.data.len]
  exact ⟨h1, h2, h2 ▸ countTrue_le_length _⟩

/-- The number of equally likely `choice` outcomes of the move and of its reverse balance
    the numbers of equally sized sub-models:
    `ways(x→x') · C(x) = ways(x'→x) · C(x')`. -/
theorem ways_balance {cfg : Cfg} {x x' : SPoint} (hx : WF cfg x) (hx' : WF cfg x') :
    nWays x' x * Cw cfg x = nWays x x' * Cw cfg x' := by
  obtain ⟨hk, hl, hle⟩ := wf_k_eq hx
  obtain ⟨hk', hl', hle'⟩ := wf_k_eq hx'
  unfold nWays Cw
  simp only [choose_eq]
  have hup := candidates_up_length x.state
  have hup' := candidates_up_length x'.state
  have hdn := candidates_down_length x.state
  have hdn' := candidates_down_length x'.state
  rcases Int.lt_trichotomy (x'.pt.k - x.pt.k) 0 with h | h | h
  · -- a death x → x'
    have h' : x.pt.k - x'.pt.k > 0 := by omega
    have e1 : ¬ (x'.pt.k - x.pt.k = 0) := by omega
    have e2 : ¬ (x.pt.k - x'.pt.k = 0) := by omega
    have e3 : ¬ (x'.pt.k - x.pt.k > 0) := by omega
    simp only [e1, e2, if_false, decide_eq_true h', decide_eq_false e3, hdn]
    have ecand : (candidates true x'.state).length = cfg.K - countTrue x'.state := by omega
    rw [ecand]
    have en1 : (x'.pt.k - x.pt.k).natAbs = countTrue x.state - countTrue x'.state := by omega
    have en2 : (x.pt.k - x'.pt.k).natAbs = countTrue x.state - countTrue x'.state := by omega
    have et1 : x.pt.k.toNat = countTrue x.state := by omega
    have et2 : x'.pt.k.toNat = countTrue x'.state := by omega
    rw [en1, en2, et1, et2]
    have hid := choose_identity cfg.K (countTrue x'.state) (countTrue x.state - countTrue x'.state)
    have : countTrue x'.state + (countTrue x.state - countTrue x'.state) = countTrue x.state := by omega
    rw [this] at hid
    rw [Nat.mul_comm, ← hid, Nat.mul_comm]
  · have h' : x.pt.k - x'.pt.k = 0 := by omega
    have : x.pt.k = x'.pt.k := by omega
    simp [h, h', this]
  · -- a birth x → x'
    have e1 : ¬ (x'.pt.k - x.pt.k = 0) := by omega
    have e2 : ¬ (x.pt.k - x'.pt.k = 0) := by omega
    have e3 : ¬ (x.pt.k - x'.pt.k > 0) := by omega
    simp only [e1, e2, if_false, decide_eq_true h, decide_eq_false e3, hdn']
    have ecand : (candidates true x.state).length = cfg.K - countTrue x.state := by omega
    rw [ecand]
    have en1 : (x'.pt.k - x.pt.k).natAbs = countTrue x'.state - countTrue x.state := by omega
    have en2 : (x.pt.k - x'.pt.k).natAbs = countTrue x'.state - countTrue x.state := by omega
    have et1 : x.pt.k.toNat = countTrue x.state := by omega
    have et2 : x'.pt.k.toNat = countTrue x'.state := by omega
    rw [en1, en2, et1, et2]
    have hid := choose_identity cfg.K (countTrue x.state) (countTrue x'.state - countTrue x.state)
    have : countTrue x.state + (countTrue x'.state - countTrue x.state) = countTrue x'.state := by omega
    rw [this] at hid
    rw [Nat.mul_comm, hid, Nat.mul_comm]

theorem Cw_pos {cfg : Cfg} {x : SPoint} (hx : WF cfg x) : 0 < Cw cfg x := by
  obtain ⟨hk, _, hle⟩ := wf_k_eq hx
  unfold Cw
  rw [choose_eq]
  apply Nat.choose_pos
  omega

theorem nWays_pos {cfg : Cfg} {x x' : SPoint} (hx : WF cfg x) (hx' : WF cfg x') :
    0 < nWays x' x := by
  obtain ⟨hk, hl, hle⟩ := wf_k_eq hx
  obtain ⟨hk', hl', hle'⟩ := wf_k_eq hx'
  unfold nWays
  simp only [choose_eq]
  have hup := candidates_up_length x.state
  have hdn := candidates_down_length x.state
  split
  · exact Nat.one_pos
  · apply Nat.choose_pos
    by_cases h : x'.pt.k - x.pt.k > 0
    · rw [decide_eq_true h]; omega
    · rw [decide_eq_false h, hdn]; omega

/-! ## C11: densities and the acceptance probability over ℝ -/

noncomputable section

/-- The real number recorded as `acceptance_ratio`. -/
def arReal : AR → ℝ
  | .zero => 0
  | .one => 1
  | .exp l => Real.exp (l : ℝ)

theorem arReal_arOf (l : Rat) : arReal (arOf l) = min 1 (Real.exp (l : ℝ)) := by
  unfold arOf
  split
  · rename_i h
    have h' : (0 : ℝ) < (l : ℝ) := by exact_mod_cast h
    have : 1 ≤ Real.exp (l : ℝ) := le_of_lt (Real.one_lt_exp_iff.mpr h')
    simp [arReal, min_eq_left this]
  · rename_i h
    have h' : (l : ℝ) ≤ 0 := by
      have : l ≤ 0 := not_lt.mp h
      exact_mod_cast this
    have : Real.exp (l : ℝ) ≤ 1 := Real.exp_le_one_iff.mpr h'
    simp [arReal, min_eq_right this]

/-- The density that the code reports for the composite jump `givenx → xi`. -/
def qCode (xi givenx : SPoint) (d : Dens) : ℝ := Real.exp ((logqCode xi givenx d : Rat) : ℝ)

/-- The value of an exact log-density `exp(log) / ways`. -/
def LogQ.val (q : LogQ) : ℝ := Real.exp (q.log : ℝ) / (q.ways : ℝ)

/-- The density of the true law of the composite jump `givenx → xi`: the reported one
    divided by the number of equally likely outcomes of the `choice` call. -/
def qTrue (xi givenx : SPoint) (d : Dens) : ℝ := (logqTrue xi givenx d).val

/-- `f = prior × likelihood^β` at a point with stats `(logl, logp)`. -/
def fReal (beta logl logp : Rat) : ℝ := Real.exp ((logp + logl * beta : Rat) : ℝ)

theorem qTrue_eq (xi givenx : SPoint) (d : Dens) :
    qTrue xi givenx d = qCode xi givenx d / (nWays xi givenx : ℝ) := rfl

theorem qCode_pos (xi givenx : SPoint) (d : Dens) : 0 < qCode xi givenx d := Real.exp_pos _
theorem fReal_pos (b l p : Rat) : 0 < fReal b l p := Real.exp_pos _

theorem code_ratio {cfg : Cfg} {x x' : SPoint} (hx : WF cfg x) (hx' : WF cfg x') (drev dfwd : Dens) :
    qCode x x' drev / qCode x' x dfwd
      = (qTrue x x' drev / qTrue x' x dfwd) * ((Cw cfg x : ℝ) / (Cw cfg x' : ℝ)) := by
  have hbal : ((nWays x' x : ℕ) : ℝ) * (Cw cfg x : ℝ) = (nWays x x' : ℝ) * (Cw cfg x' : ℝ) := by
    exact_mod_cast ways_balance hx hx'
  have hwf : (0 : ℝ) < (nWays x' x : ℝ) := by exact_mod_cast nWays_pos hx hx'
  have hwr : (0 : ℝ) < (nWays x x' : ℝ) := by exact_mod_cast nWays_pos hx' hx
  have hc : (0 : ℝ) < (Cw cfg x : ℝ) := by exact_mod_cast Cw_pos hx
  have hc' : (0 : ℝ) < (Cw cfg x' : ℝ) := by exact_mod_cast Cw_pos hx'
  have ha := qCode_pos x x' drev
  have hb := qCode_pos x' x dfwd
  rw [qTrue_eq, qTrue_eq]
  field_simp
  linarith [hbal]

/-- `A·min(1, B/A) = B·min(1, A/B)` for non-negative reals (with `x/0 = 0`). -/
theorem mh_balance (A B : ℝ) (hA : 0 ≤ A) (hB : 0 ≤ B) :
    A * min 1 (B / A) = B * min 1 (A / B) := by
  rcases eq_or_lt_of_le hA with hA0 | hApos
  · subst hA0; simp
  rcases eq_or_lt_of_le hB with hB0 | hBpos
  · subst hB0; simp
  rcases le_total A B with h | h
  · have h1 : 1 ≤ B / A := by rw [le_div_iff₀ hApos]; linarith
    have h2 : A / B ≤ 1 := by rw [div_le_iff₀ hBpos]; linarith
    rw [min_eq_left h1, min_eq_right h2]
    field_simp
  · have h1 : B / A ≤ 1 := by rw [div_le_iff₀ hApos]; linarith
    have h2 : 1 ≤ A / B := by rw [le_div_iff₀ hBpos]; linarith
    rw [min_eq_right h1, min_eq_left h2]
    field_simp

/-- The acceptance probability the code computes, as a function of the true densities. -/
theorem acceptance_eq {cfg : Cfg} {x x' : SPoint} (hx : WF cfg x) (hx' : WF cfg x')
    (beta logl logp logl' logp' g : Rat) (drev dfwd : Dens) :
    arReal (arOf (logAR beta logl logp logl' logp'
        ((logqCode x x' drev - logqCode x' x dfwd) + g)))
      = min 1 (fReal beta logl' logp' * (Cw cfg x : ℝ) * qTrue x x' drev
                / (fReal beta logl logp * (Cw cfg x' : ℝ) * qTrue x' x dfwd) * Real.exp (g : ℝ)) := by
  rw [arReal_arOf]
  congr 1
  have hcr := code_ratio hx hx' drev dfwd
  unfold qCode at hcr
  unfold logAR fReal
  push_cast
  have e : ((logp' : ℝ) + (logl' : ℝ) * (beta : ℝ) - (logp : ℝ) - (logl : ℝ) * (beta : ℝ)
        + ((logqCode x x' drev : ℝ) - (logqCode x' x dfwd : ℝ) + (g : ℝ)))
      = ((logp' : ℝ) + (logl' : ℝ) * (beta : ℝ)) - ((logp : ℝ) + (logl : ℝ) * (beta : ℝ))
        + ((logqCode x x' drev : ℝ) - (logqCode x' x dfwd : ℝ)) + (g : ℝ) := by ring
  rw [e, Real.exp_add, Real.exp_add, Real.exp_sub, Real.exp_sub, hcr]
  ring

theorem reversible_core {cfg : Cfg} {x x' : SPoint} (hx : WF cfg x) (hx' : WF cfg x')
    (beta logl logp logl' logp' : Rat) (drev dfwd : Dens) :
    (fReal beta logl logp / (Cw cfg x : ℝ)) * qTrue x' x dfwd
        * arReal (arOf (logAR beta logl logp logl' logp' (logqCode x x' drev - logqCode x' x dfwd)))
      = (fReal beta logl' logp' / (Cw cfg x' : ℝ)) * qTrue x x' drev
        * arReal (arOf (logAR beta logl' logp' logl logp (logqCode x' x dfwd - logqCode x x' drev))) := by
  have h1 := acceptance_eq hx hx' beta logl logp logl' logp' 0 drev dfwd
  have h2 := acceptance_eq hx' hx beta logl' logp' logl logp 0 dfwd drev
  simp only [add_zero, Rat.cast_zero, Real.exp_zero, mul_one] at h1 h2
  rw [h1, h2]
  have hc : (0 : ℝ) < (Cw cfg x : ℝ) := by exact_mod_cast Cw_pos hx
  have hc' : (0 : ℝ) < (Cw cfg x' : ℝ) := by exact_mod_cast Cw_pos hx'
  have hf := fReal_pos beta logl logp
  have hf' := fReal_pos beta logl' logp'
  have hq : 0 < qTrue x' x dfwd := by
    rw [qTrue_eq]; exact div_pos (qCode_pos _ _ _) (by exact_mod_cast nWays_pos hx hx')
  have hq' : 0 < qTrue x x' drev := by
    rw [qTrue_eq]; exact div_pos (qCode_pos _ _ _) (by exact_mod_cast nWays_pos hx' hx)
  have hA : 0 ≤ fReal beta logl logp / (Cw cfg x : ℝ) * qTrue x' x dfwd := by positivity
  have hB : 0 ≤ fReal beta logl' logp' / (Cw cfg x' : ℝ) * qTrue x x' drev := by positivity
  have key := mh_balance _ _ hA hB
  have e1 : fReal beta logl' logp' * (Cw cfg x : ℝ) * qTrue x x' drev
        / (fReal beta logl logp * (Cw cfg x' : ℝ) * qTrue x' x dfwd)
      = (fReal beta logl' logp' / (Cw cfg x' : ℝ) * qTrue x x' drev)
        / (fReal beta logl logp / (Cw cfg x : ℝ) * qTrue x' x dfwd) := by
    field_simp
  have e2 : fReal beta logl logp * (Cw cfg x' : ℝ) * qTrue x' x dfwd
        / (fReal beta logl' logp' * (Cw cfg x : ℝ) * qTrue x x' drev)
      = (fReal beta logl logp / (Cw cfg x : ℝ) * qTrue x' x dfwd)
        / (fReal beta logl' logp' / (Cw cfg x' : ℝ) * qTrue x x' drev) := by
    field_simp
  rw [e1, e2]
  exact key

end

/-! ## C11: finite configuration spaces -/

theorem mh_stationary {X : Type} [Fintype X] [DecidableEq X] (π : X → ℝ) (q a : X → X → ℝ)
    (hdb : ∀ x y, π x * q x y * a x y = π y * q y x * a y x) (y : X) :
    ∑ x, π x * (q x y * a x y + if x = y then 1 - ∑ z, q x z * a x z else 0) = π y := by
  simp only [mul_add, Finset.sum_add_distrib, mul_ite, mul_zero]
  rw [Finset.sum_ite_eq' Finset.univ y]
  simp only [Finset.mem_univ, if_true]
  have : ∑ x, π x * (q x y * a x y) = ∑ x, π y * (q y x * a y x) := by
    apply Finset.sum_congr rfl
    intro x _
    have := hdb x y
    linarith
  rw [this, ← Finset.mul_sum]
  ring

theorem ratio_rewrite (fx fy cx cy qxy qyx : ℝ) :
    fy * cx * qyx / (fx * cy * qxy) = (fy / cy * qyx) / (fx / cx * qxy) := by
  rw [div_mul_eq_mul_div, div_mul_eq_mul_div, div_div_div_eq]
  ring_nf

theorem fc_detailed_balance {X : Type} (f C : X → ℝ) (q a : X → X → ℝ)
    (hf : ∀ x, 0 ≤ f x) (hC : ∀ x, 0 < C x) (hq : ∀ x y, 0 ≤ q x y)
    (ha : ∀ x y, a x y = min 1 (f y * C x * q y x / (f x * C y * q x y))) (x y : X) :
    (f x / C x) * q x y * a x y = (f y / C y) * q y x * a y x := by
  rw [ha x y, ha y x, ratio_rewrite, ratio_rewrite]
  exact mh_balance _ _ (mul_nonneg (div_nonneg (hf x) (hC x).le) (hq x y))
    (mul_nonneg (div_nonneg (hf y) (hC y).le) (hq y x))

theorem index_marginal (K : ℕ) {V : Type} [Fintype V] (f : Finset (Fin K) → V → ℝ) (k : ℕ) :
    ∑ x ∈ (Finset.univ : Finset (Finset (Fin K) × V)).filter (fun x => x.1.card = k),
        f x.1 x.2 / (K.choose x.1.card : ℝ)
      = (∑ A ∈ Finset.powersetCard k (Finset.univ : Finset (Fin K)), ∑ v, f A v)
          / ((Finset.powersetCard k (Finset.univ : Finset (Fin K))).card : ℝ) := by
  have hset : (Finset.univ : Finset (Finset (Fin K) × V)).filter (fun x => x.1.card = k)
      = (Finset.powersetCard k (Finset.univ : Finset (Fin K))) ×ˢ (Finset.univ : Finset V) := by
    ext x
    simp [Finset.mem_powersetCard]
  rw [hset, Finset.sum_product, Finset.card_powersetCard, Finset.card_univ, Fintype.card_fin,
    Finset.sum_div]
  apply Finset.sum_congr rfl
  intro A hA
  rw [Finset.sum_div]
  apply Finset.sum_congr rfl
  intro v _
  rw [(Finset.mem_powersetCard.mp hA).2]

/-! ## runs without a (re)start need no side condition -/

def Op.isStart : Op → Bool
  | .start _ => true
  | _ => false

theorem okRun_noStart {cfg : Cfg} : ∀ (ops : List Op) (c : PT),
    (∀ op ∈ ops, op.isStart = false) → OkRun cfg c ops
  | [], _, _ => trivial
  | op :: ops, c, h => by
    refine ⟨?_, fun c' _ => okRun_noStart ops c' (fun o ho => h o (by simp [ho]))⟩
    have := h op (by simp)
    cases op <;> simp_all [Op.ok, Op.isStart]

end Transdim
end Epsie
