/-
  Helper lemmas for C02 (reported density = law of the jumps).

  * number helpers of `EpsieModel.Density` (`floorceil`, `ceilfloor`,
    `roundHalfEven`, `pyMod`) against `⌊·⌋`;
  * the discrete CDF caches: coherence invariant, literal loop = cache-free spec;
  * telescoping of cell masses, the geometric series of a rejection loop;
  * what the library functions *mean* in terms of a base CDF `F` and a base
    density `g` of the standard draw (`tnPdf`, `tnCdf`: the trusted reading of
    scipy's `truncnorm`).
-/
import EpsieModel.Density
import Mathlib.Data.Rat.Floor
import Mathlib.Algebra.Order.Floor.Ring
import Mathlib.Algebra.BigOperators.Intervals
import Mathlib.Analysis.SpecificLimits.Basic
import Mathlib.Tactic.Linarith
import Mathlib.Tactic.Ring
import Mathlib.Tactic.FieldSimp
import Mathlib.Tactic.LinearCombination

namespace Epsie.Density

/-! ## number helpers -/

theorem rat_floor_eq (q : ℚ) : q.floor = ⌊q⌋ := rfl

theorem rat_ceil_eq (q : ℚ) : q.ceil = ⌈q⌉ := by
  rw [Rat.ceil_eq_neg_floor_neg, rat_floor_eq, Int.floor_neg, neg_neg]

@[simp] theorem floorceil_intCast (n : ℤ) : floorceil (n : ℚ) = n := by
  unfold floorceil; split <;> simp [rat_floor_eq, rat_ceil_eq]

@[simp] theorem ceilfloor_intCast (n : ℤ) : ceilfloor (n : ℚ) = n := by
  unfold ceilfloor; split <;> simp [rat_floor_eq, rat_ceil_eq]

@[simp] theorem roundHalfEven_intCast (n : ℤ) : roundHalfEven (n : ℚ) = n := by
  unfold roundHalfEven
  simp only [rat_floor_eq, Int.floor_intCast, sub_self]
  norm_num

/-- `roundHalfEven z = k` for every draw strictly inside the cell `(k - 1/2, k + 1/2)`. -/
theorem roundHalfEven_of_mem_cell {z : ℚ} {k : ℤ} (h0 : (k : ℚ) - 1/2 < z) (h1 : z < (k : ℚ) + 1/2) :
    roundHalfEven z = k := by
  unfold roundHalfEven
  by_cases hk : (k : ℚ) ≤ z
  · have hf : z.floor = k := Int.floor_eq_iff.mpr ⟨hk, by linarith⟩
    simp only [hf]
    rw [if_pos (by linarith)]
  · have hk' : z < (k : ℚ) := not_le.mp hk
    have hf : z.floor = k - 1 := by
      rw [rat_floor_eq, Int.floor_eq_iff]
      constructor
      · push_cast; linarith
      · push_cast; linarith
    simp only [hf]
    have : ¬ (z - ((k - 1 : ℤ) : ℚ) < 1/2) := by push_cast; linarith
    rw [if_neg this, if_pos (by push_cast; linarith)]
    ring

/-- Conversely a draw that rounds to `k` lies in the closed cell. -/
theorem mem_cell_of_roundHalfEven {z : ℚ} {k : ℤ} (h : roundHalfEven z = k) :
    (k : ℚ) - 1/2 ≤ z ∧ z ≤ (k : ℚ) + 1/2 := by
  unfold roundHalfEven at h
  have h0 : (z.floor : ℚ) ≤ z := Int.floor_le z
  have h1 : z < (z.floor : ℚ) + 1 := Int.lt_floor_add_one z
  simp only [] at h
  split at h
  · subst h; constructor <;> linarith
  · split at h
    · subst h; push_cast; constructor <;> linarith
    · have hr : z - (z.floor : ℚ) = 1/2 := by
        rename_i h2 h3
        exact le_antisymm (not_lt.mp h3) (not_lt.mp h2)
      split at h
      · subst h; constructor <;> linarith
      · subst h; push_cast; constructor <;> linarith

/-- `floorceil z = k > 0` exactly on the cell `(k - 1, k]`. -/
theorem floorceil_eq_pos {z : ℚ} {k : ℤ} (hk : 0 < k) :
    floorceil z = k ↔ (k : ℚ) - 1 < z ∧ z ≤ k := by
  unfold floorceil
  have hk' : (0 : ℚ) < k := by exact_mod_cast hk
  split
  · rename_i hz
    constructor
    · intro h
      have := Int.floor_le z
      rw [rat_floor_eq] at h; rw [h] at this
      linarith
    · intro ⟨h0, _⟩
      have : (1 : ℚ) ≤ k := by exact_mod_cast hk
      linarith
  · rw [rat_ceil_eq, Int.ceil_eq_iff]

/-- `floorceil z = k < 0` exactly on the cell `[k, k + 1)`. -/
theorem floorceil_eq_neg {z : ℚ} {k : ℤ} (hk : k < 0) :
    floorceil z = k ↔ (k : ℚ) ≤ z ∧ z < k + 1 := by
  unfold floorceil
  have hk' : (k : ℚ) < 0 := by exact_mod_cast hk
  split
  · rw [rat_floor_eq, Int.floor_eq_iff]
  · rename_i hz
    have hz' : 0 ≤ z := not_lt.mp hz
    constructor
    · intro h
      have := Int.le_ceil z
      rw [rat_ceil_eq] at h; rw [h] at this
      linarith
    · intro ⟨_, h1⟩
      have : (k : ℚ) + 1 ≤ 0 := by exact_mod_cast hk
      linarith

/-- `floorceil z = 0` only for `z = 0` (a null set: the code's `dx == 0 → -inf`). -/
theorem floorceil_eq_zero {z : ℚ} : floorceil z = 0 ↔ z = 0 := by
  unfold floorceil
  split
  · rename_i hz
    rw [rat_floor_eq, Int.floor_eq_iff]
    constructor
    · intro ⟨h, _⟩; simp at h; linarith
    · intro h; linarith
  · rename_i hz
    rw [rat_ceil_eq, Int.ceil_eq_iff]
    constructor
    · intro ⟨_, h⟩; simp at h; exact le_antisymm h (not_lt.mp hz)
    · intro h; subst h; simp

/-! ### `pyMod` -/

theorem pyMod_eq_fract {x m : ℚ} (hm : m ≠ 0) : pyMod x m = m * Int.fract (x / m) := by
  unfold pyMod Int.fract
  rw [rat_floor_eq]
  field_simp

theorem pyMod_nonneg {x m : ℚ} (hm : 0 < m) : 0 ≤ pyMod x m := by
  rw [pyMod_eq_fract hm.ne']
  exact mul_nonneg hm.le (Int.fract_nonneg _)

theorem pyMod_lt {x m : ℚ} (hm : 0 < m) : pyMod x m < m := by
  rw [pyMod_eq_fract hm.ne']
  have := Int.fract_lt_one (x / m)
  nlinarith

theorem pyMod_of_mem {x m : ℚ} (hm : 0 < m) (h0 : 0 ≤ x) (h1 : x < m) : pyMod x m = x := by
  rw [pyMod_eq_fract hm.ne']
  have : Int.fract (x / m) = x / m :=
    Int.fract_eq_iff.mpr ⟨div_nonneg h0 hm.le, (div_lt_one hm).mpr h1, 0, by simp⟩
  rw [this]; field_simp

theorem pyMod_add_int_mul {x m : ℚ} (hm : m ≠ 0) (n : ℤ) : pyMod (x + n * m) m = pyMod x m := by
  rw [pyMod_eq_fract hm, pyMod_eq_fract hm]
  have : (x + n * m) / m = x / m + n := by field_simp
  rw [this, Int.fract_add_intCast]

theorem pyMod_sub_int_mul {x m : ℚ} (hm : m ≠ 0) (n : ℤ) : pyMod (x - n * m) m = pyMod x m := by
  have := pyMod_add_int_mul (x := x) hm (-n)
  push_cast at this
  rw [← this]; ring_nf

/-- `x = pyMod x m + (integer)·m`. -/
theorem pyMod_spec (x m : ℚ) : x = pyMod x m + ((x / m).floor : ℚ) * m := by
  unfold pyMod; ring

/-- The reflection law behind the symmetry of `Angular`: `t ↦ m - t` maps residues `r ≠ 0` to
    `m - r` and the residue `0` to itself. -/
theorem pyMod_reflect {t m : ℚ} (hm : 0 < m) :
    pyMod (m - t) m = if pyMod t m = 0 then 0 else m - pyMod t m := by
  have hm' := hm.ne'
  rw [pyMod_eq_fract hm', pyMod_eq_fract hm']
  have h1 : (m - t) / m = -(t / m) + (1 : ℤ) := by push_cast; field_simp; ring
  rw [h1, Int.fract_add_intCast]
  by_cases hz : Int.fract (t / m) = 0
  · have : Int.fract (-(t / m)) = 0 := by
      rw [Int.fract_eq_iff]
      refine ⟨le_refl _, by norm_num, ?_⟩
      obtain ⟨z, hz'⟩ : ∃ z : ℤ, t / m = z := by
        rw [Int.fract_eq_iff] at hz
        obtain ⟨_, _, z, hz'⟩ := hz
        exact ⟨z, by linarith⟩
      exact ⟨-z, by rw [hz']; push_cast; ring⟩
    rw [this, hz]; simp
  · rw [Int.fract_neg hz]
    have : ¬ (m * Int.fract (t / m) = 0) := by
      intro h
      rcases mul_eq_zero.mp h with h | h
      · exact hm' h
      · exact hz h
    rw [if_neg this]; ring

/-! ## the discrete CDF caches -/

@[simp] theorem upd_same {α : Type} (f : Nat → α) (i : Nat) (v : α) : upd f i v i = v := by simp [upd]

theorem upd_other {α : Type} (f : Nat → α) {i j : Nat} (v : α) (h : j ≠ i) : upd f i v j = f j := by
  simp [upd, h]

theorem lookup_mem {k : Key} {v : ℚ} : ∀ {l : List (Key × ℚ)}, lookup k l = some v → (k, v) ∈ l
  | [], h => by simp [lookup] at h
  | (k', v') :: rest, h => by
      unfold lookup at h
      split at h
      · rename_i hk; cases h; subst hk; exact List.mem_cons_self
      · exact List.mem_cons_of_mem _ (lookup_mem h)

/-- Every stored value is the library's value at this parameter's recorded scale. -/
def Coherent (G : Key → ℚ → ℚ) (c : Caches) : Prop :=
  ∀ pi k v, (k, v) ∈ c.slots (c.ptr pi) → ∃ s, c.cachedstd pi = some s ∧ v = G k s

theorem coherent_fresh (G : Key → ℚ → ℚ) (shared : Bool) : Coherent G (Caches.fresh shared) := by
  intro pi k v h; simp [Caches.fresh] at h

/-- One `_cdf` call on per-parameter dict objects: the answer is the library's value at the
    *current* scale, whatever was asked before, and coherence is preserved. -/
theorem cdf_spec {G : Key → ℚ → ℚ} {c : Caches} (hinj : Function.Injective c.ptr)
    (hc : Coherent G c) (pi : Nat) (key : Key) (std : ℚ) :
    (c.cdf G pi key std).1 = G key std ∧ Coherent G (c.cdf G pi key std).2 ∧
      (c.cdf G pi key std).2.ptr = c.ptr := by
  unfold Caches.cdf
  -- the state after the optional clear
  set c1 : Caches := if c.cachedstd pi = some std then c
    else { c with slots := upd c.slots (c.ptr pi) [] } with hc1
  have hptr1 : c1.ptr = c.ptr := by rw [hc1]; split <;> rfl
  have hstd1 : c1.cachedstd = c.cachedstd := by rw [hc1]; split <;> rfl
  have hcoh1 : Coherent G c1 := by
    rw [hc1]; split
    · exact hc
    · intro pj k v h
      simp only at h
      by_cases hj : c.ptr pj = c.ptr pi
      · rw [hj, upd_same] at h; simp at h
      · rw [upd_other _ _ hj] at h; exact hc pj k v h
  have hown : ∀ k v, (k, v) ∈ c1.slots (c.ptr pi) → c.cachedstd pi = some std ∧ v = G k std := by
    intro k v h
    rw [hc1] at h
    split at h
    · rename_i heq
      obtain ⟨s, hs, hv⟩ := hc pi k v h
      rw [heq] at hs; cases hs
      exact ⟨heq, hv⟩
    · simp only [upd_same] at h; simp at h
  simp only []
  split
  · rename_i v hv
    exact ⟨(hown key v (lookup_mem hv)).2, hcoh1, hptr1⟩
  · refine ⟨rfl, ?_, hptr1⟩
    intro pj k v h
    simp only at h
    rw [hptr1] at h
    by_cases hj : pj = pi
    · subst hj
      rw [upd_same] at h
      refine ⟨std, by simp, ?_⟩
      rcases List.mem_cons.mp h with h | h
      · cases h; rfl
      · exact (hown k v h).2
    · have hne : c.ptr pj ≠ c.ptr pi := fun e => hj (hinj e)
      rw [upd_other _ _ hne] at h
      obtain ⟨s, hs, hv⟩ := hcoh1 pj k v (by rw [hptr1]; exact h)
      exact ⟨s, by simp only [upd_other _ _ hj]; exact hs, hv⟩

/-- `NormalDiscrete._logpdf` without caches: what the loop returns when `_cdf` is the library. -/
def ndSpecLoop (G : Key → ℚ → ℚ) : List DQ → List ℚ → Option (List ℚ)
  | [], acc => some acc.reverse
  | q :: qs, acc =>
      match ndCells q with
      | none => none
      | some (k0, k1) =>
          let dp := G [k1] q.std - G [k0] q.std
          if !q.succ && dp == 0 then none else ndSpecLoop G qs (dp :: acc)

def ndSpec (G : Key → ℚ → ℚ) (qs : List DQ) : Option (List ℚ) := ndSpecLoop G qs []

/-- `BoundedDiscrete._logpdf` without caches. -/
def bdSpecLoop (G : Key → ℚ → ℚ) : List DQ → List ℚ → Option (List ℚ)
  | [], acc => some acc.reverse
  | q :: qs, acc =>
      match bdKeys q with
      | none => none
      | some (k0, k1) => bdSpecLoop G qs ((G k1 q.std - G k0 q.std) :: acc)

def bdSpec (G : Key → ℚ → ℚ) (qs : List DQ) : Option (List ℚ) := bdSpecLoop G qs []

theorem ndLoop_spec {G : Key → ℚ → ℚ} : ∀ (qs : List DQ) (pi : Nat) (c : Caches) (acc : List ℚ),
    Function.Injective c.ptr → Coherent G c →
    (ndLoop G pi qs c acc).1 = ndSpecLoop G qs acc ∧ Coherent G (ndLoop G pi qs c acc).2 ∧
      (ndLoop G pi qs c acc).2.ptr = c.ptr
  | [], pi, c, acc, _, hc => by simp [ndLoop, ndSpecLoop, hc]
  | q :: qs, pi, c, acc, hinj, hc => by
      unfold ndLoop ndSpecLoop
      cases hcells : ndCells q with
      | none => simp [hc]
      | some kk =>
          obtain ⟨k0, k1⟩ := kk
          simp only []
          obtain ⟨v0, c0, p0⟩ := cdf_spec hinj hc pi [k0] q.std
          have hinj0 : Function.Injective (c.cdf G pi [k0] q.std).2.ptr := by rw [p0]; exact hinj
          obtain ⟨v1, c1, p1⟩ := cdf_spec hinj0 c0 pi [k1] q.std
          rw [v0, v1]
          split
          · exact ⟨rfl, c1, by rw [p1, p0]⟩
          · have hinj1 : Function.Injective
                ((c.cdf G pi [k0] q.std).2.cdf G pi [k1] q.std).2.ptr := by rw [p1]; exact hinj0
            obtain ⟨r, rc, rp⟩ := ndLoop_spec qs (pi + 1) _ ((G [k1] q.std - G [k0] q.std) :: acc) hinj1 c1
            exact ⟨r, rc, by rw [rp, p1, p0]⟩

theorem bdLoop_spec {G : Key → ℚ → ℚ} : ∀ (qs : List DQ) (pi : Nat) (c : Caches) (acc : List ℚ),
    Function.Injective c.ptr → Coherent G c →
    (bdLoop G pi qs c acc).1 = bdSpecLoop G qs acc ∧ Coherent G (bdLoop G pi qs c acc).2 ∧
      (bdLoop G pi qs c acc).2.ptr = c.ptr
  | [], pi, c, acc, _, hc => by simp [bdLoop, bdSpecLoop, hc]
  | q :: qs, pi, c, acc, hinj, hc => by
      unfold bdLoop bdSpecLoop
      cases hkeys : bdKeys q with
      | none => simp [hc]
      | some kk =>
          obtain ⟨k0, k1⟩ := kk
          simp only []
          obtain ⟨v0, c0, p0⟩ := cdf_spec hinj hc pi k0 q.std
          have hinj0 : Function.Injective (c.cdf G pi k0 q.std).2.ptr := by rw [p0]; exact hinj
          obtain ⟨v1, c1, p1⟩ := cdf_spec hinj0 c0 pi k1 q.std
          rw [v0, v1]
          have hinj1 : Function.Injective
              ((c.cdf G pi k0 q.std).2.cdf G pi k1 q.std).2.ptr := by rw [p1]; exact hinj0
          obtain ⟨r, rc, rp⟩ := bdLoop_spec qs (pi + 1) _ ((G k1 q.std - G k0 q.std) :: acc) hinj1 c1
          exact ⟨r, rc, by rw [rp, p1, p0]⟩

/-- A history of density queries (each with the scales `_std` has at that moment) run through
    the literal caches: the list of answers, oldest first. -/
def runQueries (bounded : Bool) (G : Key → ℚ → ℚ) : List (List DQ) → Caches → List (Option (List ℚ))
  | [], _ => []
  | qs :: rest, c =>
      let r := if bounded then bdLogpdf G qs c else ndLogpdf G qs c
      r.1 :: runQueries bounded G rest r.2

theorem runQueries_spec {G : Key → ℚ → ℚ} (bounded : Bool) : ∀ (hist : List (List DQ)) (c : Caches),
    Function.Injective c.ptr → Coherent G c →
    runQueries bounded G hist c = hist.map (if bounded then bdSpec G else ndSpec G)
  | [], _, _, _ => rfl
  | qs :: rest, c, hinj, hc => by
      unfold runQueries
      cases bounded with
      | true =>
          obtain ⟨r, rc, rp⟩ := bdLoop_spec (G := G) qs 0 c [] hinj hc
          simp only [if_true, List.map_cons, bdLogpdf, bdSpec] at *
          rw [r, runQueries_spec true rest _ (by rw [rp]; exact hinj) rc]
          simp
      | false =>
          obtain ⟨r, rc, rp⟩ := ndLoop_spec (G := G) qs 0 c [] hinj hc
          simp only [Bool.false_eq_true, if_false, List.map_cons, ndLogpdf, ndSpec] at *
          rw [r, runQueries_spec false rest _ (by rw [rp]; exact hinj) rc]
          simp

/-! ## telescoping of cell masses and the rejection loop -/

section Field
variable {K : Type*} [Field K] [LinearOrder K] [IsStrictOrderedRing K]

omit [LinearOrder K] [IsStrictOrderedRing K] in
/-- Masses of consecutive cells with edges `e a, e (a+1), …` add up to the mass between the
    outer edges. -/
theorem sum_cells_telescope (e : ℤ → K) (a : ℤ) (n : ℕ) :
    ∑ i ∈ Finset.range n, (e (a + i + 1) - e (a + i)) = e (a + n) - e a := by
  have := Finset.sum_range_sub (fun i : ℕ => e (a + i)) n
  simp only [Nat.cast_add, Nat.cast_one, Nat.cast_zero, add_zero] at this
  rw [← this]
  refine Finset.sum_congr rfl fun i _ => ?_
  rw [add_assoc]

/-- `truncnorm.cdf(x, α, β, loc, scale)` for a base CDF `F` (standardised bounds `α ≤ β`). -/
def tnCdf (F : K → K) (x al be loc s : K) : K :=
  let z := (x - loc) / s
  if z < al then 0 else if be < z then 1 else (F z - F al) / (F be - F al)

/-- `truncnorm.pdf(x, α, β, loc, scale)` for a base density `g` with CDF `F`. -/
def tnPdf (g F : K → K) (x al be loc s : K) : K :=
  let z := (x - loc) / s
  if al ≤ z ∧ z ≤ be then g z / s / (F be - F al) else 0

omit [IsStrictOrderedRing K] in
/-- Difference of the truncated CDF over a cell inside the support = cell mass over the mass of
    the support. -/
theorem tnCdf_cell (F : K → K) {x0 x1 al be loc s : K}
    (h0 : al ≤ (x0 - loc) / s) (h0' : (x0 - loc) / s ≤ be)
    (h1 : al ≤ (x1 - loc) / s) (h1' : (x1 - loc) / s ≤ be) :
    tnCdf F x1 al be loc s - tnCdf F x0 al be loc s
      = (F ((x1 - loc) / s) - F ((x0 - loc) / s)) / (F be - F al) := by
  unfold tnCdf
  simp only [not_lt.mpr h0, not_lt.mpr h0', not_lt.mpr h1, not_lt.mpr h1', if_false]
  ring

end Field

/-! ## what the library terms mean; cells of the discrete step -/

/-- Linear-space meaning of a library term for a base density `g` with CDF `F` of the standard
    draw: the trusted reading of `scipy.stats.norm` / `truncnorm` (other terms: not interpreted). -/
def termPdf (g F : ℚ → ℚ) : Term → ℚ
  | .normLogpdf x loc s => g ((x - loc) / s) / s
  | .truncLogpdf x a b loc s => tnPdf g F x a b loc s
  | _ => 1

theorem truncCdf_eq_tnCdf (F : ℚ → ℚ) (x a b mu std : ℚ) :
    truncCdf F x a b mu std = tnCdf F x (a / std) (b / std) mu std := rfl

/-- Probability that the integer step of a discrete jump equals `d`, for a draw `σ·z` with
    `z ∼ F`: `round` has the cells `(d - 1/2, d + 1/2)`; floor/ceil has `(d - 1, d]` for `d > 0`,
    `[d, d + 1)` for `d < 0` and the null set `{0}` for `d = 0`
    (`roundHalfEven_of_mem_cell`, `floorceil_eq_pos`, `floorceil_eq_neg`, `floorceil_eq_zero`). -/
def stepCell (F : ℚ → ℚ) (σ : ℚ) (succ : Bool) (d : ℤ) : ℚ :=
  if succ then F (((d : ℚ) + 1/2) / σ) - F (((d : ℚ) - 1/2) / σ)
  else if 0 < d then F ((d : ℚ) / σ) - F (((d : ℚ) - 1) / σ)
  else if d < 0 then F (((d : ℚ) + 1) / σ) - F ((d : ℚ) / σ)
  else 0

/-- Lower edge of the cell of step `d`, arranged so that every cell is `edge (d+1) - edge d`. -/
def stepEdge (F : ℚ → ℚ) (σ : ℚ) (succ : Bool) (d : ℤ) : ℚ :=
  if succ then F (((d : ℚ) - 1/2) / σ)
  else if d ≤ 0 then F ((d : ℚ) / σ) else F (((d : ℚ) - 1) / σ)

theorem stepCell_eq_edge (F : ℚ → ℚ) (σ : ℚ) (succ : Bool) (d : ℤ) :
    stepCell F σ succ d = stepEdge F σ succ (d + 1) - stepEdge F σ succ d := by
  unfold stepCell stepEdge
  cases succ with
  | true =>
      simp only [if_true]
      have : (((d + 1 : ℤ) : ℚ) - 1/2) = (d : ℚ) + 1/2 := by push_cast; ring
      rw [this]
  | false =>
      simp only [Bool.false_eq_true, if_false]
      rcases lt_trichotomy d 0 with h | h | h
      · rw [if_neg (by omega), if_pos h, if_pos (by omega), if_pos (by omega)]
        push_cast; rfl
      · subst h; simp
      · rw [if_pos h, if_neg (by omega), if_neg (by omega)]
        have : (((d + 1 : ℤ) : ℚ) - 1) = (d : ℚ) := by push_cast; ring
        rw [this]

/-- Telescoping: the steps `a, a+1, …, a+n-1` together have the mass between the outer edges. -/
theorem sum_stepCell (F : ℚ → ℚ) (σ : ℚ) (succ : Bool) (a : ℤ) (n : ℕ) :
    ∑ i ∈ Finset.range n, stepCell F σ succ (a + i)
      = stepEdge F σ succ (a + n) - stepEdge F σ succ a := by
  rw [← sum_cells_telescope (stepEdge F σ succ) a n]
  exact Finset.sum_congr rfl fun i _ => stepCell_eq_edge F σ succ (a + i)

/-- One parameter of `BoundedDiscrete._logpdf` at integer points inside the bounds: the reported
    mass is the cell of the step over the mass of all steps that stay inside the bounds. -/
theorem bd_param_mass (F : ℚ → ℚ) {σ : ℚ} (hσ : 0 < σ) (succ : Bool) {lo hi k mu : ℤ}
    (hmu0 : lo ≤ mu) (hmu1 : mu ≤ hi) (hk0 : lo ≤ k) (hk1 : k ≤ hi) (hne : succ = false → k ≠ mu) :
    bdSpec (bdG F) [{ succ := succ, std := σ, lo := lo, hi := hi, xi := (k : ℚ), given := (mu : ℚ) }]
      = some [stepCell F σ succ (k - mu) /
          ∑ i ∈ Finset.range (hi - lo + 1).toNat, stepCell F σ succ (lo - mu + i)] := by
  have hn : ((hi - lo + 1).toNat : ℤ) = hi - lo + 1 := Int.toNat_of_nonneg (by omega)
  rw [sum_stepCell, hn]
  have hd : ∀ {u v : ℚ}, u ≤ v → u / σ ≤ v / σ := fun h => div_le_div_of_nonneg_right h hσ.le
  have hlo : (lo : ℚ) ≤ mu := by exact_mod_cast hmu0
  have hhi : (mu : ℚ) ≤ hi := by exact_mod_cast hmu1
  have hklo : (lo : ℚ) ≤ k := by exact_mod_cast hk0
  have hkhi : (k : ℚ) ≤ hi := by exact_mod_cast hk1
  cases succ with
  | true =>
      simp only [bdSpec, bdSpecLoop, bdKeys, if_true, roundHalfEven_intCast, bdG, truncCdf_eq_tnCdf,
        List.reverse_cons, List.reverse_nil, List.nil_append]
      rw [tnCdf_cell F (hd (by linarith)) (hd (by linarith)) (hd (by linarith)) (hd (by linarith))]
      simp only [stepCell, stepEdge, if_true]
      congr 3
      · congr 2 <;> (push_cast; ring)
      · congr 2 <;> (push_cast; ring)
  | false =>
      have hne' := hne rfl
      simp only [bdSpec, bdSpecLoop, bdKeys, Bool.false_eq_true, if_false, floorceil_intCast,
        ceilfloor_intCast, if_neg hne']
      rcases lt_or_gt_of_ne hne' with h | h
      · -- k < mu: cell [k, k+1)
        have hq : (k : ℚ) + 1 ≤ mu := by exact_mod_cast h
        rw [if_neg (by omega)]
        simp only [bdG, truncCdf_eq_tnCdf, List.reverse_cons, List.reverse_nil, List.nil_append]
        rw [tnCdf_cell F (hd (by linarith)) (hd (by linarith)) (hd (by linarith)) (hd (by linarith))]
        simp only [stepCell, stepEdge, Bool.false_eq_true, if_false]
        rw [if_neg (by omega), if_pos (by omega), if_neg (by omega), if_pos (by omega)]
        congr 3
        · congr 2 <;> (push_cast; ring)
        · congr 2 <;> (push_cast; ring)
      · -- mu < k: cell (k-1, k]
        have hq : (mu : ℚ) + 1 ≤ k := by exact_mod_cast h
        rw [if_pos h]
        simp only [bdG, truncCdf_eq_tnCdf, List.reverse_cons, List.reverse_nil, List.nil_append]
        rw [tnCdf_cell F (hd (by linarith)) (hd (by linarith)) (hd (by linarith)) (hd (by linarith))]
        simp only [stepCell, stepEdge, Bool.false_eq_true, if_false]
        rw [if_pos (by omega), if_neg (by omega), if_pos (by omega)]
        congr 3
        · congr 2 <;> (push_cast; ring)
        · congr 2 <;> (push_cast; ring)

/-! ## the witness for one shared dict object -/

theorem roundHalfEven_two : roundHalfEven (2 : ℚ) = 2 := by
  have := roundHalfEven_intCast 2
  simpa using this

/-- Two parameters with scales 1 and 3, `successive`, the query `0 → 2` in both. -/
def wq1 : DQ := { succ := true, std := 1, xi := 2, given := 0 }
def wq2 : DQ := { succ := true, std := 3, xi := 2, given := 0 }

theorem wq1_cells : ndCells wq1 = some (3/2, 5/2) := by
  simp only [ndCells, wq1, if_true, sub_zero, roundHalfEven_two]
  norm_num [absInt]

theorem wq2_cells : ndCells wq2 = some (3/2, 5/2) := by
  simp only [ndCells, wq2, if_true, sub_zero, roundHalfEven_two]
  norm_num [absInt]

theorem wq1_std : wq1.std = 1 := rfl
theorem wq2_std : wq2.std = 3 := rfl
theorem wq1_succ : wq1.succ = true := rfl
theorem wq2_succ : wq2.succ = true := rfl

/-- The same query twice through ONE shared dict: the second answer uses the second parameter's
    values for the first parameter. -/
theorem shared_cache_run (G : Key → ℚ → ℚ) :
    runQueries false G [[wq1, wq2], [wq1, wq2]] (Caches.fresh true) =
      [some [G [5/2] 1 - G [3/2] 1, G [5/2] 3 - G [3/2] 3],
       some [G [5/2] 3 - G [3/2] 3, G [5/2] 3 - G [3/2] 3]] := by
  simp [runQueries, ndLogpdf, ndLoop, wq1_cells, wq2_cells, wq1_std, wq2_std, wq1_succ, wq2_succ,
    Caches.cdf, Caches.fresh, lookup, upd]

theorem witness_spec (G : Key → ℚ → ℚ) :
    ndSpec G [wq1, wq2] = some [G [5/2] 1 - G [3/2] 1, G [5/2] 3 - G [3/2] 3] := by
  simp [ndSpec, ndSpecLoop, wq1_cells, wq2_cells, wq1_std, wq2_std, wq1_succ, wq2_succ]

/-- The law of a draw-until-accepted loop: if one draw lands in the target set with probability
    `w` and is accepted with probability `p > 0`, the loop's output lands there with
    probability `Σ_k (1-p)^k · w = w / p`. -/
theorem rejection_hasSum {p w : ℝ} (hp : 0 < p) (hp1 : p ≤ 1) :
    HasSum (fun k : ℕ => (1 - p) ^ k * w) (w / p) := by
  have h := (hasSum_geometric_of_lt_one (r := 1 - p) (by linarith) (by linarith)).mul_right w
  have : (1 - (1 - p))⁻¹ * w = w / p := by
    rw [sub_sub_cancel]; field_simp
  rw [this] at h
  exact h

end Epsie.Density
