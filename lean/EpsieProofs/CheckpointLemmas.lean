/-
  Helper lemmas about the checkpoint-file model (for C20).
-/
import EpsieModel.Checkpoint
namespace Epsie
namespace Checkpoint

/-! ## 'S1' arrays -/

@[simp] theorem tobytes_frombuffer (b : Bytes) : tobytes (frombuffer b) = b := by
  induction b with
  | nil => rfl
  | cons x r ih => simp [tobytes, frombuffer] at ih ⊢; exact ih

@[simp] theorem length_frombuffer (b : Bytes) : (frombuffer b).length = b.length := by
  simp [frombuffer]

@[simp] theorem length_tobytes (a : List S1) : (tobytes a).length = a.length := by
  simp [tobytes]

theorem frombuffer_tobytes (a : List S1) : frombuffer (tobytes a) = a := by
  induction a with
  | nil => rfl
  | cons x r ih => simp [tobytes, frombuffer] at ih ⊢; exact ih

/-! ## the association list -/

theorem lookup_store_same (k : Key) (d : Dataset) (l : List (Key × Dataset)) :
    lookup k (store k d l) = some d := by
  induction l with
  | nil => simp [store, lookup]
  | cons e r ih =>
    obtain ⟨k', d'⟩ := e
    by_cases h : k' = k
    · simp [store, lookup, h]
    · simp [store, lookup, h, ih]

theorem lookup_store_ne {k k' : Key} (h : k' ≠ k) (d : Dataset) (l : List (Key × Dataset)) :
    lookup k' (store k d l) = lookup k' l := by
  induction l with
  | nil => simp [store, lookup, Ne.symm h]
  | cons e r ih =>
    obtain ⟨k'', d''⟩ := e
    by_cases h2 : k'' = k
    · subst h2
      simp [store, lookup, Ne.symm h]
    · by_cases h3 : k'' = k'
      · subst h3
        simp [store, lookup, h2]
      · simp [store, lookup, h2, h3, ih]

namespace File

@[simp] theorem getDset_setDset_same (f : File) (k : Key) (d : Dataset) :
    (f.setDset k d).getDset k = some d := lookup_store_same k d f.dsets

theorem getDset_setDset_ne (f : File) {k k' : Key} (h : k' ≠ k) (d : Dataset) :
    (f.setDset k d).getDset k' = f.getDset k' := lookup_store_ne h d f.dsets

@[simp] theorem groups_setDset (f : File) (k : Key) (d : Dataset) :
    (f.setDset k d).groups = f.groups := rfl

theorem dataset_ok_iff {f : File} {k : Key} {d : Dataset} :
    f.dataset k = .ok d ↔ f.getDset k = some d := by
  unfold dataset
  cases h : f.getDset k with
  | none => by_cases hg : (k.group ++ [k.name]) ∈ f.groups <;> simp [hg]
  | some d' => simp

theorem hasMember_false {f : File} {k : Key} (h : f.hasMember k = false) :
    f.getDset k = none ∧ (k.group ++ [k.name]) ∉ f.groups := by
  unfold hasMember at h
  cases hd : f.getDset k with
  | none => simpa [hd] using h
  | some d => simp [hd] at h

end File

/-! ## resize, assign -/

theorem Dataset.resize_spec {d d' : Dataset} {n : Nat} (h : d.resize n = .ok d') :
    d'.elems.length = n ∧ d'.maxlen = d.maxlen ∧
      (d.maxlen = none ∨ ∃ m, d.maxlen = some m ∧ n ≤ m) := by
  unfold Dataset.resize at h
  cases hm : d.maxlen with
  | none =>
    simp [hm] at h
    subst h
    refine ⟨?_, by simp, Or.inl rfl⟩
    simp [List.length_take]; omega
  | some m =>
    simp [hm] at h
    by_cases hle : n ≤ m
    · simp [hle] at h
      subst h
      refine ⟨?_, by simp, Or.inr ⟨m, rfl, hle⟩⟩
      simp [List.length_take]; omega
    · simp [hle] at h

theorem Dataset.assign_eq_len {d : Dataset} {a : List S1} (h : a.length = d.elems.length) :
    d.assign a = .ok { d with elems := a } := by
  simp [Dataset.assign, h]

/-! ## `prepare`: the state just before the assignment -/

/-- What `prepare` guarantees: groups untouched; the addressed dataset exists and has
    exactly the length of the data; its maximal length is kept (unlimited when created);
    every other dataset is untouched. -/
theorem prepare_spec {f f1 : File} {k : Key} {a : List S1} (h : prepare f k a = .ok f1) :
    f1.groups = f.groups ∧
    (∃ d, f1.getDset k = some d ∧ d.elems.length = a.length ∧
       (match f.getDset k with
        | some d0 => d.maxlen = d0.maxlen
        | none => d.maxlen = none)) ∧
    (∀ k', k' ≠ k → f1.getDset k' = f.getDset k') := by
  unfold prepare at h
  by_cases hm : f.hasMember k = true
  · simp [hm] at h
    cases hd : f.dataset k with
    | error e => simp [hd] at h
    | ok d =>
      have hget := File.dataset_ok_iff.mp hd
      simp [hd] at h
      by_cases hl : a.length = d.elems.length
      · simp [hl] at h
        subst h
        exact ⟨rfl, ⟨d, hget, hl.symm, by simp [hget]⟩, fun _ _ => rfl⟩
      · simp [hl] at h
        unfold File.resize at h
        simp [hd] at h
        cases hr : d.resize a.length with
        | error e => simp [hr] at h
        | ok d' =>
          simp [hr] at h
          subst h
          obtain ⟨h1, h2, _⟩ := Dataset.resize_spec hr
          exact ⟨rfl, ⟨d', by simp, h1, by simp [hget, h2]⟩,
                 fun k' hk' => File.getDset_setDset_ne f hk' d'⟩
  · have hm' : f.hasMember k = false := by simpa using hm
    obtain ⟨hnone, _⟩ := File.hasMember_false hm'
    simp [hm', File.createDataset] at h
    subst h
    exact ⟨rfl, ⟨⟨List.replicate a.length S1.nul, none⟩, by simp, by simp, by simp [hnone]⟩,
           fun k' hk' => File.getDset_setDset_ne f hk' _⟩

/-- A failing `prepare` is characterised: the name is a subgroup, or the dataset cannot be resized. -/
theorem prepare_error {f : File} {k : Key} {a : List S1} {e : Err} (h : prepare f k a = .error e) :
    (f.getDset k = none ∧ (k.group ++ [k.name]) ∈ f.groups ∧ e = .notDataset) ∨
    (∃ d m, f.getDset k = some d ∧ d.elems.length ≠ a.length ∧ d.maxlen = some m ∧ m < a.length ∧
       e = .cannotResize) := by
  unfold prepare at h
  by_cases hm : f.hasMember k = true
  · simp [hm] at h
    cases hd : f.dataset k with
    | error e' =>
      simp [hd] at h
      subst h
      unfold File.dataset at hd
      cases hg : f.getDset k with
      | some d => simp [hg] at hd
      | none =>
        simp [hg] at hd
        unfold File.hasMember at hm
        simp [hg] at hm
        simp [hm] at hd
        exact Or.inl ⟨rfl, hm, hd.symm⟩
    | ok d =>
      have hget := File.dataset_ok_iff.mp hd
      simp [hd] at h
      by_cases hl : a.length = d.elems.length
      · simp [hl] at h
      · simp [hl] at h
        unfold File.resize at h
        simp [hd] at h
        unfold Dataset.resize at h
        cases hmx : d.maxlen with
        | none => simp [hmx] at h
        | some m =>
          simp [hmx] at h
          by_cases hle : a.length ≤ m
          · simp [hle] at h
          · simp [hle] at h
            exact Or.inr ⟨d, m, hget, fun hh => hl hh.symm, hmx, by omega, h.symm⟩
  · have hm' : f.hasMember k = false := by simpa using hm
    simp [hm', File.createDataset] at h

/-! ## the whole dump -/

/-- A dump that raised left the file exactly as it was. -/
theorem dump_error_unchanged {f : File} {path : Option Loc} {name : String} {b : Bytes} {e : Err}
    (h : (dumpPickleToHdf f path name b).2 = some e) : (dumpPickleToHdf f path name b).1 = f := by
  unfold dumpPickleToHdf at h ⊢
  cases hg : f.getGroup path with
  | error e' => simp
  | ok g =>
    simp only [hg] at h ⊢
    cases hp : prepare f ⟨g, name⟩ (frombuffer b) with
    | error e' => simp
    | ok f1 =>
      simp only [hp] at h ⊢
      obtain ⟨_, ⟨d, hd, hlen, _⟩, _⟩ := prepare_spec hp
      have hds : f1.dataset ⟨g, name⟩ = .ok d := File.dataset_ok_iff.mpr hd
      unfold File.assign at h
      simp [hds, Dataset.assign_eq_len hlen.symm] at h

/-- What a successful dump did. -/
theorem dump_ok_spec {f f' : File} {path : Option Loc} {name : String} {b : Bytes}
    (h : dumpPickleToHdf f path name b = (f', none)) :
    ∃ g, f.getGroup path = .ok g ∧ f'.groups = f.groups ∧
      (∃ m, f'.getDset ⟨g, name⟩ = some ⟨frombuffer b, m⟩ ∧
         (match f.getDset ⟨g, name⟩ with
          | some d0 => m = d0.maxlen
          | none => m = none)) ∧
      (∀ k', k' ≠ ⟨g, name⟩ → f'.getDset k' = f.getDset k') := by
  unfold dumpPickleToHdf at h
  cases hg : f.getGroup path with
  | error e' => simp [hg] at h
  | ok g =>
    simp only [hg] at h
    cases hp : prepare f ⟨g, name⟩ (frombuffer b) with
    | error e' => simp [hp] at h
    | ok f1 =>
      simp only [hp] at h
      obtain ⟨hgr, ⟨d, hd, hlen, hmax⟩, hfr⟩ := prepare_spec hp
      have hds : f1.dataset ⟨g, name⟩ = .ok d := File.dataset_ok_iff.mpr hd
      unfold File.assign at h
      simp [hds, Dataset.assign_eq_len hlen.symm] at h
      subst h
      refine ⟨g, rfl, by simpa using hgr, ⟨d.maxlen, by simp, ?_⟩, ?_⟩
      · cases h0 : f.getDset ⟨g, name⟩ with
        | none => simpa [h0] using hmax
        | some d0 => simpa [h0] using hmax
      · intro k' hk'
        rw [File.getDset_setDset_ne f1 hk', hfr k' hk']

theorem dumpBytes_ok_iff {f f' : File} {path : Option Loc} {name : String} {b : Bytes} :
    dumpBytes f path name b = .ok f' ↔ dumpPickleToHdf f path name b = (f', none) := by
  unfold dumpBytes
  cases h : dumpPickleToHdf f path name b with
  | mk f2 oe => cases oe <;> simp

theorem getGroup_ok {f : File} {path : Option Loc} {g : Loc} (h : f.getGroup path = .ok g) :
    g = resolve path ∧ f.isGroup g = true := by
  cases path with
  | none => simp [File.getGroup] at h; subst h; simp [resolve, File.isGroup]
  | some p =>
    simp only [File.getGroup] at h
    by_cases hp : f.isGroup p = true
    · simp [hp] at h; subst h; exact ⟨rfl, hp⟩
    · simp [hp] at h

/-- Group lookup depends on the path only through where it resolves to, once that is a group. -/
theorem getGroup_of_isGroup {f : File} (path : Option Loc) (h : f.isGroup (resolve path) = true) :
    f.getGroup path = .ok (resolve path) := by
  cases path with
  | none => rfl
  | some p => simp [File.getGroup, resolve] at h ⊢; exact h

theorem isGroup_congr {f f' : File} (h : f'.groups = f.groups) (l : Loc) :
    f'.isGroup l = f.isGroup l := by simp [File.isGroup, h]

theorem getGroup_congr {f f' : File} (h : f'.groups = f.groups) (path : Option Loc) :
    f'.getGroup path = f.getGroup path := by
  cases path with
  | none => rfl
  | some p => simp [File.getGroup, isGroup_congr h]

/-- `loadBytes` in terms of the map. -/
theorem loadBytes_eq {f : File} {path : Option Loc} {name : String} {g : Loc}
    (hg : f.getGroup path = .ok g) :
    loadBytes f path name =
      match f.getDset ⟨g, name⟩ with
      | some d => .ok (tobytes d.elems)
      | none => if (g ++ [name]) ∈ f.groups then .error .notDataset else .error .noObject := by
  unfold loadBytes File.read File.dataset
  simp only [hg]
  cases f.getDset ⟨g, name⟩ with
  | some d => simp
  | none => by_cases hm : (g ++ [name]) ∈ f.groups <;> simp [hm]


/-! ## when a dump goes through -/

/-- The only calls of a dump that can raise are the group lookup and `prepare`
    (subgroup in the way, or `resize` refused); the assignment never does. -/
theorem dump_error_cases {f : File} {path : Option Loc} {name : String} {b : Bytes} {e : Err}
    (h : (dumpPickleToHdf f path name b).2 = some e) :
    f.getGroup path = .error e ∨
    ∃ g, f.getGroup path = .ok g ∧ prepare f ⟨g, name⟩ (frombuffer b) = .error e := by
  unfold dumpPickleToHdf at h
  cases hg : f.getGroup path with
  | error e' => simp [hg] at h; subst h; exact Or.inl rfl
  | ok g =>
    simp only [hg] at h
    cases hp : prepare f ⟨g, name⟩ (frombuffer b) with
    | error e' => simp [hp] at h; subst h; exact Or.inr ⟨g, rfl, hp⟩
    | ok f1 =>
      simp only [hp] at h
      obtain ⟨_, ⟨d, hd, hlen, _⟩, _⟩ := prepare_spec hp
      have hds : f1.dataset ⟨g, name⟩ = .ok d := File.dataset_ok_iff.mpr hd
      unfold File.assign at h
      simp [hds, Dataset.assign_eq_len hlen.symm] at h

theorem prepare_ok_accepts {f f1 : File} {k : Key} {a : List S1} (h : prepare f k a = .ok f1) :
    match f.getDset k with
    | some d => d.elems.length = a.length ∨ d.maxlen = none ∨ ∃ m, d.maxlen = some m ∧ a.length ≤ m
    | none => (k.group ++ [k.name]) ∉ f.groups := by
  unfold prepare at h
  by_cases hm : f.hasMember k = true
  · simp [hm] at h
    cases hd : f.dataset k with
    | error e => simp [hd] at h
    | ok d =>
      have hget := File.dataset_ok_iff.mp hd
      simp [hd] at h
      simp only [hget]
      by_cases hl : a.length = d.elems.length
      · exact Or.inl hl.symm
      · simp [hl] at h
        unfold File.resize at h
        simp [hd] at h
        cases hr : d.resize a.length with
        | error e => simp [hr] at h
        | ok d' =>
          obtain ⟨_, _, h3⟩ := Dataset.resize_spec hr
          exact Or.inr h3
  · have hm' : f.hasMember k = false := by simpa using hm
    obtain ⟨hnone, hng⟩ := File.hasMember_false hm'
    simp only [hnone]
    exact hng

theorem dump_succeeds_iff {f : File} {path : Option Loc} {name : String} {b : Bytes} :
    (∃ f', dumpBytes f path name b = .ok f') ↔ Accepts f path name b.length := by
  constructor
  · rintro ⟨f', h⟩
    have h' := dumpBytes_ok_iff.mp h
    unfold dumpPickleToHdf at h'
    cases hg : f.getGroup path with
    | error e' => simp [hg] at h'
    | ok g =>
      simp only [hg] at h'
      cases hp : prepare f ⟨g, name⟩ (frombuffer b) with
      | error e' => simp [hp] at h'
      | ok f1 =>
        refine ⟨g, hg, ?_⟩
        have := prepare_ok_accepts hp
        cases hd : f.getDset ⟨g, name⟩ with
        | none => simp only [hd] at this ⊢; exact this
        | some d => simp only [hd, length_frombuffer] at this ⊢; exact this
  · rintro ⟨g, hg, hacc⟩
    cases hres : dumpPickleToHdf f path name b with
    | mk f2 oe =>
      cases oe with
      | none => exact ⟨f2, dumpBytes_ok_iff.mpr hres⟩
      | some e =>
        exfalso
        have h2 : (dumpPickleToHdf f path name b).2 = some e := by rw [hres]
        rcases dump_error_cases h2 with hge | ⟨g', hg', hpe⟩
        · rw [hg] at hge; cases hge
        · rw [hg] at hg'
          cases hg'
          rcases prepare_error hpe with ⟨hnone, hin, _⟩ | ⟨d, m, hsome, hne, hmx, hlt, _⟩
          · simp only [hnone] at hacc
            exact hacc hin
          · simp only [hsome, length_frombuffer] at hacc hne hlt
            rcases hacc with h1 | h1 | ⟨m', h1, h1'⟩
            · exact hne h1
            · rw [hmx] at h1; cases h1
            · rw [hmx] at h1; cases h1; omega

/-! ## streams -/

/-- Rewinding and reading gives everything the stream holds, wherever it was positioned,
    and leaves it at its end. -/
theorem Stream.seek0_read (s : Stream) :
    (s.seek 0).read = (s.data, ⟨s.data, s.data.length⟩) := by
  simp [Stream.seek, Stream.read]

/-- Reading WITHOUT rewinding returns only what lies after the position. -/
theorem Stream.read_fst (s : Stream) : s.read.1 = s.data.drop s.pos := rfl

/-- A fresh stream written to once holds exactly what was written and is positioned at its END. -/
theorem Stream.empty_write (b : Bytes) : Stream.empty.write b = ⟨b, b.length⟩ := by
  cases b with
  | nil => rfl
  | cons x r => simp [Stream.write, Stream.empty]

theorem dumpPickleStream_eq (f : File) (path : Option Loc) (name : String) (s : Stream) :
    dumpPickleStream f path name s = (dumpPickleToHdf f path name s.data, ⟨s.data, s.data.length⟩) := by
  simp [dumpPickleStream, Stream.seek0_read]

/-! ## several files -/

@[simp] theorem World.set_same (w : World) (i : Nat) (f : File) : (w.set i f) i = f := by
  simp [World.set]

theorem World.set_ne (w : World) {i j : Nat} (h : j ≠ i) (f : File) : (w.set i f) j = w j := by
  simp [World.set, h]

theorem World.dump_eq (w : World) (i : Nat) (path : Option Loc) (name : String) (s : Stream) :
    w.dump i path name s =
      (w.set i (dumpPickleToHdf (w i) path name s.data).1, (dumpPickleToHdf (w i) path name s.data).2) := by
  simp [World.dump, dumpPickleStream_eq]

end Checkpoint
end Epsie
