/-
  EpsieProofs.LiftGuard — the generic lifting of `EpsieProofs.PTInv` with a guard on the
  saved states that `load` operations may carry (a predicate preserved by every `Chain`
  operation whose loads are guarded holds at every level of every chain reached by guarded runs).
-/
import EpsieProofs.PTInv
namespace Epsie

/-- The guard lifted to the operations of a parallel-tempered chain: only `load` is guarded. -/
def PTChain.Op.guarded (G : Chain.Saved → Prop) : PTChain.Op → Prop
  | .load sv => ∀ s ∈ sv, G s
  | _ => True



set_option linter.unusedSectionVars false
section LiftG
variable (P : Chain → Prop)
variable (G : Chain.Saved → Prop)
variable (hP : ∀ c op, (∀ s, op = Chain.Op.load s → G s) → P c → P (Chain.apply c op))
variable (hβ : ∀ (c : Chain) b, P c → P { c with beta := b })
include hP hβ

theorem lift_stepLevelsG {ls ls' : List Chain} {is : List Chain.StepIn}
    (h : ∀ l ∈ ls, P l) (hs : PTChain.stepLevels ls is = some ls') : ∀ l ∈ ls', P l := by
  induction ls generalizing is ls' with
  | nil => simp [PTChain.stepLevels] at hs; subst hs; intro l hl; simp at hl
  | cons l ls ih =>
    cases is with
    | nil => simp [PTChain.stepLevels] at hs
    | cons i is =>
      simp only [PTChain.stepLevels, bind, Option.bind] at hs
      cases h1 : l.step i with
      | none => simp [h1] at hs
      | some l' =>
        simp only [h1] at hs
        cases h2 : PTChain.stepLevels ls is with
        | none => simp [h2] at hs
        | some ls'' =>
          simp [h2] at hs; subst hs
          intro x hx
          simp at hx
          rcases hx with rfl | hx
          · have := hP l (.step i) (by intro s hs; cases hs) (h l (by simp))
            simpa [Chain.apply, h1] using this
          · exact ih (fun z hz => h z (by simp [hz])) h2 x hx

theorem lift_applySwapG {ls : List Chain} (h : ∀ l ∈ ls, P l) (reset : Bool) (idx : List Nat) :
    ∀ l ∈ PTChain.applySwap reset ls idx, P l := by
  intro x hx
  unfold PTChain.applySwap at hx
  simp only [List.mem_map] at hx
  obtain ⟨⟨l, t⟩, hmem, rfl⟩ := hx
  have hl : P l := h l (List.of_mem_zip hmem).1
  have h1 : ∀ o, P (PTChain.maybeRewrite l o) := by
    intro o; cases o with
    | none => exact hl
    | some st => exact hP l (.rewrite st) (by intro s hs; cases hs) hl
  have h2 : ∀ b y, P y → P (PTChain.maybeReset b y) := by
    intro b y hy; unfold PTChain.maybeReset; cases b with
    | false => simpa using hy
    | true => simp only [if_true]; exact hP y .reset (by intro s hs; cases hs) hy
  exact h2 _ _ (h1 _)

theorem lift_applyG {c : PTChain} (h : ∀ l ∈ c.levels, P l) (op : PTChain.Op)
    (hg : op.guarded G) : ∀ l ∈ (c.apply op).levels, P l := by
  cases op with
  | start xs =>
    simp only [PTChain.apply]
    clear hg
    generalize c.levels = ls at h
    induction ls generalizing xs with
    | nil => intro l hl; cases xs <;> simp [PTChain.setStarts] at hl
    | cons l ls ih =>
      cases xs with
      | nil => simpa [PTChain.setStarts] using h
      | cons x xs =>
        obtain ⟨pos, e⟩ := x
        intro y hy
        simp only [PTChain.setStarts, List.mem_cons] at hy
        rcases hy with rfl | hy
        · exact hP l (.start pos e) (by intro s hs; cases hs) (h l (by simp))
        · exact ih xs (fun z hz => h z (by simp [hz])) y hy
  | step i =>
    simp only [PTChain.apply]
    cases hs : c.step i with
    | none => simpa using h
    | some c' =>
      simp only [Option.getD_some]
      unfold PTChain.step at hs
      simp only [bind, Option.bind] at hs
      cases h1 : PTChain.stepLevels c.levels i.levels with
      | none => simp [h1] at hs
      | some ls =>
        simp only [h1] at hs
        have hls := lift_stepLevelsG P G hP hβ h h1
        split at hs
        · unfold PTChain.swapTemperatures at hs
          split at hs
          · simp only [Option.some.injEq] at hs
            subst hs
            unfold PTChain.afterSweep
            simp only
            have h3 := lift_applySwapG P G hP hβ hls c.resetAfterSwap (by assumption : Swap.Row).idx
            split
            · intro x hx
              simp only [PTChain.setBetas, List.mem_map] at hx
              obtain ⟨⟨l, b⟩, hmem, rfl⟩ := hx
              exact hβ l _ (h3 l (List.of_mem_zip hmem).1)
            · exact h3
          · simp at hs
        · simp [pure] at hs; subst hs; exact hls
  | clear =>
    intro x hx
    simp only [PTChain.apply, PTChain.clear, List.mem_map] at hx
    obtain ⟨l, hl, rfl⟩ := hx
    exact hP l .clear (by intro s hs; cases hs) (h l hl)
  | extend n =>
    intro x hx
    simp only [PTChain.apply, PTChain.extendFor, PTChain.setScratchlen, List.mem_map] at hx
    obtain ⟨l, hl, rfl⟩ := hx
    exact hP l (.grow _) (by intro s hs; cases hs) (h l hl)
  | load sv =>
    simp only [PTChain.apply, PTChain.load]
    have hg' : ∀ s ∈ sv, G s := hg
    clear hg
    generalize c.levels = ls at h
    induction ls generalizing sv with
    | nil => intro l hl; cases sv <;> simp [PTChain.loadLevels] at hl
    | cons l ls ih =>
      cases sv with
      | nil => simpa [PTChain.loadLevels] using h
      | cons s sv =>
        intro y hy
        simp only [PTChain.loadLevels, List.mem_cons] at hy
        rcases hy with rfl | hy
        · exact hP l (.load s) (by intro s' hs; cases hs; exact hg' _ (by simp)) (h l (by simp))
        · exact ih sv (fun z hz => hg' z (by simp [hz])) (fun z hz => h z (by simp [hz])) y hy

theorem lift_runOpsG {c : PTChain} (h : ∀ l ∈ c.levels, P l) (ops : List PTChain.Op)
    (hg : ∀ op ∈ ops, op.guarded G) : ∀ l ∈ (PTChain.runOps c ops).levels, P l := by
  induction ops generalizing c with
  | nil => exact h
  | cons op ops ih =>
    exact ih (lift_applyG P G hP hβ h op (hg op (by simp))) (fun o ho => hg o (by simp [ho]))

end LiftG

end Epsie
