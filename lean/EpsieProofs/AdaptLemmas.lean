/-
  Helper lemmas for C13 / C14 about `EpsieModel.Adapt` and the clock of
  `EpsieModel.Proposal`:
    1. the clock (window, freeze, jump interval, the event log as a gain budget);
    2. the five recursions over an arbitrary linearly ordered field;
    3. real analysis: positivity and size of the gains, the von Mises–Fisher
       normalisation, the acceptance mass of a rejection loop.
-/
import Mathlib.Analysis.SpecialFunctions.Pow.Real
import Mathlib.Analysis.SpecialFunctions.Log.Base
import Mathlib.Analysis.Convex.SpecificFunctions.Basic
import Mathlib.Analysis.Complex.ExponentialBounds
import Mathlib.Analysis.SpecialFunctions.Trigonometric.DerivHyp
import Mathlib.Algebra.BigOperators.Intervals
import Mathlib.Algebra.Order.BigOperators.Group.Finset
import Mathlib.Order.Interval.Finset.Basic
import Mathlib.Tactic.Linarith
import Mathlib.Tactic.Positivity
import EpsieModel.Adapt
set_option linter.unusedSectionVars false
set_option linter.unusedVariables false
namespace Epsie.Adapt

/-! ## 1. The clock -/

@[simp] theorem update_cfg (p : PropSt) (a : Bool) (r : AR) (x : List Val) :
    (p.update a r x).cfg = p.cfg := rfl
@[simp] theorem update_startStep (p : PropSt) (a : Bool) (r : AR) (x : List Val) :
    (p.update a r x).startStep = p.startStep := rfl
@[simp] theorem update_raw (p : PropSt) (a : Bool) (r : AR) (x : List Val) :
    (p.update a r x).raw = p.raw + 1 := rfl

theorem update_events (p : PropSt) (a : Bool) (r : AR) (x : List Val) :
    (p.update a r x).events =
      if (p.callJump && p.inWindow) = true
      then p.events ++ [{ dk := p.dkUpdate, accepted := a, ar := r, pos := x }] else p.events := rfl

theorem nsteps_update_ge (p : PropSt) (a : Bool) (r : AR) (x : List Val) :
    p.nsteps ≤ (p.update a r x).nsteps := by
  unfold PropSt.nsteps
  simp only [update_cfg, update_raw]
  exact Nat.div_le_div_right (Nat.le_succ _)

/-- The classes with an end of adaptation. -/
def Windowed (p : PropSt) : Prop := p.cfg.window = .veitch ∨ p.cfg.window = .at

/-- The adaptation window is over: `start_step + T - 1 ≤ nsteps`. -/
def Late (p : PropSt) : Prop := Windowed p ∧ p.startStep + p.cfg.T ≤ p.nsteps + 1

theorem late_not_inWindow {p : PropSt} (h : Late p) : p.inWindow = false := by
  obtain ⟨hw, hT⟩ := h
  unfold PropSt.inWindow PropSt.dkUpdate
  rcases hw with hw | hw <;> simp [hw] <;> intros <;> omega

theorem late_update {p : PropSt} (h : Late p) (a : Bool) (r : AR) (x : List Val) :
    Late (p.update a r x) := by
  obtain ⟨hw, hT⟩ := h
  refine ⟨by simpa [Windowed] using hw, ?_⟩
  have := nsteps_update_ge p a r x
  simp only [update_cfg, update_startStep]
  omega

theorem inWindow_veitch_iff (p : PropSt) (h : p.cfg.window = .veitch) :
    p.inWindow = true ↔ p.startStep ≤ p.nsteps ∧ p.nsteps + 1 < p.startStep + p.cfg.T := by
  unfold PropSt.inWindow PropSt.dkUpdate
  simp [h]; omega

theorem inWindow_at_iff (p : PropSt) (h : p.cfg.window = .at) :
    p.inWindow = true ↔ p.startStep < p.nsteps ∧ p.nsteps + 1 < p.startStep + p.cfg.T := by
  unfold PropSt.inWindow PropSt.dkUpdate
  simp [h]; omega

/-- Lower end of the window guard, exclusive: `1 ≤ dk` (Veitch) resp. `1 < dk`. -/
def winLo : Window → Int
  | .veitch => 0
  | _ => 1

theorem inWindow_bounds {p : PropSt} (hw : Windowed p) (h : p.inWindow = true) :
    winLo p.cfg.window < p.dkUpdate ∧ p.dkUpdate < (p.cfg.T : Int) := by
  unfold PropSt.inWindow at h
  rcases hw with hw | hw <;> simp [hw, winLo] at h ⊢ <;> omega

/-- The constructors of the adaptive classes pass `jump_interval_duration =
    adaptation_duration`; `jump_interval ≥ 1` is enforced by `set_jump_interval`. -/
def ClockOK (p : PropSt) : Prop :=
  p.cfg.adaptive = true ∧ 1 ≤ p.cfg.k ∧ (p.cfg.k = 1 ∨ p.cfg.T ≤ p.cfg.dur)

/-- Inside the window an update happens only on the first of the `jump_interval`
    iterations that share a proposal step: one update per clock value. -/
theorem callJump_inWindow_raw {p : PropSt} (hc : ClockOK p) (hw : Windowed p)
    (hj : p.callJump = true) (hin : p.inWindow = true) : p.raw = p.cfg.k * p.nsteps := by
  obtain ⟨hadp, hk, hd⟩ := hc
  have hb := (inWindow_bounds hw hin).2
  unfold PropSt.nsteps
  rcases hd with hd | hd
  · simp [hd]
  · unfold PropSt.callJump PropSt.dkJump at hj
    unfold PropSt.dkUpdate at hb
    simp only [hadp, if_true] at hj
    by_cases hk1 : p.cfg.k = 1
    · simp [hk1]
    · have hnot : ¬ ((p.nsteps : Int) - p.startStep + 1 ≥ (p.cfg.dur : Int)) := by omega
      simp only [hk1, hnot, or_self, if_false] at hj
      by_cases hm : p.raw % p.cfg.k ≠ 0
      · simp [hm] at hj
      · have hm0 : p.raw % p.cfg.k = 0 := by omega
        exact (Nat.mul_div_cancel' (Nat.dvd_of_mod_eq_zero hm0)).symm

theorem callJump_of_mod {p : PropSt} (h : p.raw % p.cfg.k = 0) : p.callJump = true := by
  unfold PropSt.callJump
  by_cases h1 : p.cfg.k = 1 ∨ p.dkJump ≥ (p.cfg.dur : Int)
  · simp [h1]
  · simp [h1, h]

/-! ### The event log as the gain budget of the window -/

/-- The absorbed updates have strictly increasing clock values inside the window, each
    at the first iteration of its proposal step. -/
def EvOK (p : PropSt) : Prop :=
  List.Pairwise (fun e f : AdaptEvent => e.dk < f.dk) p.events ∧
  ∀ e ∈ p.events, (p.cfg.k : Int) * (e.dk + p.startStep - 1) < p.raw ∧
    winLo p.cfg.window < e.dk ∧ e.dk < (p.cfg.T : Int)

theorem evOK_fresh (cfg : PropCfg) : EvOK (PropSt.fresh cfg) := by
  simp [EvOK, PropSt.fresh]

theorem evOK_update {p : PropSt} (hc : ClockOK p) (hw : Windowed p) (h : EvOK p)
    (a : Bool) (r : AR) (x : List Val) : EvOK (p.update a r x) := by
  obtain ⟨hpw, hall⟩ := h
  rw [EvOK, update_events]
  by_cases hu : (p.callJump && p.inWindow) = true
  · have hj : p.callJump = true := by
      cases hcj : p.callJump <;> simp [hcj] at hu ⊢
    have hin : p.inWindow = true := by
      cases hcw : p.inWindow <;> simp [hcw] at hu ⊢
    have hraw := callJump_inWindow_raw hc hw hj hin
    have hb := inWindow_bounds hw hin
    have hkpos : (0 : Int) < (p.cfg.k : Int) := by have := hc.2.1; omega
    have hnew : (p.cfg.k : Int) * (p.dkUpdate + p.startStep - 1) = p.raw := by
      unfold PropSt.dkUpdate
      have : (p.raw : Int) = (p.cfg.k : Int) * (p.nsteps : Int) := by exact_mod_cast hraw
      rw [this]; ring_nf
    simp only [hu, if_true, update_cfg, update_startStep, update_raw]
    refine ⟨?_, ?_⟩
    · rw [List.pairwise_append]
      refine ⟨hpw, by simp, ?_⟩
      intro e he f hf
      simp only [List.mem_singleton] at hf
      subst hf
      have h1 := (hall e he).1
      rw [← hnew] at h1
      have := Int.lt_of_mul_lt_mul_left h1 hkpos.le
      simpa using (by omega : e.dk < p.dkUpdate)
    · intro e he
      rw [List.mem_append, List.mem_singleton] at he
      rcases he with he | rfl
      · obtain ⟨h1, h2⟩ := hall e he
        exact ⟨by push_cast; omega, h2⟩
      · exact ⟨by push_cast; omega, hb⟩
  · simp only [hu, if_false, update_cfg, update_startStep, update_raw, Bool.false_eq_true]
    refine ⟨hpw, ?_⟩
    intro e he
    obtain ⟨h1, h2⟩ := hall e he
    exact ⟨by push_cast; omega, h2⟩

theorem clockOK_update {p : PropSt} (hc : ClockOK p) (a : Bool) (r : AR) (x : List Val) :
    ClockOK (p.update a r x) := hc

theorem windowed_update {p : PropSt} (hw : Windowed p) (a : Bool) (r : AR) (x : List Val) :
    Windowed (p.update a r x) := hw

section GainSum
variable {α : Type} [Field α] [LinearOrder α] [IsStrictOrderedRing α]

/-- The gains of the updates a proposal has absorbed. -/
def gsum (gain : Int → α) (p : PropSt) : α := (p.events.map fun e => gain e.dk).sum

theorem gsum_update (gain : Int → α) (p : PropSt) (a : Bool) (r : AR) (x : List Val) :
    gsum gain (p.update a r x) =
      gsum gain p + (if (p.callJump && p.inWindow) = true then gain p.dkUpdate else 0) := by
  unfold gsum
  rw [update_events]
  by_cases hu : (p.callJump && p.inWindow) = true <;> simp [hu]

/-- Whatever the history, the absorbed gains are at most the whole window's. -/
theorem gsum_le_window (gain : Int → α) {p : PropSt} (h : EvOK p)
    (hg : ∀ d : Int, winLo p.cfg.window < d → d < (p.cfg.T : Int) → 0 ≤ gain d) :
    gsum gain p ≤ ∑ d ∈ Finset.Ioo (winLo p.cfg.window) (p.cfg.T : Int), gain d := by
  obtain ⟨hpw, hall⟩ := h
  have hnd : (p.events.map (·.dk)).Nodup := by
    rw [List.Nodup, List.pairwise_map]
    exact hpw.imp (fun h => ne_of_lt h)
  have e1 : gsum gain p = ((p.events.map (·.dk)).map gain).sum := by
    unfold gsum; rw [List.map_map]; rfl
  rw [e1, ← List.sum_toFinset gain hnd]
  apply Finset.sum_le_sum_of_subset_of_nonneg
  · intro d hd
    simp only [List.mem_toFinset, List.mem_map] at hd
    obtain ⟨e, he, rfl⟩ := hd
    exact Finset.mem_Ioo.mpr (hall e he).2
  · intro d hd _
    obtain ⟨h1, h2⟩ := Finset.mem_Ioo.mp hd
    exact hg d h1 h2

end GainSum

/-! ### `Ad.update` / `Ad.run` -/

theorem Ad.update_eq_some {σ : Type} {body : Int → Nat → σ → Option σ} {a a' : Ad σ} {acc : Bool}
    (h : a.update body acc = some a') :
    a'.clock = a.clock.update acc (arTag acc) [] ∧
    (((a.clock.callJump && a.clock.inWindow) = true ∧
        body a.clock.dkUpdate a.clock.nsteps a.num = some a'.num) ∨
     ((a.clock.callJump && a.clock.inWindow) = false ∧ a'.num = a.num)) := by
  unfold Ad.update at h
  by_cases hu : (a.clock.callJump && a.clock.inWindow) = true
  · simp only [hu, if_true, Option.map_eq_some_iff] at h
    obtain ⟨s, hs, rfl⟩ := h
    exact ⟨rfl, Or.inl ⟨hu, hs⟩⟩
  · simp only [hu, Bool.false_eq_true, if_false, Option.some.injEq] at h
    subst h
    exact ⟨rfl, Or.inr ⟨by simpa using hu, rfl⟩⟩

theorem Ad.update_late {σ : Type} (body : Int → Nat → σ → Option σ) (a : Ad σ) (acc : Bool)
    (h : Late a.clock) :
    a.update body acc = some { clock := a.clock.update acc (arTag acc) [], num := a.num } := by
  unfold Ad.update
  simp [late_not_inWindow h]

theorem Ad.run_late {σ ι : Type} (body : ι → Int → Nat → σ → Option σ) (acc : ι → Bool)
    (hs : List ι) : ∀ (a : Ad σ), Late a.clock →
    ∃ a', Ad.run body acc a hs = some a' ∧ a'.num = a.num ∧ Late a'.clock := by
  induction hs with
  | nil => intro a h; exact ⟨a, rfl, rfl, h⟩
  | cons i is ih =>
    intro a h
    obtain ⟨a', h1, h2, h3⟩ :=
      ih { clock := a.clock.update (acc i) (arTag (acc i)) [], num := a.num } (late_update h _ _ _)
    exact ⟨a', by simp [Ad.run, Ad.update_late _ _ _ h, h1], h2, h3⟩

/-- Invariants of single updates are invariants of whole histories. -/
theorem Ad.run_inv {σ ι : Type} (body : ι → Int → Nat → σ → Option σ) (acc : ι → Bool)
    (Inv : Ad σ → Prop)
    (hstep : ∀ a i a', Inv a → a.update (body i) (acc i) = some a' → Inv a') :
    ∀ (hs : List ι) (a a' : Ad σ), Inv a → Ad.run body acc a hs = some a' → Inv a' := by
  intro hs
  induction hs with
  | nil => intro a a' h hr; simp [Ad.run] at hr; subst hr; exact h
  | cons i is ih =>
    intro a a' h hr
    simp only [Ad.run, Option.bind_eq_some_iff] at hr
    obtain ⟨b, hb, hr⟩ := hr
    exact ih b a' (hstep a i b h hb) hr

theorem Ad.run_append {σ ι : Type} (body : ι → Int → Nat → σ → Option σ) (acc : ι → Bool)
    (h1 h2 : List ι) (a : Ad σ) :
    Ad.run body acc a (h1 ++ h2) = (Ad.run body acc a h1).bind fun b => Ad.run body acc b h2 := by
  induction h1 generalizing a with
  | nil => simp [Ad.run]
  | cons i is ih =>
    simp only [List.cons_append, Ad.run]
    cases a.update (body i) (acc i) with
    | none => simp
    | some b => simp [ih]

/-- The clock invariants along a history. -/
def ClockInv {σ : Type} (a : Ad σ) : Prop := ClockOK a.clock ∧ Windowed a.clock ∧ EvOK a.clock

theorem clockInv_step {σ : Type} {body : Int → Nat → σ → Option σ} {a a' : Ad σ} {acc : Bool}
    (h : ClockInv a) (hu : a.update body acc = some a') : ClockInv a' := by
  obtain ⟨hc, _⟩ := Ad.update_eq_some hu
  rw [ClockInv, hc]
  exact ⟨clockOK_update h.1 _ _ _, windowed_update h.2.1 _ _ _, evOK_update h.1 h.2.1 h.2.2 _ _ _⟩


/-! ### Monotone quantities along a history -/

theorem events_length_update (p : PropSt) (a : Bool) (r : AR) (x : List Val) :
    (p.update a r x).events.length =
      p.events.length + (if (p.callJump && p.inWindow) = true then 1 else 0) := by
  rw [update_events]
  by_cases hu : (p.callJump && p.inWindow) = true <;> simp [hu]

section Mono
variable {β : Type} [Preorder β]

/-- If every update made under inputs satisfying `P` (from states satisfying the invariant
    `Good`) strictly increases `φ`, then along every history of such inputs `φ` never
    decreases, and it has strictly increased as soon as one update was absorbed. -/
theorem Ad.run_mono {σ ι : Type} (body : ι → Int → Nat → σ → Option σ) (acc : ι → Bool)
    (φ : σ → β) (P : ι → Prop) (Good : Ad σ → Prop)
    (hgood : ∀ a i a', Good a → P i → a.update (body i) (acc i) = some a' → Good a')
    (hstep : ∀ a i s', Good a → P i → (a.clock.callJump && a.clock.inWindow) = true →
      body i a.clock.dkUpdate a.clock.nsteps a.num = some s' → φ a.num < φ s') :
    ∀ (hs : List ι) (a a' : Ad σ), Good a → (∀ i ∈ hs, P i) → Ad.run body acc a hs = some a' →
      φ a.num ≤ φ a'.num ∧ a.clock.events.length ≤ a'.clock.events.length ∧
      (a.clock.events.length < a'.clock.events.length → φ a.num < φ a'.num) := by
  intro hs
  induction hs with
  | nil =>
    intro a a' _ _ hr
    simp [Ad.run] at hr; subst hr
    exact ⟨le_refl _, le_refl _, fun h => absurd h (lt_irrefl _)⟩
  | cons i is ih =>
    intro a a' hg hP hr
    simp only [Ad.run, Option.bind_eq_some_iff] at hr
    obtain ⟨b, hb, hr⟩ := hr
    have hPi := hP i (List.mem_cons_self ..)
    obtain ⟨h1, h2, h3⟩ := ih b a' (hgood a i b hg hPi hb) (fun j hj => hP j (List.mem_cons_of_mem _ hj)) hr
    obtain ⟨hc, hcase⟩ := Ad.update_eq_some hb
    have hlen := events_length_update a.clock (acc i) (arTag (acc i)) []
    rw [← hc] at hlen
    rcases hcase with ⟨hu, hbody⟩ | ⟨hu, hnum⟩
    · have hlt := hstep a i b.num hg hPi hu hbody
      refine ⟨le_trans hlt.le h1, by simp [hu] at hlen; omega, fun _ => lt_of_lt_of_le hlt h1⟩
    · rw [hnum] at h1 h3
      refine ⟨h1, by simp [hu] at hlen; omega, fun hl => h3 (by simp [hu] at hlen; omega)⟩

end Mono

/-! ### The clock of a history, and the gains of a complete window -/

/-- The clock after a history (the numerical state cannot influence it). -/
def stepsClock (p : PropSt) : List Bool → PropSt
  | [] => p
  | a :: as => stepsClock (p.update a (arTag a) []) as

theorem Ad.run_clock {σ ι : Type} (body : ι → Int → Nat → σ → Option σ) (acc : ι → Bool) :
    ∀ (hs : List ι) (a a' : Ad σ), Ad.run body acc a hs = some a' →
      a'.clock = stepsClock a.clock (hs.map acc) := by
  intro hs
  induction hs with
  | nil => intro a a' hr; simp [Ad.run] at hr; subst hr; rfl
  | cons i is ih =>
    intro a a' hr
    simp only [Ad.run, Option.bind_eq_some_iff] at hr
    obtain ⟨b, hb, hr⟩ := hr
    rw [ih b a' hr, (Ad.update_eq_some hb).1]
    rfl

/-- The default clock: `jump_interval = 1`, `start_step = 1`, window `1 < dk < T`. -/
def SimpleAT (p : PropSt) : Prop :=
  p.cfg.k = 1 ∧ p.cfg.window = .at ∧ p.startStep = 1

theorem simpleAT_update {p : PropSt} (h : SimpleAT p) (a : Bool) (r : AR) (x : List Val) :
    SimpleAT (p.update a r x) := h

theorem simpleAT_facts {p : PropSt} (h : SimpleAT p) :
    p.callJump = true ∧ p.dkUpdate = (p.raw : Int) ∧
    (p.inWindow = true ↔ 1 < p.raw ∧ p.raw < p.cfg.T) := by
  obtain ⟨hk, hw, hs⟩ := h
  have hn : p.nsteps = p.raw := by simp [PropSt.nsteps, hk]
  refine ⟨by simp [PropSt.callJump, hk], by simp [PropSt.dkUpdate, hn, hs], ?_⟩
  rw [inWindow_at_iff p hw, hn, hs]; omega

section GainSum2
variable {α : Type} [Field α] [LinearOrder α] [IsStrictOrderedRing α]

theorem gsum_stepsClock (gain : Int → α) : ∀ (accs : List Bool) (p : PropSt), SimpleAT p →
    gsum gain (stepsClock p accs) = gsum gain p +
      ∑ r ∈ Finset.Ico p.raw (p.raw + accs.length),
        (if 1 < r ∧ r < p.cfg.T then gain (r : Int) else 0) := by
  intro accs
  induction accs with
  | nil => intro p _; simp [stepsClock]
  | cons a as ih =>
    intro p hp
    obtain ⟨hj, hdk, hin⟩ := simpleAT_facts hp
    rw [stepsClock, ih _ (simpleAT_update hp _ _ _), gsum_update, update_raw, update_cfg]
    have hlen : p.raw + (a :: as).length = p.raw + 1 + as.length := by simp; omega
    rw [hlen, Finset.sum_eq_sum_Ico_succ_bot (by omega : p.raw < p.raw + 1 + as.length)]
    have : (if (p.callJump && p.inWindow) = true then gain p.dkUpdate else 0)
        = (if 1 < p.raw ∧ p.raw < p.cfg.T then gain (p.raw : Int) else 0) := by
      rw [hj, hdk]
      by_cases hw : p.inWindow = true
      · simp [hw, hin.mp hw]
      · have : ¬ (1 < p.raw ∧ p.raw < p.cfg.T) := fun h => hw (hin.mpr h)
        simp [hw, this]
    rw [this]; ring

theorem sum_window_nat_int (gain : Int → α) (T m : Nat) (hm : T ≤ m) :
    ∑ r ∈ Finset.Ico 0 m, (if 1 < r ∧ r < T then gain (r : Int) else 0)
      = ∑ d ∈ Finset.Ioo (1 : Int) (T : Int), gain d := by
  rw [← Finset.sum_filter]
  apply Finset.sum_nbij' (fun r : Nat => (r : Int)) (fun d : Int => d.toNat)
  · intro r hr
    simp only [Finset.mem_filter, Finset.mem_Ico] at hr
    simp only [Finset.mem_Ioo]; omega
  · intro d hd
    simp only [Finset.mem_Ioo] at hd
    simp only [Finset.mem_filter, Finset.mem_Ico]; omega
  · intro r _; simp
  · intro d hd
    simp only [Finset.mem_Ioo] at hd
    show ((d.toNat : Nat) : Int) = d
    omega
  · intro r _; rfl

/-- From a fresh default clock, any history at least as long as the window absorbs exactly
    the gains `gain 2, …, gain (T-1)`. -/
theorem gsum_complete_window (gain : Int → α) (p : PropSt) (hp : SimpleAT p) (h0 : p.raw = 0)
    (hev : p.events = []) (accs : List Bool) (hlen : p.cfg.T ≤ accs.length) :
    gsum gain (stepsClock p accs) = ∑ d ∈ Finset.Ioo (1 : Int) (p.cfg.T : Int), gain d := by
  rw [gsum_stepsClock gain accs p hp, h0, Nat.zero_add, sum_window_nat_int gain _ _ hlen]
  simp [gsum, hev]

end GainSum2

/-! ## 2. The recursions over a linearly ordered field -/

section Field
variable {α : Type} [Field α] [LinearOrder α] [IsStrictOrderedRing α]

/-! ### Veitch -/

theorem veitchComp_eq (alpha g d s : α) :
    veitchComp alpha g d s = if s + alpha * g * d / 10 ≤ 0 then s else s + alpha * g * d / 10 := rfl

theorem veitchComp_accept {xi g d s : α} (hxi : xi < 1) (hg : 0 < g) (hd : 0 < d) (hs : 0 ≤ s) :
    s < veitchComp (1 - xi) g d s := by
  have hp : 0 < (1 - xi) * g * d / 10 := by
    have : 0 < 1 - xi := sub_pos.mpr hxi
    positivity
  rw [veitchComp_eq]
  split_ifs with h <;> linarith

theorem veitchComp_reject_le {xi g d s : α} (hxi : 0 ≤ xi) (hg : 0 ≤ g) (hd : 0 ≤ d) :
    veitchComp (-xi) g d s ≤ s := by
  have hp : 0 ≤ xi * g * d / 10 := by positivity
  have e : -xi * g * d / 10 = -(xi * g * d / 10) := by ring
  rw [veitchComp_eq, e]
  split_ifs with h <;> linarith

theorem veitchComp_reject_lt {xi g d s : α} (hxi : 0 < xi) (hg : 0 < g) (hd : 0 < d)
    (hroom : 0 < s + -xi * g * d / 10) : veitchComp (-xi) g d s < s := by
  have hp : 0 < xi * g * d / 10 := by positivity
  have e : -xi * g * d / 10 = -(xi * g * d / 10) := by ring
  rw [veitchComp_eq]
  rw [e] at hroom ⊢
  split_ifs with h <;> linarith

theorem veitchComp_nonneg {alpha g d s : α} (hs : 0 ≤ s) : 0 ≤ veitchComp alpha g d s := by
  rw [veitchComp_eq]
  split_ifs with h
  · exact hs
  · exact (not_le.mp h).le

/-- The guard tests `≤ 0`: a positive width stays positive whatever the update is. -/
theorem veitchComp_pos {alpha g d s : α} (hs : 0 < s) : 0 < veitchComp alpha g d s := by
  rw [veitchComp_eq]
  split_ifs with h
  · exact hs
  · exact not_le.mp h

theorem veitchComp_le {xi g d s : α} (hxi0 : 0 ≤ xi) (hxi : xi ≤ 1) (hg : 0 ≤ g) (hd : 0 ≤ d)
    (acc : Bool) : veitchComp (veitchAlpha xi acc) g d s ≤ s + (1 - xi) * g * d / 10 := by
  have hp : 0 ≤ (1 - xi) * g * d / 10 := by
    have : 0 ≤ 1 - xi := sub_nonneg.mpr hxi
    positivity
  cases acc
  · simp only [veitchAlpha, Bool.false_eq_true, if_false]
    have := veitchComp_reject_le (s := s) hxi0 hg hd
    linarith
  · simp only [veitchAlpha, if_true]
    rw [veitchComp_eq]
    split_ifs with h <;> linarith

theorem veitchComp_guard {alpha g d s : α} (h : s + alpha * g * d / 10 ≤ 0) :
    veitchComp alpha g d s = s := by
  rw [veitchComp_eq, if_pos h]

theorem veitchComp_step {alpha g d s : α} (h : 0 < s + alpha * g * d / 10) :
    veitchComp alpha g d s = s + alpha * g * d / 10 := by
  rw [veitchComp_eq, if_neg (not_le.mpr h)]

@[simp] theorem veitchDefaultStd_getElem {n : Nat} (xi : α) (deltas : Vector α n) (i : Fin n) :
    (veitchDefaultStd xi deltas)[i] = (1 - xi) * ((10 - 1) / (10 * 10)) * deltas[i] := by
  simp [veitchDefaultStd]

@[simp] theorem veitchBody_getElem {n : Nat} (c : VeitchCfg α n) (acc : Bool) (dk : Int)
    (std : Vector α n) (i : Fin n) :
    (veitchBody c acc dk std)[i] =
      veitchComp (veitchAlpha c.xi acc) (c.gain dk) c.deltas[i] std[i] := by
  simp [veitchBody]

/-! ### `max()` -/

theorem foldl_max_some (l : List α) : ∀ (acc : Option α) (r : α),
    l.foldl (fun acc x => match acc with
      | none => some x
      | some a => some (if a < x then x else a)) acc = some r →
    (∀ a, acc = some a → a ≤ r) ∧ ∀ x ∈ l, x ≤ r := by
  induction l with
  | nil => intro acc r h; simp at h; subst h; simp
  | cons y ys ih =>
    intro acc r h
    simp only [List.foldl_cons] at h
    obtain ⟨h1, h2⟩ := ih _ r h
    cases acc with
    | none =>
      simp only at h1
      refine ⟨by simp, ?_⟩
      intro x hx
      rcases List.mem_cons.mp hx with rfl | hx
      · exact h1 _ rfl
      · exact h2 x hx
    | some a =>
      simp only at h1
      have hr := h1 _ rfl
      refine ⟨?_, ?_⟩
      · intro a' ha'
        cases ha'
        split_ifs at hr with hlt
        · exact le_trans hlt.le hr
        · exact hr
      · intro x hx
        rcases List.mem_cons.mp hx with rfl | hx
        · split_ifs at hr with hlt
          · exact hr
          · exact le_trans (not_lt.mp hlt) hr
        · exact h2 x hx

theorem foldl_max_none (l : List α) : ∀ (acc : Option α),
    l.foldl (fun acc x => match acc with
      | none => some x
      | some a => some (if a < x then x else a)) acc = none → acc = none ∧ l = [] := by
  induction l with
  | nil => intro acc h; simpa using h
  | cons y ys ih =>
    intro acc h
    simp only [List.foldl_cons] at h
    have := (ih _ h).1
    cases acc <;> simp at this

theorem vmax_ge {m : Nat} {v : Vector α m} {mx : α} (h : vmax v = some mx) (i : Fin m) :
    v[i] ≤ mx := by
  have := (foldl_max_some v.toList none mx h).2 v[i] (by simp [Vector.mem_toList_iff])
  exact this

theorem foldl_max_mem (l : List α) : ∀ (acc : Option α) (r : α),
    l.foldl (fun acc x => match acc with
      | none => some x
      | some a => some (if a < x then x else a)) acc = some r → acc = some r ∨ r ∈ l := by
  induction l with
  | nil => intro acc r h; simp at h; exact Or.inl h
  | cons y ys ih =>
    intro acc r h
    simp only [List.foldl_cons] at h
    rcases ih _ r h with h1 | h1
    · cases acc with
      | none => simp only [Option.some.injEq] at h1; subst h1; exact Or.inr (List.mem_cons_self ..)
      | some a =>
        simp only [Option.some.injEq] at h1
        split_ifs at h1 with hlt
        · subst h1; exact Or.inr (List.mem_cons_self ..)
        · subst h1; exact Or.inl rfl
    · exact Or.inr (List.mem_cons_of_mem _ h1)

theorem vmax_mem {m : Nat} {v : Vector α m} {mx : α} (h : vmax v = some mx) :
    ∃ i : Fin m, v[i] = mx := by
  rcases foldl_max_mem v.toList none mx h with h1 | h1
  · cases h1
  · rw [Vector.mem_toList_iff] at h1
    obtain ⟨i, hi, rfl⟩ := Vector.getElem_of_mem h1
    exact ⟨⟨i, hi⟩, rfl⟩

theorem vmax_none {m : Nat} {v : Vector α m} (h : vmax v = none) : m = 0 := by
  have := (foldl_max_none v.toList none h).2
  have hl : v.toList.length = m := by simp
  rw [this] at hl
  simpa using hl.symm

/-! ### Sivia–Skilling -/

theorem ssBranch_up {xi rate : α} (h : xi < rate) : ssBranch xi rate = .up := by
  simp [ssBranch, h]

theorem ssBranch_down {xi rate : α} (h : rate < xi) : ssBranch xi rate = .down := by
  simp [ssBranch, h, not_lt.mpr h.le]

theorem ssAlpha_pos (c : SSCfg α) (hup : ∀ n, 0 < c.alphaUp n) (hdn : ∀ n, 0 < c.alphaDown n)
    (n nIter : Nat) : 0 < ssAlpha c n nIter := by
  unfold ssAlpha
  split
  · exact hup _
  · exact hdn _
  · exact one_pos

theorem ssBody_eq_some {m : Nat} {c : SSCfg α} {acc : Bool} {dk : Int} {s s' : SSSt α m}
    (h : ssBody c acc dk s = some s') :
    0 < dk + 1 ∧ s'.nAcc = s.nAcc + (if acc then 1 else 0) ∧
    s'.vals = (if ssAllowed c (ssAlpha c s'.nAcc (dk + 1).toNat) s.vals
      then s.vals.map (fun v => v * ssAlpha c s'.nAcc (dk + 1).toNat) else s.vals) := by
  unfold ssBody at h
  by_cases h0 : dk + 1 ≤ 0
  · simp [h0] at h
  · simp only [h0, if_false, Option.some.injEq] at h
    subst h
    exact ⟨by omega, rfl, rfl⟩

/-- Entries stay positive under every history. -/
theorem ssBody_pos {m : Nat} {c : SSCfg α} (hup : ∀ n, 0 < c.alphaUp n)
    (hdn : ∀ n, 0 < c.alphaDown n) {acc : Bool} {dk : Int} {s s' : SSSt α m}
    (h : ssBody c acc dk s = some s') (hpos : ∀ i : Fin m, 0 < s.vals[i]) :
    ∀ i : Fin m, 0 < s'.vals[i] := by
  obtain ⟨_, _, hv⟩ := ssBody_eq_some h
  intro i
  rw [hv]
  split_ifs
  · simp only [Fin.getElem_fin, Vector.getElem_map]
    exact mul_pos (hpos i) (ssAlpha_pos c hup hdn _ _)
  · exact hpos i

theorem ssAllowed_of_le_one {m : Nat} (c : SSCfg α) {a : α} (vals : Vector α m) (h : a ≤ 1) :
    ssAllowed c a vals = true := by
  unfold ssAllowed; simp [h]

/-- With a cap, (positive) entries never exceed `max(initial bound, cap)`: a factor `≤ 1`
    cannot raise them, a widening one is applied only if the result stays within the cap. -/
theorem ssBody_le {m : Nat} {c : SSCfg α} {cap : α} (hcap : c.cap = some cap)
    (hup : ∀ n, 0 < c.alphaUp n) (hdn : ∀ n, 0 < c.alphaDown n)
    {acc : Bool} {dk : Int} {s s' : SSSt α m}
    (h : ssBody c acc dk s = some s') {B : α} (hB : cap ≤ B) (hpos : ∀ i : Fin m, 0 < s.vals[i])
    (hle : ∀ i : Fin m, s.vals[i] ≤ B) :
    ∀ i : Fin m, s'.vals[i] ≤ B := by
  obtain ⟨_, _, hv⟩ := ssBody_eq_some h
  intro i
  rw [hv]
  split_ifs with hal
  · simp only [Fin.getElem_fin, Vector.getElem_map]
    have ha := ssAlpha_pos c hup hdn s'.nAcc (dk + 1).toNat
    by_cases h1' : ssAlpha c s'.nAcc (dk + 1).toNat ≤ 1
    · have := hle i
      have hp := hpos i
      simp only [Fin.getElem_fin] at this hp
      nlinarith
    · unfold ssAllowed at hal
      rw [hcap] at hal
      cases hmx : vmax s.vals with
      | none => exact absurd (vmax_none hmx) (by have := i.2; omega)
      | some mx =>
        simp only [hmx, h1', decide_false, Bool.false_or, decide_eq_true_eq] at hal
        have h1 : s.vals[(i : Nat)] ≤ mx := vmax_ge hmx i
        calc s.vals[(i : Nat)] * ssAlpha c s'.nAcc (dk + 1).toNat
            ≤ mx * ssAlpha c s'.nAcc (dk + 1).toNat := mul_le_mul_of_nonneg_right h1 ha.le
          _ = ssAlpha c s'.nAcc (dk + 1).toNat * mx := mul_comm _ _
          _ ≤ cap := hal
          _ ≤ B := hB
  · exact hle i

/-! ### Andrieu–Thoms -/

theorem atLam_up {g xi l ar : α} (hg : 0 < g) (h : xi < ar) : l < atLam g xi l ar := by
  unfold atLam; nlinarith [mul_pos hg (sub_pos.mpr h)]

theorem atLam_down {g xi l ar : α} (hg : 0 < g) (h : ar < xi) : atLam g xi l ar < l := by
  unfold atLam; nlinarith [mul_pos hg (sub_pos.mpr h)]

theorem atLam_same {g xi l : α} : atLam g xi l xi = l := by
  unfold atLam; ring

theorem atLam_abs {g xi l ar : α} (hg : 0 ≤ g) (h0 : 0 ≤ ar) (h1 : ar ≤ 1) :
    |atLam g xi l ar - l| ≤ g * max xi (1 - xi) := by
  unfold atLam
  have e : l + g * (ar - xi) - l = g * (ar - xi) := by ring
  rw [e, abs_mul, abs_of_nonneg hg]
  apply mul_le_mul_of_nonneg_left _ hg
  rw [abs_le]
  constructor
  · have := le_max_left xi (1 - xi); linarith
  · have := le_max_right xi (1 - xi); linarith

/-- The acceptance ratio that drives coordinate `j`: the step's own (global scaling) or the
    `j`-th virtual move's (componentwise). -/
def arAt {n : Nat} (l : Lam α n) (i : ATIn α n) (j : Fin n) : α :=
  match l with
  | .glob _ => i.ar
  | .comp _ => i.vars[j]

theorem atBody_lamAt {n : Nat} (c : ATCfg α) (i : ATIn α n) (dk : Int) (s : ATSt α n) (j : Fin n) :
    lamAt (atBody c i dk s).logLam j = atLam (c.gain dk) c.xi (lamAt s.logLam j) (arAt s.logLam i j) := by
  unfold atBody lamAt arAt
  cases s.logLam <;> simp

/-- A convex combination of positive numbers: the diagonal `_unit_cov` stays positive. -/
theorem conv_pos {g u q : α} (hg0 : 0 ≤ g) (hg1 : g < 1) (hu : 0 < u) (hq : 0 ≤ q) :
    0 < u + g * (q - u) := by
  have : u + g * (q - u) = (1 - g) * u + g * q := by ring
  rw [this]
  have h1 : 0 < (1 - g) * u := mul_pos (sub_pos.mpr hg1) hu
  have h2 : 0 ≤ g * q := mul_nonneg hg0 hq
  linarith

/-- Quadratic form of a matrix. -/
def quad {n : Nat} (M : Mat α n) (v : Fin n → α) : α := ∑ j : Fin n, ∑ k : Fin n, v j * M[j][k] * v k

/-- Positive semidefinite (as a quadratic form). -/
def PSD {n : Nat} (M : Mat α n) : Prop := ∀ v : Fin n → α, 0 ≤ quad M v

theorem quad_rank_one {n : Nat} (d : Fin n → α) (v : Fin n → α) :
    ∑ j : Fin n, ∑ k : Fin n, v j * (d j * d k) * v k = (∑ j : Fin n, v j * d j) ^ 2 := by
  rw [sq, Finset.sum_mul_sum]
  apply Finset.sum_congr rfl; intro j _
  apply Finset.sum_congr rfl; intro k _
  ring

/-- `unit_cov += g (df dfᵀ - unit_cov)` keeps a positive semidefinite matrix so. -/
theorem psd_convex {n : Nat} {M : Mat α n} (hM : PSD M) (d : Vector α n) {g : α}
    (hg0 : 0 ≤ g) (hg1 : g ≤ 1) :
    PSD (Vector.ofFn fun j : Fin n => Vector.ofFn fun k : Fin n =>
      M[j][k] + g * (d[j] * d[k] - M[j][k])) := by
  intro v
  have e : quad (Vector.ofFn fun j : Fin n => Vector.ofFn fun k : Fin n =>
      M[j][k] + g * (d[j] * d[k] - M[j][k])) v
      = (1 - g) * quad M v + g * (∑ j : Fin n, v j * d[j]) ^ 2 := by
    rw [← quad_rank_one (fun j => d[j]) v]
    unfold quad
    rw [Finset.mul_sum, Finset.mul_sum, ← Finset.sum_add_distrib]
    apply Finset.sum_congr rfl; intro j _
    rw [Finset.mul_sum, Finset.mul_sum, ← Finset.sum_add_distrib]
    apply Finset.sum_congr rfl; intro k _
    simp only [Fin.getElem_fin, Vector.getElem_ofFn]
    ring
  rw [e]
  have h1 : 0 ≤ (1 - g) * quad M v := mul_nonneg (sub_nonneg.mpr hg1) (hM v)
  have h2 : 0 ≤ g * (∑ j : Fin n, v j * d[j]) ^ 2 := mul_nonneg hg0 (sq_nonneg _)
  linarith

/-- Scaling rows and columns (`Λ^½ unit_cov Λ^½`, or `exp(log λ) unit_cov`). -/
theorem psd_scale {n : Nat} {M : Mat α n} (hM : PSD M) (sl : Fin n → α) :
    PSD (Vector.ofFn fun j : Fin n => Vector.ofFn fun k : Fin n => sl j * M[j][k] * sl k) := by
  intro v
  have e : quad (Vector.ofFn fun j : Fin n => Vector.ofFn fun k : Fin n => sl j * M[j][k] * sl k) v
      = quad M (fun j => v j * sl j) := by
    unfold quad
    apply Finset.sum_congr rfl; intro j _
    apply Finset.sum_congr rfl; intro k _
    simp only [Fin.getElem_fin, Vector.getElem_ofFn]
    ring
  rw [e]
  exact hM _

/-- `recursive_covariance` keeps a positive semidefinite matrix so (for `N ≥ 2`). -/
theorem psd_eigCov {n : Nat} {M : Mat α n} (hM : PSD M) (d : Vector α n) {N : α} (hN : 2 ≤ N) :
    PSD (eigCov N M d) := by
  intro v
  have hN0 : 0 < N := by linarith
  have hN1 : 0 < N * N - 1 := by nlinarith
  have e : quad (eigCov N M d) v
      = (N - 1) / N * quad M v + (N - 1) / N * (N / (N * N - 1)) * (∑ j : Fin n, v j * d[j]) ^ 2 := by
    rw [← quad_rank_one (fun j => d[j]) v]
    unfold quad eigCov
    rw [Finset.mul_sum, Finset.mul_sum, ← Finset.sum_add_distrib]
    apply Finset.sum_congr rfl; intro j _
    rw [Finset.mul_sum, Finset.mul_sum, ← Finset.sum_add_distrib]
    apply Finset.sum_congr rfl; intro k _
    simp only [Fin.getElem_fin, Vector.getElem_ofFn]
    ring
  rw [e]
  have h1 : 0 ≤ (N - 1) / N := div_nonneg (by linarith) hN0.le
  have h2 : 0 ≤ N / (N * N - 1) := div_nonneg hN0.le hN1.le
  have := mul_nonneg h1 (hM v)
  have := mul_nonneg (mul_nonneg h1 h2) (sq_nonneg (∑ j : Fin n, v j * d[j]))
  linarith

/-! ### von Mises–Fisher -/

theorem vmfLogKappa_down {g xi l ar : α} (hg : 0 < g) (h : xi < ar) : vmfLogKappa g xi l ar < l := by
  unfold vmfLogKappa; nlinarith [mul_pos hg (sub_pos.mpr h)]

theorem vmfLogKappa_up {g xi l ar : α} (hg : 0 < g) (h : ar < xi) : l < vmfLogKappa g xi l ar := by
  unfold vmfLogKappa; nlinarith [mul_pos hg (sub_pos.mpr h)]

theorem vmfBody_eq_some {c : ATCfg α} {i : VmfIn α} {dk : Int} {s s' : VmfSt α}
    (h : vmfBody c i dk s = some s') :
    0 < i.ek ∧ 0 ≤ i.nm ∧ s'.kappa = i.ek ∧ s'.norm = i.nm ∧
    s'.logKappa = vmfLogKappa (c.gain dk) c.xi s.logKappa i.ar := by
  unfold vmfBody at h
  split_ifs at h with h1 h2
  simp only [Option.some.injEq] at h
  subst h
  exact ⟨h1, h2, rfl, rfl, rfl⟩

end Field

/-! ## 3. Real analysis -/

open Real

/-- The gain of the Andrieu–Thoms, adaptive eigenvector and adaptive von Mises–Fisher
    updates, `dk^-0.6 - T^-0.6` (`_decay_const = adaptation_duration ** (-0.6)`). -/
noncomputable def gainAT (T : ℕ) (dk : ℤ) : ℝ := (dk : ℝ) ^ (-(0.6 : ℝ)) - (T : ℝ) ^ (-(0.6 : ℝ))

/-- The gain of the Veitch update with decay `β` (default `1 / log10 T`):
    `dk^-β - T^-β` (`_decay_const = adaptation_duration ** (-adaptation_decay)`, repo fix of the
    third session; `T^-β = 0.1` for the default decay, `gainV_default_const`). -/
noncomputable def gainV (T : ℕ) (β : ℝ) (dk : ℤ) : ℝ := (dk : ℝ) ^ (-β) - (T : ℝ) ^ (-β)

theorem gainAT_pos (T : ℕ) (dk : ℤ) (h1 : 1 < dk) (h2 : dk < T) : 0 < gainAT T dk := by
  unfold gainAT
  have hd : (0 : ℝ) < dk := by exact_mod_cast (by omega : (0 : ℤ) < dk)
  have hlt : (dk : ℝ) < T := by exact_mod_cast h2
  have := Real.rpow_lt_rpow_of_neg hd hlt (by norm_num : (-(0.6 : ℝ)) < 0)
  linarith

theorem gainAT_lt_one (T : ℕ) (dk : ℤ) (h1 : 1 < dk) : gainAT T dk < 1 := by
  unfold gainAT
  have hd : (1 : ℝ) < dk := by exact_mod_cast h1
  have h1' : (dk : ℝ) ^ (-(0.6 : ℝ)) < 1 := Real.rpow_lt_one_of_one_lt_of_neg hd (by norm_num)
  have h2 : 0 ≤ (T : ℝ) ^ (-(0.6 : ℝ)) := Real.rpow_nonneg (Nat.cast_nonneg T) _
  linarith

/-- For every positive decay the gain is positive throughout the window (and vanishes at `dk = T`). -/
theorem gainV_pos (T : ℕ) (β : ℝ) (hβ : 0 < β) (dk : ℤ) (h1 : 1 ≤ dk)
    (h2 : dk < T) : 0 < gainV T β dk := by
  unfold gainV
  have hd1 : (1 : ℝ) ≤ dk := by exact_mod_cast h1
  have hd : (0 : ℝ) < dk := by linarith
  have hlt : (dk : ℝ) < T := by exact_mod_cast h2
  have := Real.rpow_lt_rpow_of_neg hd hlt (by linarith : -β < 0)
  linarith

/-- With the documented default decay `1 / log10 T` the constant is the `0.1` of Veitch et al. -/
theorem gainV_default_const (T : ℕ) (hT : 1 < T) : (T : ℝ) ^ (-(1 / Real.logb 10 T)) = 0.1 := by
  have hT1 : (1 : ℝ) < T := by exact_mod_cast hT
  have hT0 : (0 : ℝ) < T := by linarith
  have hlogT : 0 < Real.logb 10 T := Real.logb_pos (by norm_num) hT1
  have h10 : (10 : ℝ) ^ Real.logb 10 T = (T : ℝ) :=
    Real.rpow_logb (by norm_num) (by norm_num) hT0
  have hmul : Real.logb 10 ↑T * -(1 / Real.logb 10 ↑T) = -1 := by field_simp
  calc (T : ℝ) ^ (-(1 / Real.logb 10 T))
      = ((10 : ℝ) ^ Real.logb 10 T) ^ (-(1 / Real.logb 10 T)) := by rw [h10]
    _ = (10 : ℝ) ^ (Real.logb 10 T * -(1 / Real.logb 10 T)) :=
        (Real.rpow_mul (by norm_num) _ _).symm
    _ = 0.1 := by rw [hmul, Real.rpow_neg_one]; norm_num

theorem gainV_one (T : ℕ) (β : ℝ) : gainV T β 1 = 1 - (T : ℝ) ^ (-β) := by
  unfold gainV
  simp only [Int.cast_one, Real.one_rpow]

/-- With the default decay the first gain of the window is `0.9`. -/
theorem gainV_one_default (T : ℕ) (hT : 1 < T) : gainV T (1 / Real.logb 10 T) 1 = 9 / 10 := by
  rw [gainV_one, gainV_default_const T hT]; norm_num

theorem gainV_le (T : ℕ) (β : ℝ) (hβ : 0 ≤ β) (dk : ℤ) (h1 : 1 ≤ dk) : gainV T β dk ≤ 1 := by
  unfold gainV
  have hd1 : (1 : ℝ) ≤ dk := by exact_mod_cast h1
  have h1' : (dk : ℝ) ^ (-β) ≤ 1 := Real.rpow_le_one_of_one_le_of_nonpos hd1 (by linarith)
  have h2 : 0 ≤ (T : ℝ) ^ (-β) := Real.rpow_nonneg (Nat.cast_nonneg T) _
  linarith

/-- Bernoulli: `(x+1)^0.4 - x^0.4 ≤ 0.4 x^-0.6`. -/
theorem rpow_step (x : ℝ) (hx : 1 ≤ x) :
    (x + 1) ^ (0.4 : ℝ) - x ^ (0.4 : ℝ) ≤ 0.4 * x ^ (-(0.6 : ℝ)) := by
  have hx0 : 0 < x := by linarith
  have h1 : (x + 1) = x * (1 + 1 / x) := by field_simp
  have hinv : (0 : ℝ) ≤ 1 / x := by positivity
  have hb := rpow_one_add_le_one_add_mul_self (s := 1 / x) (by linarith) (p := 0.4)
    (by norm_num) (by norm_num)
  have hxp : 0 < x ^ (0.4 : ℝ) := Real.rpow_pos_of_pos hx0 _
  have h2 : (x + 1) ^ (0.4 : ℝ) = x ^ (0.4 : ℝ) * (1 + 1 / x) ^ (0.4 : ℝ) := by
    rw [h1, Real.mul_rpow hx0.le (by positivity)]
  have h3 : x ^ (-(0.6 : ℝ)) = x ^ (0.4 : ℝ) / x := by
    have : (-(0.6 : ℝ)) = 0.4 - 1 := by norm_num
    rw [this, Real.rpow_sub_one hx0.ne']
  rw [h2, h3]
  have : x ^ (0.4 : ℝ) * (1 + 1 / x) ^ (0.4 : ℝ) ≤ x ^ (0.4 : ℝ) * (1 + 0.4 * (1 / x)) :=
    mul_le_mul_of_nonneg_left hb hxp.le
  have e : x ^ (0.4 : ℝ) * (1 + 0.4 * (1 / x)) = x ^ (0.4 : ℝ) + 0.4 * (x ^ (0.4 : ℝ) / x) := by
    field_simp
  linarith

theorem Ioo_succ (T : ℕ) (hT : 2 ≤ T) :
    Finset.Ioo (1 : ℤ) ((T + 1 : ℕ) : ℤ) = insert (T : ℤ) (Finset.Ioo (1 : ℤ) (T : ℤ)) := by
  ext d
  simp only [Finset.mem_Ioo, Finset.mem_insert]
  push_cast
  omega

theorem sum_rpow_ge (T : ℕ) (hT : 2 ≤ T) :
    2.5 * ((T : ℝ) ^ (0.4 : ℝ) - (2 : ℝ) ^ (0.4 : ℝ))
      ≤ ∑ d ∈ Finset.Ioo (1 : ℤ) (T : ℤ), (d : ℝ) ^ (-(0.6 : ℝ)) := by
  induction T, hT using Nat.le_induction with
  | base =>
    have : Finset.Ioo (1 : ℤ) ((2 : ℕ) : ℤ) = ∅ := by
      ext d; simp only [Finset.mem_Ioo, Finset.notMem_empty, iff_false]; push_cast; omega
    rw [this]; simp
  | succ T hT ih =>
    rw [Ioo_succ T hT, Finset.sum_insert (by simp)]
    have hx : (1 : ℝ) ≤ T := by exact_mod_cast (by omega : 1 ≤ T)
    have := rpow_step T hx
    push_cast at this ⊢
    linarith

theorem two_rpow_le : (2 : ℝ) ^ (0.4 : ℝ) ≤ 4 / 3 := by
  by_contra h
  replace h := not_le.mp h
  have h5 : ((2 : ℝ) ^ (0.4 : ℝ)) ^ (5 : ℕ) = 4 := by
    rw [← Real.rpow_natCast, ← Real.rpow_mul (by norm_num)]
    norm_num
  have := pow_lt_pow_left₀ h (by norm_num) (by norm_num : (5 : ℕ) ≠ 0)
  rw [h5] at this
  norm_num at this

theorem card_Ioo_le (T : ℕ) : ((Finset.Ioo (1 : ℤ) (T : ℤ)).card : ℝ) ≤ T := by
  rw [Int.card_Ioo]
  have : ((T : ℤ) - 1 - 1).toNat ≤ T := by omega
  exact_mod_cast this

/-- The gains of a whole window add up to at least `1.5 T^0.4 - 10/3`. -/
theorem sum_gainAT_ge (T : ℕ) (hT : 2 ≤ T) :
    (3 / 2) * (T : ℝ) ^ (0.4 : ℝ) - 10 / 3 ≤ ∑ d ∈ Finset.Ioo (1 : ℤ) (T : ℤ), gainAT T d := by
  unfold gainAT
  rw [Finset.sum_sub_distrib, Finset.sum_const, nsmul_eq_mul]
  have h1 := sum_rpow_ge T hT
  have h2 := two_rpow_le
  have hT0 : (0 : ℝ) < T := by exact_mod_cast (by omega : 0 < T)
  have h3 : (T : ℝ) * (T : ℝ) ^ (-(0.6 : ℝ)) = (T : ℝ) ^ (0.4 : ℝ) := by
    have : (0.4 : ℝ) = 1 + -(0.6) := by norm_num
    rw [this, Real.rpow_add hT0, Real.rpow_one]
  have h4 : 0 ≤ (T : ℝ) ^ (-(0.6 : ℝ)) := Real.rpow_nonneg hT0.le _
  have h5 := mul_le_mul_of_nonneg_right (card_Ioo_le T) h4
  linarith

/-- Bernoulli the other way: `0.4 x^-0.6 ≤ x^0.4 - (x-1)^0.4`. -/
theorem rpow_step_back (x : ℝ) (hx : 1 ≤ x) :
    0.4 * x ^ (-(0.6 : ℝ)) ≤ x ^ (0.4 : ℝ) - (x - 1) ^ (0.4 : ℝ) := by
  have hx0 : 0 < x := by linarith
  have h1 : (x - 1) = x * (1 + -(1 / x)) := by field_simp; ring
  have hinv : (1 : ℝ) / x ≤ 1 := by rw [div_le_one hx0]; exact hx
  have hb := rpow_one_add_le_one_add_mul_self (s := -(1 / x)) (by linarith) (p := 0.4)
    (by norm_num) (by norm_num)
  have hxp : 0 < x ^ (0.4 : ℝ) := Real.rpow_pos_of_pos hx0 _
  have h2 : (x - 1) ^ (0.4 : ℝ) = x ^ (0.4 : ℝ) * (1 + -(1 / x)) ^ (0.4 : ℝ) := by
    rw [h1, Real.mul_rpow hx0.le (by linarith)]
  have h3 : x ^ (-(0.6 : ℝ)) = x ^ (0.4 : ℝ) / x := by
    have : (-(0.6 : ℝ)) = 0.4 - 1 := by norm_num
    rw [this, Real.rpow_sub_one hx0.ne']
  rw [h2, h3]
  have : x ^ (0.4 : ℝ) * (1 + -(1 / x)) ^ (0.4 : ℝ) ≤ x ^ (0.4 : ℝ) * (1 + 0.4 * -(1 / x)) :=
    mul_le_mul_of_nonneg_left hb hxp.le
  have e : x ^ (0.4 : ℝ) * (1 + 0.4 * -(1 / x)) = x ^ (0.4 : ℝ) - 0.4 * (x ^ (0.4 : ℝ) / x) := by
    field_simp; ring
  linarith

theorem sum_rpow_le (T : ℕ) (hT : 2 ≤ T) :
    ∑ d ∈ Finset.Ioo (1 : ℤ) (T : ℤ), (d : ℝ) ^ (-(0.6 : ℝ))
      ≤ 2.5 * (((T : ℝ) - 1) ^ (0.4 : ℝ) - 1) := by
  induction T, hT using Nat.le_induction with
  | base =>
    have : Finset.Ioo (1 : ℤ) ((2 : ℕ) : ℤ) = ∅ := by
      ext d; simp only [Finset.mem_Ioo, Finset.notMem_empty, iff_false]; push_cast; omega
    rw [this]; norm_num
  | succ T hT ih =>
    rw [Ioo_succ T hT, Finset.sum_insert (by simp)]
    have hx : (1 : ℝ) ≤ T := by exact_mod_cast (by omega : 1 ≤ T)
    have := rpow_step_back T hx
    push_cast at this ⊢
    have e : (T : ℝ) + 1 - 1 = T := by ring
    rw [e]
    linarith

/-- The gains of a whole window add up to at most `2.5 T^0.4`. -/
theorem sum_gainAT_le (T : ℕ) (hT : 2 ≤ T) :
    ∑ d ∈ Finset.Ioo (1 : ℤ) (T : ℤ), gainAT T d ≤ 2.5 * (T : ℝ) ^ (0.4 : ℝ) := by
  have h1 := sum_rpow_le T hT
  have hT1 : (0 : ℝ) ≤ (T : ℝ) - 1 := by
    have : (2 : ℝ) ≤ T := by exact_mod_cast hT
    linarith
  have h2 : ((T : ℝ) - 1) ^ (0.4 : ℝ) ≤ (T : ℝ) ^ (0.4 : ℝ) :=
    Real.rpow_le_rpow hT1 (by linarith) (by norm_num)
  have h3 : ∑ d ∈ Finset.Ioo (1 : ℤ) (T : ℤ), gainAT T d
      ≤ ∑ d ∈ Finset.Ioo (1 : ℤ) (T : ℤ), (d : ℝ) ^ (-(0.6 : ℝ)) := by
    apply Finset.sum_le_sum
    intro d _
    unfold gainAT
    have := Real.rpow_nonneg (Nat.cast_nonneg T) (-(0.6 : ℝ))
    linarith
  linarith

theorem rpow_le_of_1e6 (T : ℕ) (hT : T ≤ 1000000) : (T : ℝ) ^ (0.4 : ℝ) ≤ 252 := by
  by_contra h
  replace h := not_le.mp h
  have hT0 : (0 : ℝ) ≤ T := Nat.cast_nonneg T
  have h5 : ((T : ℝ) ^ (0.4 : ℝ)) ^ (5 : ℕ) = (T : ℝ) ^ 2 := by
    rw [← Real.rpow_natCast, ← Real.rpow_mul hT0]
    norm_num
  have := pow_lt_pow_left₀ h (by norm_num) (by norm_num : (5 : ℕ) ≠ 0)
  rw [h5] at this
  have hT' : (T : ℝ) ≤ 1000000 := by exact_mod_cast hT
  nlinarith

theorem log_five_bounds : 1 < Real.log 5 ∧ Real.log 5 < 2 := by
  constructor
  · rw [Real.lt_log_iff_exp_lt (by norm_num)]
    have := Real.exp_one_lt_d9
    linarith
  · rw [Real.log_lt_iff_lt_exp (by norm_num)]
    have h := Real.exp_one_gt_d9
    have e : Real.exp 2 = Real.exp 1 ^ 2 := by rw [← Real.exp_nat_mul]; norm_num
    rw [e]
    nlinarith

theorem rpow_ge_of_1200 (T : ℕ) (hT : 1200 ≤ T) : (16.5 : ℝ) ≤ (T : ℝ) ^ (0.4 : ℝ) := by
  by_contra h
  replace h := not_le.mp h
  have hT0 : (0 : ℝ) ≤ T := Nat.cast_nonneg T
  have h5 : ((T : ℝ) ^ (0.4 : ℝ)) ^ (5 : ℕ) = (T : ℝ) ^ 2 := by
    rw [← Real.rpow_natCast, ← Real.rpow_mul hT0]
    norm_num
  have := pow_lt_pow_left₀ h (Real.rpow_nonneg hT0 _) (by norm_num : (5 : ℕ) ≠ 0)
  rw [h5] at this
  have hT' : (1200 : ℝ) ≤ T := by exact_mod_cast hT
  nlinarith

theorem exp_five_gt : (141.8 : ℝ) < Real.exp 5 := by
  have h := Real.exp_one_gt_d9
  have e : Real.exp 5 = Real.exp 1 ^ 5 := by
    rw [← Real.exp_nat_mul]; norm_num
  rw [e]
  have : (2.7182818283 : ℝ) ^ 5 < Real.exp 1 ^ 5 := pow_lt_pow_left₀ h (by norm_num) (by norm_num)
  have : (141.8 : ℝ) < (2.7182818283 : ℝ) ^ 5 := by norm_num
  linarith

/-- The exact von Mises–Fisher normalisation is positive for every `κ > 0`. -/
theorem vmf_norm_pos (κ : ℝ) (h : 0 < κ) : 0 < κ / (4 * Real.pi * Real.sinh κ) := by
  have := Real.sinh_pos_iff.mpr h
  have := Real.pi_pos
  positivity

/-- Acceptance mass of a rejection loop for a symmetric proposal whose cdf `F` is concave
    on `[0, ∞)`: from anywhere inside `[lo, hi]` it is at least `F(w/σ) - 1/2`. -/
theorem retry_bound (F : ℝ → ℝ) (hsym : ∀ t, F (-t) = 1 - F t)
    (hconc : ConcaveOn ℝ (Set.Ici 0) F) (lo hi x σ : ℝ) (hσ : 0 < σ) (h1 : lo ≤ x) (h2 : x ≤ hi) :
    F ((hi - lo) / σ) - 1 / 2 ≤ F ((hi - x) / σ) - F ((lo - x) / σ) := by
  have hF0 : F 0 = 1 / 2 := by
    have := hsym 0
    simp at this
    linarith
  obtain ⟨a, ha⟩ : ∃ a, a = (hi - x) / σ := ⟨_, rfl⟩
  obtain ⟨b, hb⟩ : ∃ b, b = (x - lo) / σ := ⟨_, rfl⟩
  have ha0 : 0 ≤ a := by rw [ha]; exact div_nonneg (by linarith) hσ.le
  have hb0 : 0 ≤ b := by rw [hb]; exact div_nonneg (by linarith) hσ.le
  have e1 : (lo - x) / σ = -b := by rw [hb]; ring
  have e2 : (hi - lo) / σ = a + b := by rw [ha, hb]; ring
  rw [e1, e2, hsym b, ← ha]
  by_cases hc : a + b = 0
  · have ha' : a = 0 := by linarith
    have hb' : b = 0 := by linarith
    rw [ha', hb', add_zero, hF0]; norm_num
  · have hcpos : 0 < a + b := lt_of_le_of_ne (by linarith) (Ne.symm hc)
    have m1 : a + b ∈ Set.Ici (0 : ℝ) := Set.mem_Ici.mpr hcpos.le
    have m0 : (0 : ℝ) ∈ Set.Ici (0 : ℝ) := Set.mem_Ici.mpr le_rfl
    have p1 : 0 ≤ a / (a + b) := by positivity
    have p2 : 0 ≤ b / (a + b) := by positivity
    have k1 := hconc.2 m1 m0 p1 p2 (by field_simp)
    have k2 := hconc.2 m1 m0 p2 p1 (by field_simp; ring)
    simp only [smul_eq_mul, mul_zero, add_zero] at k1 k2
    have ea : a / (a + b) * (a + b) = a := by field_simp
    have eb : b / (a + b) * (a + b) = b := by field_simp
    rw [ea] at k1
    rw [eb] at k2
    have esum : a / (a + b) + b / (a + b) = 1 := by field_simp
    have : (a / (a + b) + b / (a + b)) * F (a + b) + (a / (a + b) + b / (a + b)) * F 0
        ≤ F a + F b := by linarith
    rw [esum] at this
    linarith

/-- Without concavity (monotone, symmetric only): at least `F(w/(2σ)) - 1/2`. -/
theorem retry_bound_monotone (F : ℝ → ℝ) (hmono : Monotone F) (hsym : ∀ t, F (-t) = 1 - F t)
    (lo hi x σ : ℝ) (hσ : 0 < σ) (h1 : lo ≤ x) (h2 : x ≤ hi) :
    F ((hi - lo) / (2 * σ)) - 1 / 2 ≤ F ((hi - x) / σ) - F ((lo - x) / σ) := by
  have hF0 : F 0 = 1 / 2 := by
    have := hsym 0
    simp at this
    linarith
  have e1 : (lo - x) / σ = -((x - lo) / σ) := by ring
  rw [e1, hsym]
  have ha0 : 0 ≤ (hi - x) / σ := div_nonneg (by linarith) hσ.le
  have hb0 : 0 ≤ (x - lo) / σ := div_nonneg (by linarith) hσ.le
  have hFa := hmono ha0
  have hFb := hmono hb0
  rw [hF0] at hFa hFb
  have e2 : (hi - lo) / (2 * σ) = ((hi - x) / σ + (x - lo) / σ) / 2 := by field_simp; ring
  rcases le_total ((x - lo) / σ) ((hi - x) / σ) with hle | hle
  · have : F ((hi - lo) / (2 * σ)) ≤ F ((hi - x) / σ) := hmono (by rw [e2]; linarith)
    linarith
  · have : F ((hi - lo) / (2 * σ)) ≤ F ((x - lo) / σ) := hmono (by rw [e2]; linarith)
    linarith

/-- The other direction: a proposal whose cdf is `L`-Lipschitz (density `≤ L`) accepts at most
    `L w / σ`, so the loop needs at least `σ / (L w)` draws on average. -/
theorem accept_mass_le (F : ℝ → ℝ) (L : ℝ) (hL : ∀ s t, s ≤ t → F t - F s ≤ L * (t - s))
    (lo hi x σ : ℝ) (hσ : 0 < σ) (h : lo ≤ hi) :
    F ((hi - x) / σ) - F ((lo - x) / σ) ≤ L * ((hi - lo) / σ) := by
  have hle : (lo - x) / σ ≤ (hi - x) / σ := div_le_div_of_nonneg_right (by linarith) hσ.le
  have := hL _ _ hle
  have e : (hi - x) / σ - (lo - x) / σ = (hi - lo) / σ := by ring
  rw [e] at this
  exact this

end Epsie.Adapt
