/-
  Helper for C17: the annealer's recursion keeps the ladder ordered.
-/
import EpsieModel.Ladder
import Mathlib.Algebra.Order.Field.Basic
import Mathlib.Tactic.Positivity
import Mathlib.Tactic.FieldSimp
import Mathlib.Tactic.Linarith
namespace Epsie
namespace Ladder

/-- Strictly decreasing and positive below `prev`, up to (not including) the kept hottest entry. -/
def DecrFrom (prev : Rat) : List Rat → Prop
  | [] => True
  | [_] => True
  | b :: c :: rest => 0 < b ∧ b < prev ∧ DecrFrom b (c :: rest)

theorem anneal_step_lt (prev e : Rat) (hp : 0 < prev) (he : 0 < e) :
    0 < 1 / (1 / prev + e) ∧ 1 / (1 / prev + e) < prev := by
  have h1 : 0 < 1 / prev + e := by positivity
  refine ⟨by positivity, ?_⟩
  rw [div_lt_iff₀ h1]
  have : prev * (1 / prev + e) = 1 + prev * e := by field_simp
  rw [this]
  have : 0 < prev * e := by positivity
  linarith

theorem decrFrom_annealFrom (prev : Rat) (hp : 0 < prev) (rest es : List Rat)
    (hes : ∀ e ∈ es, 0 < e) (hl : rest.length ≤ es.length + 1) :
    DecrFrom prev (annealFrom prev rest es) := by
  induction rest generalizing prev es with
  | nil => simp [annealFrom, DecrFrom]
  | cons b rest ih =>
    cases rest with
    | nil => simp [annealFrom, DecrFrom]
    | cons c rest =>
      cases es with
      | nil => simp at hl
      | cons e es =>
        have he : 0 < e := hes e (by simp)
        obtain ⟨h1, h2⟩ := anneal_step_lt prev e hp he
        have ihh := ih (1 / (1 / prev + e)) h1 es (fun x hx => hes x (by simp [hx])) (by simpa using hl)
        simp only [annealFrom]
        cases hrest : annealFrom (1 / (1 / prev + e)) (c :: rest) es with
        | nil =>
          -- impossible: annealFrom of a non-empty list is non-empty
          cases rest with
          | nil => simp [annealFrom] at hrest
          | cons d rest' =>
            cases es with
            | nil => simp [annealFrom] at hrest
            | cons e' es' => simp [annealFrom] at hrest
        | cons x xs =>
          rw [hrest] at ihh
          exact ⟨h1, h2, ihh⟩

end Ladder
end Epsie
