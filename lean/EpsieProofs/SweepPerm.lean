/-
  EpsieProofs.SweepPerm — `swap_index` is a permutation: whatever the ladder, the
  log-likelihoods and the uniforms, the sweep's bookkeeping only ever exchanges two adjacent
  entries, so no level index is lost or duplicated.
-/
import EpsieProofs.SweepApply
namespace Epsie
namespace Swap

theorem swapIdx_nil (tj : Nat) : swapIdx [] tj = [] := by
  unfold swapIdx; simp

theorem swapIdx_zero_cons_cons (a b : Nat) (xs : List Nat) : swapIdx (a :: b :: xs) 0 = b :: a :: xs := by
  unfold swapIdx; simp

theorem swapIdx_zero_single (a : Nat) : swapIdx [a] 0 = [a] := by
  unfold swapIdx; simp

theorem swapIdx_cons_succ (x : Nat) (xs : List Nat) (tj : Nat) :
    swapIdx (x :: xs) (tj + 1) = x :: swapIdx xs tj := by
  unfold swapIdx
  simp only [List.getElem?_cons_succ]
  cases xs[tj]? <;> cases xs[tj + 1]? <;> simp

/-- Exchanging two adjacent entries permutes the list. -/
theorem swapIdx_perm : ∀ (tj : Nat) (idx : List Nat), (swapIdx idx tj).Perm idx
  | _, [] => by rw [swapIdx_nil]
  | 0, [a] => by rw [swapIdx_zero_single]
  | 0, a :: b :: xs => by rw [swapIdx_zero_cons_cons]; exact List.Perm.swap a b xs
  | tj + 1, x :: xs => by rw [swapIdx_cons_succ]; exact (swapIdx_perm tj xs).cons x

theorem pairStep_perm (logls : List Rat) (s : SweepSt) (tj : Nat) (ar : AR) (b : Bool) :
    (pairStep logls s tj ar b).idx.Perm s.idx := by
  unfold pairStep
  cases b
  · exact List.Perm.refl _
  · exact swapIdx_perm tj s.idx

/-- The loop only permutes `swap_index`. -/
theorem loop_perm (betas logls : List Rat) :
    ∀ (tk : Nat) (s : SweepSt) (us : List Rat) (s' : SweepSt) (rest : List Rat),
      loop betas logls tk s us = some (s', rest) → s'.idx.Perm s.idx := by
  intro tk
  induction tk with
  | zero => intro s us s' rest h; simp [loop] at h; rw [← h.1]
  | succ tj ih =>
    intro s us s' rest h
    unfold loop at h
    simp only at h
    split at h
    · exact (ih _ _ _ _ h).trans (pairStep_perm _ _ _ _ _)
    · cases us with
      | nil => simp at h
      | cons u us => exact (ih _ _ _ _ h).trans (pairStep_perm _ _ _ _ _)

/-- `swap_index` of a completed sweep is a permutation of the level numbers. -/
theorem sweep_perm (betas logls us : List Rat) (row : Row) (rest : List Rat)
    (h : sweep betas logls us = some (row, rest)) : row.idx.Perm (List.range betas.length) := by
  unfold sweep at h
  simp only at h
  split at h
  · simp at h
  · rename_i s' rest' hl
    simp only [Option.some.injEq, Prod.mk.injEq] at h
    rw [← h.1]
    exact loop_perm betas logls _ _ _ _ _ hl

end Swap
end Epsie
