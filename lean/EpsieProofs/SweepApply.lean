/-
  Helper lemmas for C09: what the "apply" block of a sweep does to one level,
  the shape of `swap_index`, and the row arithmetic of the swap history.
-/
import EpsieModel.PTChain
import EpsieProofs.ChainInv
namespace Epsie
open Chain

theorem current_rewriteLast {l : Chain} {st : St} {r : Rec} (hl : 0 < l.len)
    (hr : rowAt l.scratch (l.len - 1) = some r) :
    (PTChain.rewriteLast l st).current = some st ∧
    rowAt (PTChain.rewriteLast l st).scratch (l.len - 1) = some { r with st := st } ∧
    (∀ j, j ≠ l.len - 1 → rowAt (PTChain.rewriteLast l st).scratch j = rowAt l.scratch j) := by
  have hlen : (PTChain.rewriteLast l st).len = l.len := by
    obtain ⟨h1, h2, _⟩ := rewriteLast_fields l st
    simp [len_def, h1, h2]
  have hsc : (PTChain.rewriteLast l st).scratch = setAt l.scratch (l.len - 1) { r with st := st } := by
    unfold PTChain.rewriteLast; simp [hr]
  refine ⟨?_, by rw [hsc, rowAt_setAt_same], fun j hj => by rw [hsc, rowAt_setAt_ne _ _ _ _ hj]⟩
  unfold current
  have : l.len ≠ 0 := by omega
  simp only [hlen, this, if_false, hsc, rowAt_setAt_same]
  rfl

theorem current_maybeReset (b : Bool) (l : Chain) : (PTChain.maybeReset b l).current = l.current ∧
    (PTChain.maybeReset b l).scratch = l.scratch ∧ (PTChain.maybeReset b l).len = l.len := by
  unfold PTChain.maybeReset; cases b <;> exact ⟨rfl, rfl, rfl⟩

theorem applySwap_length (reset : Bool) (ls : List Chain) (idx : List Nat) :
    (PTChain.applySwap reset ls idx).length = ls.length := by
  simp [PTChain.applySwap]

theorem applySwap_getElem (reset : Bool) (ls : List Chain) (idx : List Nat) (t : Nat)
    (ht : t < ls.length) :
    (PTChain.applySwap reset ls idx)[t]'(by rw [applySwap_length]; exact ht) =
      PTChain.maybeReset (reset && idx.getD t t != t)
        (PTChain.maybeRewrite ls[t] ((ls.map (·.current)).getD (idx.getD t t) none)) := by
  simp [PTChain.applySwap]

/-! ### `swap_index`: a colder state moves up at most one level -/

namespace Swap

/-- The loop invariant of the hot-to-cold pass, at the moment pair `(tk-1, tk)` is about
    to be examined: below `tk` nothing has moved, slot `tk` holds a state that came from `tk`
    or hotter, and every slot above holds a state that came from at most one level colder. -/
structure IdxInv (n tk : Nat) (idx : List Nat) : Prop where
  len : idx.length = n
  below : ∀ p, p < tk → idx[p]? = some p
  at_tk : ∀ v, idx[tk]? = some v → tk ≤ v
  above : ∀ p v, tk < p → idx[p]? = some v → p ≤ v + 1

theorem swapIdx_get (idx : List Nat) (tj : Nat) (a b : Nat) (ha : idx[tj]? = some a)
    (hb : idx[tj+1]? = some b) (p : Nat) :
    (swapIdx idx tj)[p]? = if p = tj then some b else if p = tj + 1 then some a else idx[p]? := by
  unfold swapIdx
  simp only [ha, hb]
  have h1 : tj < idx.length := by
    rcases Nat.lt_or_ge tj idx.length with h | h
    · exact h
    · simp [List.getElem?_eq_none h] at ha
  have h2 : tj + 1 < idx.length := by
    rcases Nat.lt_or_ge (tj + 1) idx.length with h | h
    · exact h
    · simp [List.getElem?_eq_none h] at hb
  by_cases hp1 : p = tj + 1
  · subst hp1
    have : ¬ (tj + 1 = tj) := by omega
    simp only [this, if_false, if_true]
    rw [List.getElem?_set_self (by simp; exact h2)]
  · rw [List.getElem?_set_ne (Ne.symm hp1)]
    by_cases hp0 : p = tj
    · subst hp0
      simp only [if_true]
      rw [List.getElem?_set_self h1]
    · simp only [hp0, hp1, if_false]
      rw [List.getElem?_set_ne (Ne.symm hp0)]

theorem swapIdx_length (idx : List Nat) (tj : Nat) : (swapIdx idx tj).length = idx.length := by
  unfold swapIdx; split <;> simp

theorem idxInv_pairStep {n tj : Nat} {logls : List Rat} {s : SweepSt} (ar : AR) (d : Bool)
    (htj : tj + 1 < n) (h : IdxInv n (tj + 1) s.idx) : IdxInv n tj (pairStep logls s tj ar d).idx := by
  have hlen := h.len
  have h0 : s.idx[tj]? = some tj := h.below tj (by omega)
  obtain ⟨b, hb⟩ : ∃ b, s.idx[tj+1]? = some b := by
    have : tj + 1 < s.idx.length := by omega
    exact ⟨s.idx[tj+1], List.getElem?_eq_getElem this⟩
  have hbge := h.at_tk b hb
  unfold pairStep
  cases d with
  | false =>
    simp only [Bool.false_eq_true, if_false]
    refine ⟨hlen, fun p hp => h.below p (by omega), ?_, ?_⟩
    · intro v hv; rw [h0] at hv; cases hv; omega
    · intro p v hp hv
      by_cases hp1 : p = tj + 1
      · subst hp1; rw [hb] at hv; cases hv; omega
      · exact h.above p v (by omega) hv
  | true =>
    simp only [if_true]
    have hget := swapIdx_get s.idx tj tj b h0 hb
    refine ⟨by rw [swapIdx_length]; exact hlen, ?_, ?_, ?_⟩
    · intro p hp
      rw [hget p]
      have : p ≠ tj := by omega
      have : p ≠ tj + 1 := by omega
      simp [*]
      exact h.below p (by omega)
    · intro v hv
      rw [hget tj] at hv
      simp at hv; omega
    · intro p v hp hv
      rw [hget p] at hv
      by_cases hp1 : p = tj + 1
      · subst hp1
        have : ¬ (tj + 1 = tj) := by omega
        simp [this] at hv; omega
      · have : p ≠ tj := by omega
        simp [this, hp1] at hv
        exact h.above p v (by omega) hv

theorem idxInv_loop {n : Nat} (betas logls : List Rat) :
    ∀ (tk : Nat) (s : SweepSt) (us : List Rat) (s' : SweepSt) (rest : List Rat),
      tk < n → IdxInv n tk s.idx → loop betas logls tk s us = some (s', rest) → IdxInv n 0 s'.idx := by
  intro tk
  induction tk with
  | zero => intro s us s' rest _ h hl; simp [loop] at hl; rw [← hl.1]; exact h
  | succ tj ih =>
    intro s us s' rest htk h hl
    simp only [loop] at hl
    split at hl
    · exact ih _ _ _ _ (by omega) (idxInv_pairStep _ _ htk h) hl
    · split at hl
      · simp at hl
      · exact ih _ _ _ _ (by omega) (idxInv_pairStep _ _ htk h) hl

theorem idxInv_init (n : Nat) (hn : 0 < n) : IdxInv n (n - 1) (List.range n) := by
  refine ⟨by simp, ?_, ?_, ?_⟩
  · intro p hp; simp [List.getElem?_range (by omega : p < n)]
  · intro v hv
    have : n - 1 < n := by omega
    simp [List.getElem?_range this] at hv; omega
  · intro p v hp hv
    by_cases hpn : p < n
    · simp [List.getElem?_range hpn] at hv; omega
    · simp [List.getElem?_eq_none (by simp; omega : (List.range n).length ≤ p)] at hv

end Swap

/-! ### Row arithmetic of the swap history -/

/-- A sweep done at iteration `it` (a multiple of `s`) after a clear at `lc < it` is stored at
    row `(it - lc - 1) / s`, which is the number of earlier sweeps since the clear. -/
theorem row_index_arith (s it lc : Nat) (hs : 0 < s) (hdiv : it % s = 0) (hlc : lc < it) :
    (it - lc - 1) / s = it / s - lc / s - 1 := by
  obtain ⟨m, rfl⟩ : ∃ m, it = s * m := ⟨it / s, by
    have := Nat.div_add_mod it s; omega⟩
  have hq := Nat.div_add_mod lc s
  have hr := Nat.mod_lt lc hs
  generalize lc / s = q at *
  generalize lc % s = r at *
  rw [Nat.mul_div_cancel_left m hs]
  have hqm : q < m := by
    rcases Nat.lt_or_ge q m with h | h
    · exact h
    · have : s * m ≤ s * q := Nat.mul_le_mul_left s h
      omega
  -- it - lc - 1 = s * (m - q - 1) + (s - r - 1)
  have key : s * m - lc - 1 = s * (m - q - 1) + (s - r - 1) := by
    have h1 : s * m = s * (m - q - 1) + s * q + s := by
      have : m = (m - q - 1) + q + 1 := by omega
      calc s * m = s * ((m - q - 1) + q + 1) := by rw [← this]
        _ = s * (m - q - 1) + s * q + s := by rw [Nat.mul_add, Nat.mul_add, Nat.mul_one]
    omega
  rw [key, Nat.mul_add_div hs, Nat.div_eq_of_lt (by omega)]
  omega

end Epsie
