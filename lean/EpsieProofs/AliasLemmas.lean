/-
  EpsieProofs.AliasLemmas — invariants of the alias model (`EpsieModel.Alias`).

  `Inv`  (C16): every location that an in-place attribute of sampler `s` is bound
         to (or keeps as its stored initial value) is referenced by attributes of
         `s` only — never by a snapshot, never by another sampler — and every
         attribute sharing it is marked `hot`.  Preserved by every operation under
         the copy discipline.
  `InvR` (C19): a stored initial array is never the array an in-place attribute is
         bound to, and still holds the construction-time content.  Preserved under
         the copy and reset disciplines.
  Frame (`frame`) and determinacy (`Agree.step`) give non-interference.
-/
import EpsieModel.Alias
import EpsieModel.PTChain
namespace Epsie.Alias
open World

/-! ### Basic rewriting -/

section basics
variable {w : World} {s j s' j' k k' : Nat} {f : Field} {l x : Loc} {v : Buf} {r r' : Nat}

@[simp] theorem setFld_heap : (w.setFld s j f).heap = w.heap := rfl
@[simp] theorem setFld_next : (w.setFld s j f).next = w.next := rfl
@[simp] theorem setFld_snap : (w.setFld s j f).snap = w.snap := rfl
theorem setFld_fld : (w.setFld s j f).fld s' j' = if s' = s ∧ j' = j then some f else w.fld s' j' := rfl
@[simp] theorem setFld_fld_same : (w.setFld s j f).fld s j = some f := by simp [setFld_fld]
theorem setFld_fld_ne (h : ¬(s' = s ∧ j' = j)) : (w.setFld s j f).fld s' j' = w.fld s' j' := by
  simp [setFld_fld, h]
theorem setFld_fld_other (h : s' ≠ s) : (w.setFld s j f).fld s' = w.fld s' := by
  funext j'; simp [setFld_fld, h]

@[simp] theorem setSnap_heap : (w.setSnap s k j l).heap = w.heap := rfl
@[simp] theorem setSnap_next : (w.setSnap s k j l).next = w.next := rfl
@[simp] theorem setSnap_fld : (w.setSnap s k j l).fld = w.fld := rfl
theorem setSnap_snap : (w.setSnap s k j l).snap s' k' j' =
    if s' = s ∧ k' = k ∧ j' = j then some l else w.snap s' k' j' := rfl

@[simp] theorem store_next : (w.store l v).next = w.next := rfl
@[simp] theorem store_fld : (w.store l v).fld = w.fld := rfl
@[simp] theorem store_snap : (w.store l v).snap = w.snap := rfl
theorem store_heap : (w.store l v).heap x = if x = l then v else w.heap x := rfl

@[simp] theorem alloc_fld : (w.alloc r v).1.fld = w.fld := rfl
@[simp] theorem alloc_snap : (w.alloc r v).1.snap = w.snap := rfl
@[simp] theorem alloc_loc : (w.alloc r v).2 = ⟨r, w.next r⟩ := rfl
theorem alloc_heap : (w.alloc r v).1.heap x = if x = ⟨r, w.next r⟩ then v else w.heap x := rfl
theorem alloc_next : (w.alloc r v).1.next r' = if r' = r then w.next r + 1 else w.next r' := rfl
theorem alloc_next_le : w.next r' ≤ (w.alloc r v).1.next r' := by
  rw [alloc_next]; split <;> simp_all
@[simp] theorem alloc_heap_new : (w.alloc r v).1.heap ⟨r, w.next r⟩ = v := by simp [alloc_heap]
theorem alloc_heap_old (h : x.off < w.next x.reg) : (w.alloc r v).1.heap x = w.heap x := by
  rw [alloc_heap]; split
  · next hx => subst hx; simp at h
  · rfl

end basics

/-! ### The invariants -/

/-- `f` holds a reference to the array object `l`. -/
def refsOf (f : Field) (l : Loc) : Prop := f.cur = l ∨ f.init = some l

/-- Every field's spec satisfies `P`. -/
def Specs (P : FieldSpec → Prop) (w : World) : Prop := ∀ s j f, w.fld s j = some f → P f.spec

structure Inv (w : World) : Prop where
  alloc_cur : ∀ {s j f}, w.fld s j = some f → f.cur.off < w.next f.cur.reg
  alloc_init : ∀ {s j f i}, w.fld s j = some f → f.init = some i → i.off < w.next i.reg
  alloc_snap : ∀ {s k j l}, w.snap s k j = some l → l.off < w.next l.reg
  snap_sep : ∀ {s k j l s' j' g}, w.snap s k j = some l → w.fld s' j' = some g →
      g.spec.inplace = true → ¬ refsOf g l
  own : ∀ {s j f s' j' g l}, w.fld s j = some f → w.fld s' j' = some g → g.spec.inplace = true →
      refsOf g l → refsOf f l → s = s' ∧ f.spec.hot = true

/-- The allocation part of `Inv`: holds whatever the discipline. -/
structure Alloc (w : World) : Prop where
  alloc_cur : ∀ {s j f}, w.fld s j = some f → f.cur.off < w.next f.cur.reg
  alloc_init : ∀ {s j f i}, w.fld s j = some f → f.init = some i → i.off < w.next i.reg
  alloc_snap : ∀ {s k j l}, w.snap s k j = some l → l.off < w.next l.reg

theorem Inv.toAlloc {w : World} (h : Inv w) : Alloc w := ⟨h.alloc_cur, h.alloc_init, h.alloc_snap⟩

structure InvR (w : World) : Prop where
  init_cold : ∀ {s j f i s' j' g}, w.fld s j = some f → f.init = some i → w.fld s' j' = some g →
      g.spec.inplace = true → g.cur ≠ i
  init_val : ∀ {s j f i}, w.fld s j = some f → f.init = some i → w.heap i = f.v0
  init_dom : ∀ {s j f}, w.fld s j = some f → f.spec.reset ≠ .none → f.init ≠ none

/-- No field and no snapshot refers to `l`. -/
def Unref (w : World) (l : Loc) : Prop :=
  (∀ s j g, w.fld s j = some g → ¬ refsOf g l) ∧ (∀ s k j, w.snap s k j ≠ some l)

/-- Where a reference held by a newly installed field `f'` at `(s, j)` may come from. -/
def Justified (w : World) (s j : Nat) (f' : Field) (l : Loc) : Prop :=
    Unref w l
  ∨ (∃ f, w.fld s j = some f ∧ f.spec = f'.spec ∧ refsOf f l)
  ∨ (f'.spec.inplace = false ∧ ∀ s' j' g, w.fld s' j' = some g → g.spec.inplace = true → ¬ refsOf g l)
  ∨ (f'.spec.hot = true ∧ ∃ j0 g0, w.fld s j0 = some g0 ∧ g0.spec.inplace = true ∧ refsOf g0 l)

theorem inv_empty : Inv World.empty := by
  constructor <;> intros <;> simp_all [World.empty, default]

theorem invR_empty : InvR World.empty := by
  constructor <;> intros <;> simp_all [World.empty, default]

theorem specs_empty (P) : Specs P World.empty := by
  intro s j f h; simp [World.empty, default] at h

/-- Changing contents and growing the counters does not touch the reference structure. -/
theorem Inv.mono {w w' : World} (h : Inv w) (hf : w'.fld = w.fld) (hs : w'.snap = w.snap)
    (hn : ∀ r, w.next r ≤ w'.next r) : Inv w' := by
  constructor
  · intro s j f h1; rw [hf] at h1; exact Nat.lt_of_lt_of_le (h.alloc_cur h1) (hn _)
  · intro s j f i h1 h2; rw [hf] at h1; exact Nat.lt_of_lt_of_le (h.alloc_init h1 h2) (hn _)
  · intro s k j l h1; rw [hs] at h1; exact Nat.lt_of_lt_of_le (h.alloc_snap h1) (hn _)
  · intro s k j l s' j' g h1 h2; rw [hs] at h1; rw [hf] at h2; exact h.snap_sep h1 h2
  · intro s j f s' j' g l h1 h2; rw [hf] at h1 h2; exact h.own h1 h2

theorem Inv.store {w : World} (h : Inv w) (l v) : Inv (w.store l v) :=
  h.mono rfl rfl (fun _ => Nat.le_refl _)

theorem Inv.alloc {w : World} (h : Inv w) (r v) : Inv (w.alloc r v).1 :=
  h.mono rfl rfl (fun _ => alloc_next_le)

theorem Alloc.unref_alloc {w : World} (h : Alloc w) (r v) : Unref (w.alloc r v).1 (w.alloc r v).2 := by
  refine ⟨?_, ?_⟩
  · intro s j g hg hr
    replace hg : w.fld s j = some g := hg
    rcases hr with hr | hr
    · have := h.alloc_cur hg; rw [hr] at this; simp at this
    · have := h.alloc_init hg hr; simp at this
  · intro s k j hs
    replace hs : w.snap s k j = some _ := hs
    have := h.alloc_snap hs; simp at this

theorem Inv.unref_alloc {w : World} (h : Inv w) (r v) : Unref (w.alloc r v).1 (w.alloc r v).2 :=
  h.toAlloc.unref_alloc r v

theorem Alloc.mono {w w' : World} (h : Alloc w) (hf : w'.fld = w.fld) (hs : w'.snap = w.snap)
    (hn : ∀ r, w.next r ≤ w'.next r) : Alloc w' := by
  constructor
  · intro s j f h1; rw [hf] at h1; exact Nat.lt_of_lt_of_le (h.alloc_cur h1) (hn _)
  · intro s j f i h1 h2; rw [hf] at h1; exact Nat.lt_of_lt_of_le (h.alloc_init h1 h2) (hn _)
  · intro s k j l h1; rw [hs] at h1; exact Nat.lt_of_lt_of_le (h.alloc_snap h1) (hn _)

theorem Alloc.alloc {w : World} (h : Alloc w) (r v) : Alloc (w.alloc r v).1 :=
  h.mono rfl rfl (fun _ => alloc_next_le)

theorem Alloc.setFld {w : World} (h : Alloc w) {s j : Nat} {f' : Field}
    (hc : f'.cur.off < w.next f'.cur.reg)
    (hi : ∀ i, f'.init = some i → i.off < w.next i.reg) : Alloc (w.setFld s j f') := by
  constructor
  · intro s1 j1 f1 h1
    rw [setFld_fld] at h1
    split at h1
    · cases h1; exact hc
    · exact h.alloc_cur h1
  · intro s1 j1 f1 i h1 h2
    rw [setFld_fld] at h1
    split at h1
    · cases h1; exact hi i h2
    · exact h.alloc_init h1 h2
  · intro s1 k j1 l h1; exact h.alloc_snap h1

theorem Alloc.setSnap {w : World} (h : Alloc w) {s k j : Nat} {l : Loc}
    (hl : l.off < w.next l.reg) : Alloc (w.setSnap s k j l) := by
  constructor
  · intro s1 j1 f1 h1; exact h.alloc_cur h1
  · intro s1 j1 f1 i h1 h2; exact h.alloc_init h1 h2
  · intro s1 k1 j1 l1 h1
    rw [setSnap_snap] at h1
    split at h1
    · cases h1; exact hl
    · exact h.alloc_snap h1

theorem Unref.alloc {w : World} {l : Loc} (hu : Unref w l) (r v) : Unref (w.alloc r v).1 l := hu

/-- Installing a field all of whose references are justified keeps `Inv`. -/
theorem Inv.setFld {w : World} (h : Inv w) {s j : Nat} {f' : Field}
    (hs : f'.spec.inplace = true → f'.spec.hot = true)
    (hc : f'.cur.off < w.next f'.cur.reg)
    (hi : ∀ i, f'.init = some i → i.off < w.next i.reg)
    (hj : ∀ l, refsOf f' l → Justified w s j f' l) : Inv (w.setFld s j f') := by
  constructor
  · intro s1 j1 f1 h1
    rw [setFld_fld] at h1
    split at h1
    · cases h1; exact hc
    · exact h.alloc_cur h1
  · intro s1 j1 f1 i h1 h2
    rw [setFld_fld] at h1
    split at h1
    · cases h1; exact hi i h2
    · exact h.alloc_init h1 h2
  · intro s1 k j1 l h1; exact h.alloc_snap h1
  · intro s1 k j1 l s2 j2 g h1 h2 hg hr
    simp only [setFld_snap] at h1
    rw [setFld_fld] at h2
    split at h2
    · cases h2
      rcases hj l hr with hu | ⟨f, hf, hsp, hrf⟩ | ⟨hnp, _⟩ | ⟨_, j0, g0, hg0, hg0p, hr0⟩
      · exact hu.2 _ _ _ h1
      · exact h.snap_sep h1 hf (hsp ▸ hg) hrf
      · simp [hnp] at hg
      · exact h.snap_sep h1 hg0 hg0p hr0
    · exact h.snap_sep h1 h2 hg hr
  · intro s1 j1 f1 s2 j2 g l h1 h2 hg hrg hrf
    rw [setFld_fld] at h1 h2
    split at h1 <;> split at h2
    · next e1 e2 =>
      cases h1; cases h2
      exact ⟨e1.1.trans e2.1.symm, hs hg⟩
    · next e1 e2 =>
      cases h1
      rcases hj l hrf with hu | ⟨f, hf, hsp, hrf'⟩ | ⟨_, hcold⟩ | ⟨hhot, j0, g0, hg0, hg0p, hr0⟩
      · exact absurd hrg (hu.1 _ _ _ h2)
      · have := h.own hf h2 hg hrg hrf'
        exact ⟨e1.1 ▸ this.1, hsp ▸ this.2⟩
      · exact absurd hrg (hcold _ _ _ h2 hg)
      · have := h.own hg0 h2 hg hrg hr0
        exact ⟨e1.1 ▸ this.1, hhot⟩
    · next e1 e2 =>
      cases h2
      rcases hj l hrg with hu | ⟨f, hf, hsp, hrf'⟩ | ⟨hnp, _⟩ | ⟨_, j0, g0, hg0, hg0p, hr0⟩
      · exact absurd hrf (hu.1 _ _ _ h1)
      · have := h.own h1 hf (hsp ▸ hg) hrf' hrf
        exact ⟨e2.1 ▸ this.1, this.2⟩
      · simp [hnp] at hg
      · have := h.own h1 hg0 hg0p hr0 hrf
        exact ⟨e2.1 ▸ this.1, this.2⟩
    · exact h.own h1 h2 hg hrg hrf

/-- Recording a reference to a location no in-place field refers to keeps `Inv`. -/
theorem Inv.setSnap {w : World} (h : Inv w) {s k j : Nat} {l : Loc}
    (hl : l.off < w.next l.reg)
    (hsep : ∀ s' j' g, w.fld s' j' = some g → g.spec.inplace = true → ¬ refsOf g l) :
    Inv (w.setSnap s k j l) := by
  constructor
  · intro s1 j1 f1 h1; exact h.alloc_cur h1
  · intro s1 j1 f1 i h1 h2; exact h.alloc_init h1 h2
  · intro s1 k1 j1 l1 h1
    rw [setSnap_snap] at h1
    split at h1
    · cases h1; exact hl
    · exact h.alloc_snap h1
  · intro s1 k1 j1 l1 s2 j2 g h1 h2 hg
    rw [setSnap_snap] at h1
    split at h1
    · cases h1; exact hsep _ _ _ h2 hg
    · exact h.snap_sep h1 h2 hg
  · intro s1 j1 f1 s2 j2 g l1 h1 h2; exact h.own h1 h2

/-! ### `Specs` is preserved (specs never change after construction) -/

theorem Specs.of_fld {P} {w w' : World} (h : Specs P w) (hf : w'.fld = w.fld) : Specs P w' := by
  intro s j f hf'; rw [hf] at hf'; exact h s j f hf'

theorem Specs.setFld {P} {w : World} (h : Specs P w) {s j f'} (hf : P f'.spec) :
    Specs P (w.setFld s j f') := by
  intro s1 j1 f1 h1
  rw [setFld_fld] at h1
  split at h1
  · cases h1; exact hf
  · exact h _ _ _ h1

theorem Specs.rebind {P} {w : World} (h : Specs P w) {s j f} (hf : w.fld s j = some f) (v) :
    Specs P (w.rebind s j f v) :=
  Specs.setFld (h.of_fld rfl) (h s j f hf)

theorem mkInit_fld {w : World} {s spec c} : (w.mkInit s spec c).1.fld = w.fld := by
  unfold World.mkInit; split
  · rfl
  · split <;> rfl

theorem mkInit_snap {w : World} {s spec c} : (w.mkInit s spec c).1.snap = w.snap := by
  unfold World.mkInit; split
  · rfl
  · split <;> rfl

theorem mkInit_next_le {w : World} {s spec c} (r) : w.next r ≤ (w.mkInit s spec c).1.next r := by
  unfold World.mkInit; split
  · exact Nat.le_refl _
  · split
    · exact Nat.le_refl _
    · exact alloc_next_le

theorem mkInit_heap_old {w : World} {s spec c x} (h : x.off < w.next x.reg) :
    (w.mkInit s spec c).1.heap x = w.heap x := by
  unfold World.mkInit; split
  · rfl
  · split
    · rfl
    · exact alloc_heap_old h

theorem mkInit_next_other {w : World} {s spec c r} (h : r ≠ s) : (w.mkInit s spec c).1.next r = w.next r := by
  unfold World.mkInit; split
  · rfl
  · split
    · rfl
    · simp [alloc_next, h]

/-- The three ways the stored initial value comes about. -/
theorem mkInit_cases {w : World} (h : Alloc w) (s spec c) :
    ((w.mkInit s spec c).2 = none ∧ spec.reset = .none) ∨
    ((w.mkInit s spec c).2 = some c ∧ spec.storeAliases = true ∧ spec.reset ≠ .none) ∨
    (∃ l, (w.mkInit s spec c).2 = some l ∧ spec.storeAliases = false ∧ spec.reset ≠ .none ∧
      Unref (w.mkInit s spec c).1 l ∧ l.off < (w.mkInit s spec c).1.next l.reg ∧
      (w.mkInit s spec c).1.heap l = w.heap c ∧ ¬ l.off < w.next l.reg) := by
  unfold World.mkInit
  split
  · next hm => exact Or.inl ⟨rfl, hm⟩
  · next hm =>
    split
    · next hst => exact Or.inr (Or.inl ⟨rfl, hst, hm⟩)
    · next hst =>
      refine Or.inr (Or.inr ⟨_, rfl, by simpa using hst, hm, h.unref_alloc _ _, ?_, ?_, ?_⟩)
      · simp [alloc_next]
      · simp
      · simp

theorem Specs.install {P} {w : World} (h : Specs P w) {s j spec c v0} (hp : P spec) :
    Specs P (w.install s j spec c v0) :=
  Specs.setFld (f' := ⟨spec, c, _, v0⟩) (h.of_fld mkInit_fld) hp

theorem Specs.construct {P} {w : World} (h : Specs P w) {s j spec v share} (hp : P spec) :
    Specs P (w.construct s j spec v share) := by
  unfold World.construct
  split
  · exact h
  · split
    · exact h.install hp
    · exact Specs.install (w := (w.alloc s v).1) (h.of_fld rfl) hp

theorem Specs.step {P} {w : World} (h : Specs P w) {op : EOp} (hp : op.specs P) : Specs P (w.step op) := by
  cases op with
  | construct s j spec v share => exact h.construct hp
  | write s j v =>
    show Specs P (w.write s j v)
    unfold World.write
    split
    · exact h
    · next f hf =>
      split
      · exact h
      · split
        · exact h.of_fld rfl
        · exact h.rebind hf v
  | snap s j k =>
    show Specs P (w.takeSnap s j k)
    unfold World.takeSnap
    split
    · exact h
    · split
      · exact h
      · split
        · exact h
        · split
          · exact h.of_fld rfl
          · exact h.of_fld rfl
  | load s j src k =>
    show Specs P (w.load s j src k)
    unfold World.load
    split
    · next f l hf hl =>
      split
      · exact Specs.setFld (f' := { f with cur := l }) h (h s j f hf)
      · exact h.rebind hf _
    · exact h
  | reset s j =>
    show Specs P (w.reset s j)
    unfold World.reset
    split
    · exact h
    · next f hf =>
      split
      · exact h
      · split
        · exact h
        · next i _ _ _ => exact Specs.setFld (f' := { f with cur := i }) h (h s j f hf)
        · exact h.rebind hf _

theorem specs_mono {P Q : FieldSpec → Prop} {op : EOp} (h : op.specs P) (hpq : ∀ s, P s → Q s) :
    op.specs Q := by
  cases op <;> first | exact hpq _ h | trivial

theorem specs_of_isRun {P} {op : EOp} (h : op.isRun = true) : op.specs P := by
  cases op <;> simp_all [EOp.isRun, EOp.specs]

/-! ### `Inv` is preserved by every operation under the copy discipline -/

theorem Inv.rebind {w : World} (h : Inv w) {s j f} (hf : w.fld s j = some f)
    (hs : f.spec.inplace = true → f.spec.hot = true) (v) : Inv (w.rebind s j f v) := by
  unfold World.rebind
  apply (h.alloc s v).setFld
  · exact hs
  · simp [alloc_next]
  · intro i hi
    exact Nat.lt_of_lt_of_le (h.alloc_init hf hi) alloc_next_le
  · intro l hl
    rcases hl with hl | hl
    · left; rw [← hl]; exact h.unref_alloc s v
    · right; left; exact ⟨f, hf, rfl, Or.inr hl⟩

theorem Inv.write {w : World} (h : Inv w) (hS : Specs FieldSpec.copyOK w) (s j v) :
    Inv (w.write s j v) := by
  unfold World.write
  split
  · exact h
  · next f hf =>
    split
    · exact h
    · split
      · exact h.store _ _
      · exact h.rebind hf (fun hp => ((hS _ _ _ hf).1 hp).1) v

theorem Inv.takeSnap {w : World} (h : Inv w) (hS : Specs FieldSpec.copyOK w) (s j k) :
    Inv (w.takeSnap s j k) := by
  unfold World.takeSnap
  split
  · exact h
  · next f hf =>
    split
    · exact h
    · split
      · exact h
      · split
        · next hlive =>
          apply h.setSnap (h.alloc_cur hf)
          intro s' j' g hg hgp hr
          have hot := (h.own hf hg hgp hr (Or.inl rfl)).2
          have := (hS _ _ _ hf).2 hot
          simp [this] at hlive
        · apply (h.alloc _ _).setSnap
          · simp [alloc_next]
          · exact fun s' j' g hg _ => (h.unref_alloc _ _).1 s' j' g hg

theorem Inv.load {w : World} (h : Inv w) (hS : Specs FieldSpec.copyOK w) (s j src k) :
    Inv (w.load s j src k) := by
  unfold World.load
  split
  · next f l hf hl =>
    have hs : f.spec.inplace = true → f.spec.hot = true := fun hp => ((hS _ _ _ hf).1 hp).1
    split
    · next hal =>
      have hnp : f.spec.inplace = false := by
        cases hp : f.spec.inplace
        · rfl
        · have := ((hS _ _ _ hf).1 hp).2; simp [this] at hal
      refine h.setFld (f' := { f with cur := l }) hs (h.alloc_snap hl) (fun i hi => h.alloc_init hf hi) ?_
      intro l' hl'
      rcases hl' with hl' | hl'
      · right; right; left
        refine ⟨hnp, ?_⟩
        intro s' j' g hg hgp
        rw [← hl']; exact h.snap_sep hl hg hgp
      · right; left; exact ⟨f, hf, rfl, Or.inr hl'⟩
    · exact h.rebind hf hs _
  · exact h

theorem Inv.reset {w : World} (h : Inv w) (hS : Specs FieldSpec.copyOK w) (s j) :
    Inv (w.reset s j) := by
  unfold World.reset
  split
  · exact h
  · next f hf =>
    have hs : f.spec.inplace = true → f.spec.hot = true := fun hp => ((hS _ _ _ hf).1 hp).1
    split
    · exact h
    · next i hi =>
      split
      · exact h
      · refine h.setFld (f' := { f with cur := i }) hs (h.alloc_init hf hi)
          (fun i' hi' => h.alloc_init hf hi') ?_
        intro l' hl'
        right; left
        refine ⟨f, hf, rfl, ?_⟩
        rcases hl' with hl' | hl'
        · exact Or.inr (by rw [hi]; exact congrArg some hl')
        · exact Or.inr hl'
      · exact h.rebind hf hs _

theorem shareTarget_some {w : World} {s spec share g} (h : w.shareTarget s spec share = some g) :
    ∃ j0, w.fld s j0 = some g ∧ g.spec.inplace = true ∧ spec.hot = true := by
  unfold World.shareTarget at h
  split at h
  · cases h
  · next j0 =>
    split at h
    · next g' hg' =>
      split at h
      · next hc => cases h; exact ⟨j0, hg', hc.1, hc.2⟩
      · cases h
    · cases h

theorem Inv.install {w : World} (h : Inv w) {s j spec c v0}
    (hs : spec.inplace = true → spec.hot = true)
    (hc : c.off < w.next c.reg)
    (hj : Unref w c ∨ (spec.hot = true ∧ ∃ j0 g0, w.fld s j0 = some g0 ∧ g0.spec.inplace = true ∧ g0.cur = c)) :
    Inv (w.install s j spec c v0) := by
  unfold World.install
  have h1 : Inv (w.mkInit s spec c).1 := h.mono mkInit_fld mkInit_snap mkInit_next_le
  have hcur : Justified (w.mkInit s spec c).1 s j
      ⟨spec, c, (w.mkInit s spec c).2, v0⟩ c := by
    rcases hj with hu | ⟨hhot, j0, g0, hg0, hgp, hgc⟩
    · left
      refine ⟨?_, ?_⟩
      · intro s' j' g hg; rw [mkInit_fld] at hg; exact hu.1 _ _ _ hg
      · intro s' k' j'; rw [mkInit_snap]; exact hu.2 _ _ _
    · right; right; right
      exact ⟨hhot, j0, g0, by rw [mkInit_fld]; exact hg0, hgp, Or.inl hgc⟩
  refine h1.setFld (f' := ⟨spec, c, (w.mkInit s spec c).2, v0⟩) hs ?_ ?_ ?_
  · exact Nat.lt_of_lt_of_le hc (mkInit_next_le _)
  · intro i hi
    replace hi : (w.mkInit s spec c).2 = some i := hi
    rcases mkInit_cases h.toAlloc s spec c with ⟨h2, _⟩ | ⟨h2, _⟩ | ⟨l, h2, _, _, _, hl, _⟩
    · rw [h2] at hi; cases hi
    · rw [h2] at hi; cases hi
      exact Nat.lt_of_lt_of_le hc (mkInit_next_le _)
    · rw [h2] at hi; cases hi; exact hl
  · intro l hl
    rcases hl with hl | hl
    · replace hl : c = l := hl
      subst hl; exact hcur
    · replace hl : (w.mkInit s spec c).2 = some l := hl
      rcases mkInit_cases h.toAlloc s spec c with ⟨h2, _⟩ | ⟨h2, _⟩ | ⟨l', h2, _, _, hu', _, _⟩
      · rw [h2] at hl; cases hl
      · rw [h2] at hl; cases hl; exact hcur
      · rw [h2] at hl; cases hl; exact Or.inl hu'

theorem Inv.construct {w : World} (h : Inv w) {s j spec v share}
    (hp : spec.copyOK) : Inv (w.construct s j spec v share) := by
  unfold World.construct
  split
  · exact h
  · have hs : spec.inplace = true → spec.hot = true := fun hpp => (hp.1 hpp).1
    split
    · next g hg =>
      obtain ⟨j0, hg0, hgp, hhot⟩ := shareTarget_some hg
      exact h.install hs (h.alloc_cur hg0) (Or.inr ⟨hhot, j0, g, hg0, hgp, rfl⟩)
    · refine (h.alloc s v).install hs ?_ (Or.inl (h.unref_alloc s v))
      simp [alloc_next]

theorem Inv.step {w : World} (h : Inv w) (hS : Specs FieldSpec.copyOK w) {op : EOp}
    (hp : op.specs FieldSpec.copyOK) : Inv (w.step op) := by
  cases op with
  | construct s j spec v share => exact h.construct hp
  | write s j v => exact h.write hS s j v
  | snap s j k => exact h.takeSnap hS s j k
  | load s j src k => exact h.load hS s j src k
  | reset s j => exact h.reset hS s j

/-! ### `InvR` is preserved by every operation under the copy and reset disciplines -/

theorem InvR.of_heap {w w' : World} (h : InvR w) (hf : w'.fld = w.fld)
    (hh : ∀ s j f i, w.fld s j = some f → f.init = some i → w'.heap i = w.heap i) : InvR w' := by
  constructor
  · intro s j f i s' j' g h1 h2 h3; rw [hf] at h1 h3; exact h.init_cold h1 h2 h3
  · intro s j f i h1 h2; rw [hf] at h1; rw [hh _ _ _ _ h1 h2]; exact h.init_val h1 h2
  · intro s j f h1; rw [hf] at h1; exact h.init_dom h1

theorem InvR.alloc {w : World} (h : InvR w) (hI : Alloc w) (r v) : InvR (w.alloc r v).1 :=
  h.of_heap rfl (fun _ _ _ _ h1 h2 => alloc_heap_old (hI.alloc_init h1 h2))

theorem InvR.setSnap {w : World} (h : InvR w) (s k j l) : InvR (w.setSnap s k j l) :=
  h.of_heap rfl (fun _ _ _ _ _ _ => rfl)

/-- In-place mutation through an in-place field does not reach any stored initial value. -/
theorem InvR.store {w : World} (h : InvR w) {s j f} (hf : w.fld s j = some f)
    (hp : f.spec.inplace = true) (v) : InvR (w.store f.cur v) := by
  apply h.of_heap (w' := w.store f.cur v) rfl
  intro s1 j1 f1 i h1 h2
  rw [store_heap]
  split
  · next e => exact absurd e.symm (h.init_cold h1 h2 hf hp)
  · rfl

theorem InvR.setFld {w : World} (h : InvR w) {s j : Nat} {f' : Field}
    (hcold : ∀ i, f'.init = some i →
      (∀ s' j' g, w.fld s' j' = some g → g.spec.inplace = true → g.cur ≠ i) ∧
      (f'.spec.inplace = true → f'.cur ≠ i) ∧ w.heap i = f'.v0)
    (hcur : f'.spec.inplace = true → ∀ s1 j1 f1 i, w.fld s1 j1 = some f1 → f1.init = some i → f'.cur ≠ i)
    (hdom : f'.spec.reset ≠ .none → f'.init ≠ none) : InvR (w.setFld s j f') := by
  constructor
  · intro s1 j1 f1 i s2 j2 g h1 h2 h3 hg
    rw [setFld_fld] at h1 h3
    split at h1 <;> split at h3
    · cases h1; cases h3; exact (hcold i h2).2.1 hg
    · cases h1; exact (hcold i h2).1 _ _ _ h3 hg
    · cases h3; exact hcur hg _ _ _ _ h1 h2
    · exact h.init_cold h1 h2 h3 hg
  · intro s1 j1 f1 i h1 h2
    rw [setFld_fld] at h1
    split at h1
    · cases h1; exact (hcold i h2).2.2
    · exact h.init_val h1 h2
  · intro s1 j1 f1 h1
    rw [setFld_fld] at h1
    split at h1
    · cases h1; exact hdom
    · exact h.init_dom h1

theorem InvR.rebind {w : World} (h : InvR w) (hI : Alloc w) {s j f} (hf : w.fld s j = some f) (v) :
    InvR (w.rebind s j f v) := by
  unfold World.rebind
  have h1 := h.alloc hI s v
  have hfresh : ∀ s1 j1 f1 i, w.fld s1 j1 = some f1 → f1.init = some i → (w.alloc s v).2 ≠ i := by
    intro s1 j1 f1 i hf1 hi e
    have := hI.alloc_init hf1 hi
    rw [← e] at this; simp at this
  refine h1.setFld (f' := { f with cur := (w.alloc s v).2 }) ?_ ?_ ?_
  · intro i hi
    refine ⟨fun s' j' g hg hgp => h1.init_cold (f := f) hf hi hg hgp, fun _ => hfresh _ _ _ _ hf hi, ?_⟩
    exact h1.init_val (f := f) hf hi
  · intro _ s1 j1 f1 i hf1 hi
    exact hfresh _ _ _ _ hf1 hi
  · exact h.init_dom (f := f) hf

theorem InvR.write {w : World} (h : InvR w) (hI : Alloc w) (s j v) : InvR (w.write s j v) := by
  unfold World.write
  split
  · exact h
  · next f hf =>
    split
    · exact h
    · split
      · next hp => exact h.store hf hp v
      · exact h.rebind hI hf v

theorem InvR.takeSnap {w : World} (h : InvR w) (hI : Alloc w) (s j k) : InvR (w.takeSnap s j k) := by
  unfold World.takeSnap
  split
  · exact h
  · split
    · exact h
    · split
      · exact h
      · split
        · exact h.setSnap _ _ _ _
        · exact (h.alloc hI _ _).setSnap _ _ _ _

theorem InvR.load {w : World} (h : InvR w) (hI : Alloc w) (hS : Specs FieldSpec.copyOK w) (s j src k) :
    InvR (w.load s j src k) := by
  unfold World.load
  split
  · next f l hf hl =>
    split
    · next hal =>
      have hnp : f.spec.inplace = false := by
        cases hp : f.spec.inplace
        · rfl
        · have := ((hS _ _ _ hf).1 hp).2; simp [this] at hal
      refine h.setFld (f' := { f with cur := l }) ?_ ?_ ?_
      · intro i hi
        exact ⟨fun s' j' g hg hgp => h.init_cold (f := f) hf hi hg hgp, fun hp => by simp [hnp] at hp,
          h.init_val (f := f) hf hi⟩
      · intro hp; simp [hnp] at hp
      · exact h.init_dom (f := f) hf
    · exact h.rebind hI hf _
  · exact h

theorem InvR.reset {w : World} (h : InvR w) (hI : Alloc w) (hS : Specs FieldSpec.resetSafe w) (s j) :
    InvR (w.reset s j) := by
  unfold World.reset
  split
  · exact h
  · next f hf =>
    split
    · exact h
    · next i hi =>
      split
      · exact h
      · next hal =>
        have hnp : f.spec.inplace = false := by
          cases hp : f.spec.inplace
          · rfl
          · exact absurd hal ((hS _ _ _ hf).1 hp).1
        refine h.setFld (f' := { f with cur := i }) ?_ ?_ ?_
        · intro i' hi'
          exact ⟨fun s' j' g hg hgp => h.init_cold (f := f) hf hi' hg hgp, fun hp => by simp [hnp] at hp,
            h.init_val (f := f) hf hi'⟩
        · intro hp; simp [hnp] at hp
        · exact h.init_dom (f := f) hf
      · exact h.rebind hI hf _

theorem InvR.install {w : World} (h : InvR w) (hI : Alloc w) {s j spec c v0}
    (hc : c.off < w.next c.reg)
    (hv : w.heap c = v0)
    (hsafe : spec.resetSafe)
    (hj : (Unref w c) ∨ (spec.hot = true ∧ ∃ s0 j0 g0, w.fld s0 j0 = some g0 ∧ g0.spec.inplace = true ∧ g0.cur = c)) :
    InvR (w.install s j spec c v0) := by
  unfold World.install
  have h1 : InvR (w.mkInit s spec c).1 :=
    h.of_heap mkInit_fld (fun _ _ _ _ h1 h2 => mkInit_heap_old (hI.alloc_init h1 h2))
  refine h1.setFld (f' := ⟨spec, c, (w.mkInit s spec c).2, v0⟩) ?_ ?_ ?_
  · intro i hi
    replace hi : (w.mkInit s spec c).2 = some i := hi
    rcases mkInit_cases hI s spec c with ⟨h2, _⟩ | ⟨h2, hst, _⟩ | ⟨l, h2, _, _, hu, _, hval, hnew⟩
    · rw [h2] at hi; cases hi
    · rw [h2] at hi; cases hi
      have hnh : spec.hot = false := by
        cases hh : spec.hot
        · rfl
        · have := hsafe.2 hh; simp [this] at hst
      have hnp : spec.inplace = false := by
        cases hpp : spec.inplace
        · rfl
        · have := (hsafe.1 hpp).2; simp [this] at hst
      refine ⟨?_, fun hp => by simp [hnp] at hp, ?_⟩
      · intro s' j' g hg hgp hgc
        rw [mkInit_fld] at hg
        rcases hj with hu | ⟨hhot, _⟩
        · exact hu.1 _ _ _ hg (Or.inl hgc)
        · simp [hnh] at hhot
      · rw [mkInit_heap_old hc]; exact hv
    · rw [h2] at hi; cases hi
      refine ⟨?_, ?_, ?_⟩
      · intro s' j' g hg _ hgc
        exact hu.1 _ _ _ hg (Or.inl hgc)
      · intro _ e
        replace e : c = i := e
        subst e; exact hnew hc
      · rw [hval]; exact hv
  · intro hp s1 j1 f1 i hf1 hi e
    replace e : c = i := e
    subst e
    rw [mkInit_fld] at hf1
    rcases hj with hu | ⟨_, s0, j0, g0, hg0, hgp, hgc⟩
    · exact hu.1 _ _ _ hf1 (Or.inr hi)
    · exact h.init_cold hf1 hi hg0 hgp hgc
  · intro hm
    show (w.mkInit s spec c).2 ≠ none
    rcases mkInit_cases hI s spec c with ⟨_, h2⟩ | ⟨h2, _⟩ | ⟨l, h2, _⟩
    · exact absurd h2 hm
    · rw [h2]; simp
    · rw [h2]; simp

theorem InvR.construct {w : World} (h : InvR w) (hI : Alloc w) {s j spec v share}
    (hsafe : spec.resetSafe) : InvR (w.construct s j spec v share) := by
  unfold World.construct
  split
  · exact h
  · split
    · next g hg =>
      obtain ⟨j0, hg0, hgp, hhot⟩ := shareTarget_some hg
      exact h.install hI (hI.alloc_cur hg0) rfl hsafe (Or.inr ⟨hhot, s, j0, g, hg0, hgp, rfl⟩)
    · refine (h.alloc hI s v).install (hI.alloc s v) ?_ ?_ hsafe (Or.inl (hI.unref_alloc s v))
      · simp [alloc_next]
      · simp

/-- The conjunction of the invariants and disciplines. -/
structure Good (w : World) : Prop where
  inv : Inv w
  invR : InvR w
  copy : Specs FieldSpec.copyOK w
  safe : Specs FieldSpec.resetSafe w

theorem good_empty : Good World.empty := ⟨inv_empty, invR_empty, specs_empty _, specs_empty _⟩

theorem InvR.step {w : World} (h : InvR w) (hI : Inv w) (hS : Specs FieldSpec.copyOK w)
    (hR : Specs FieldSpec.resetSafe w) {op : EOp}
    (hq : op.specs FieldSpec.resetSafe) : InvR (w.step op) := by
  cases op with
  | construct s j spec v share => exact h.construct hI.toAlloc hq
  | write s j v => exact h.write hI.toAlloc s j v
  | snap s j k => exact h.takeSnap hI.toAlloc s j k
  | load s j src k => exact h.load hI.toAlloc hS s j src k
  | reset s j => exact h.reset hI.toAlloc hR s j

theorem Good.step {w : World} (h : Good w) {op : EOp}
    (hp : op.specs FieldSpec.copyOK) (hq : op.specs FieldSpec.resetSafe) : Good (w.step op) :=
  ⟨h.inv.step h.copy hp, h.invR.step h.inv h.copy h.safe hq, h.copy.step hp, h.safe.step hq⟩

theorem Good.run {w : World} (h : Good w) (ops : List EOp)
    (hp : ∀ op ∈ ops, op.specs FieldSpec.copyOK ∧ op.specs FieldSpec.resetSafe) : Good (w.run ops) := by
  induction ops generalizing w with
  | nil => exact h
  | cons op ops ih =>
    have := hp op (List.mem_cons_self ..)
    exact ih (h.step this.1 this.2) (fun o ho => hp o (List.mem_cons_of_mem _ ho))

theorem inv_run {w : World} (h : Inv w) (hS : Specs FieldSpec.copyOK w) (ops : List EOp)
    (hp : ∀ op ∈ ops, op.specs FieldSpec.copyOK) :
    Inv (w.run ops) ∧ Specs FieldSpec.copyOK (w.run ops) := by
  induction ops generalizing w with
  | nil => exact ⟨h, hS⟩
  | cons op ops ih =>
    have := hp op (List.mem_cons_self ..)
    exact ih (h.step hS this) (hS.step this) (fun o ho => hp o (List.mem_cons_of_mem _ ho))

/-! ### What an operation leaves alone -/

section frames
variable {w : World} {s j : Nat} {f : Field} {v : Buf} {x : Loc}

@[simp] theorem rebind_snap : (w.rebind s j f v).snap = w.snap := rfl
theorem rebind_heap_old (h : x.off < w.next x.reg) : (w.rebind s j f v).heap x = w.heap x :=
  alloc_heap_old h
theorem rebind_next_other {r} (h : r ≠ s) : (w.rebind s j f v).next r = w.next r := by
  show (w.alloc s v).1.next r = _
  simp [alloc_next, h]
theorem rebind_fld_other {s'} (h : s' ≠ s) : (w.rebind s j f v).fld s' = w.fld s' := by
  show ((w.alloc s v).1.setFld s j _).fld s' = _
  rw [setFld_fld_other h]; rfl
theorem rebind_fld_ne {s' j'} (h : ¬(s' = s ∧ j' = j)) : (w.rebind s j f v).fld s' j' = w.fld s' j' := by
  show ((w.alloc s v).1.setFld s j _).fld s' j' = _
  rw [setFld_fld_ne h]; rfl
@[simp] theorem rebind_fld_same : (w.rebind s j f v).fld s j = some { f with cur := ⟨s, w.next s⟩ } := by
  show ((w.alloc s v).1.setFld s j _).fld s j = _
  rw [setFld_fld_same]; rfl
@[simp] theorem rebind_heap_new : (w.rebind s j f v).heap ⟨s, w.next s⟩ = v := by
  show (w.alloc s v).1.heap _ = v
  simp

variable {spec : FieldSpec} {c : Loc} {v0 : Buf}

@[simp] theorem install_snap : (w.install s j spec c v0).snap = w.snap := mkInit_snap
theorem install_heap_old (h : x.off < w.next x.reg) : (w.install s j spec c v0).heap x = w.heap x :=
  mkInit_heap_old h
theorem install_next_other {r} (h : r ≠ s) : (w.install s j spec c v0).next r = w.next r :=
  mkInit_next_other h
theorem install_fld_other {s'} (h : s' ≠ s) : (w.install s j spec c v0).fld s' = w.fld s' := by
  show ((w.mkInit s spec c).1.setFld s j _).fld s' = _
  rw [setFld_fld_other h, mkInit_fld]

theorem construct_snap {share} : (w.construct s j spec v share).snap = w.snap := by
  unfold World.construct
  split
  · rfl
  · split
    · exact install_snap
    · exact install_snap

theorem construct_heap_old {share} (h : x.off < w.next x.reg) :
    (w.construct s j spec v share).heap x = w.heap x := by
  unfold World.construct
  split
  · rfl
  · split
    · exact install_heap_old h
    · rw [install_heap_old (Nat.lt_of_lt_of_le h alloc_next_le)]; exact alloc_heap_old h

theorem construct_next_other {share r} (h : r ≠ s) : (w.construct s j spec v share).next r = w.next r := by
  unfold World.construct
  split
  · rfl
  · split
    · exact install_next_other h
    · rw [install_next_other h]; simp [alloc_next, h]

theorem construct_fld_other {share s'} (h : s' ≠ s) : (w.construct s j spec v share).fld s' = w.fld s' := by
  unfold World.construct
  split
  · rfl
  · split
    · exact install_fld_other h
    · rw [install_fld_other h]; rfl

end frames

/-! ### A snapshot is a value -/

theorem snap_stable_step {w : World} (hI : Inv w) {s k j l}
    (hs : w.snap s k j = some l) (op : EOp) :
    (w.step op).snap s k j = some l ∧ (w.step op).heap l = w.heap l := by
  have hl := hI.alloc_snap hs
  cases op with
  | construct s1 j1 spec v share =>
    exact ⟨by show (w.construct ..).snap s k j = _; rw [construct_snap]; exact hs, construct_heap_old hl⟩
  | write s1 j1 v =>
    show (w.write s1 j1 v).snap s k j = some l ∧ (w.write s1 j1 v).heap l = w.heap l
    unfold World.write
    split
    · exact ⟨hs, rfl⟩
    · next f hf =>
      split
      · exact ⟨hs, rfl⟩
      · split
        · next hp =>
          refine ⟨hs, ?_⟩
          rw [store_heap]
          split
          · next e => exact absurd (Or.inl e.symm) (hI.snap_sep hs hf hp)
          · rfl
        · exact ⟨hs, rebind_heap_old hl⟩
  | snap s1 j1 k1 =>
    show (w.takeSnap s1 j1 k1).snap s k j = some l ∧ (w.takeSnap s1 j1 k1).heap l = w.heap l
    unfold World.takeSnap
    split
    · exact ⟨hs, rfl⟩
    · next f hf =>
      split
      · exact ⟨hs, rfl⟩
      · split
        · exact ⟨hs, rfl⟩
        · next hnone =>
          have hne : ¬(s = s1 ∧ k = k1 ∧ j = j1) := by
            rintro ⟨rfl, rfl, rfl⟩; rw [hs] at hnone; cases hnone
          split
          · refine ⟨?_, rfl⟩
            rw [setSnap_snap, if_neg hne]; exact hs
          · refine ⟨?_, alloc_heap_old hl⟩
            rw [setSnap_snap, if_neg hne]; exact hs
  | load s1 j1 src k1 =>
    show (w.load s1 j1 src k1).snap s k j = some l ∧ (w.load s1 j1 src k1).heap l = w.heap l
    unfold World.load
    split
    · split
      · exact ⟨hs, rfl⟩
      · exact ⟨hs, rebind_heap_old hl⟩
    · exact ⟨hs, rfl⟩
  | reset s1 j1 =>
    show (w.reset s1 j1).snap s k j = some l ∧ (w.reset s1 j1).heap l = w.heap l
    unfold World.reset
    split
    · exact ⟨hs, rfl⟩
    · split
      · exact ⟨hs, rfl⟩
      · split
        · exact ⟨hs, rfl⟩
        · exact ⟨hs, rfl⟩
        · exact ⟨hs, rebind_heap_old hl⟩

theorem snap_stable_run {w : World} (hI : Inv w) (hS : Specs FieldSpec.copyOK w) {s k j l}
    (hs : w.snap s k j = some l) (ops : List EOp) (hp : ∀ op ∈ ops, op.specs FieldSpec.copyOK) :
    (w.run ops).snap s k j = some l ∧ (w.run ops).heap l = w.heap l := by
  induction ops generalizing w with
  | nil => exact ⟨hs, rfl⟩
  | cons op ops ih =>
    have hop := hp op (List.mem_cons_self ..)
    have h1 := snap_stable_step hI hs op
    have := ih (hI.step hS hop) (hS.step hop) h1.1 (fun o ho => hp o (List.mem_cons_of_mem _ ho))
    exact ⟨this.1, this.2.trans h1.2⟩

/-! ### Non-interference: frame and determinacy -/

/-- `w₁` and `w₂` agree on everything sampler `s` can see or name. -/
structure Agree (s : Nat) (w₁ w₂ : World) : Prop where
  fld : w₁.fld s = w₂.fld s
  next : w₁.next s = w₂.next s
  snap : w₁.snap s = w₂.snap s
  heap : ∀ {j f l}, w₁.fld s j = some f → refsOf f l → w₁.heap l = w₂.heap l

theorem Agree.refl (s : Nat) (w : World) : Agree s w w := ⟨rfl, rfl, rfl, fun _ _ => rfl⟩

theorem Agree.trans {s : Nat} {w₁ w₂ w₃ : World} (a : Agree s w₁ w₂) (b : Agree s w₂ w₃) :
    Agree s w₁ w₃ :=
  ⟨a.fld.trans b.fld, a.next.trans b.next, a.snap.trans b.snap,
   fun h1 h2 => (a.heap h1 h2).trans (b.heap (by rw [← a.fld]; exact h1) h2)⟩

theorem Agree.view {s : Nat} {w₁ w₂ : World} (a : Agree s w₁ w₂) : w₁.view s = w₂.view s := by
  funext j
  unfold World.view
  rw [← a.fld]
  cases hf : w₁.fld s j with
  | none => rfl
  | some f =>
    simp only [Option.map_some]
    congr 1
    have h1 := a.heap hf (Or.inl rfl)
    cases hi : f.init with
    | none => simp [h1]
    | some i =>
      have h2 := a.heap hf (Or.inr hi)
      simp [h1, h2]

/-- Frame: an operation of another sampler changes nothing `s` can see. -/
theorem frame {w : World} (hI : Inv w) {s : Nat} {op : EOp} (hne : op.owner ≠ s) :
    Agree s (w.step op) w := by
  have hold : ∀ {j f l}, w.fld s j = some f → refsOf f l → l.off < w.next l.reg := by
    intro j f l hf hr
    rcases hr with hr | hr
    · rw [← hr]; exact hI.alloc_cur hf
    · exact hI.alloc_init hf hr
  cases op with
  | construct s1 j1 spec v share =>
    have hne' : s ≠ s1 := fun e => hne e.symm
    refine ⟨construct_fld_other hne', construct_next_other hne', by
      show (w.construct ..).snap s = _; rw [construct_snap], ?_⟩
    intro j f l hf hr
    rw [show (w.step (.construct s1 j1 spec v share)).fld s = w.fld s from construct_fld_other hne'] at hf
    exact construct_heap_old (hold hf hr)
  | write s1 j1 v =>
    have hne' : s ≠ s1 := fun e => hne e.symm
    show Agree s (w.write s1 j1 v) w
    unfold World.write
    split
    · exact Agree.refl _ _
    · next g hg =>
      split
      · exact Agree.refl _ _
      · split
        · next hp =>
          refine ⟨rfl, rfl, rfl, ?_⟩
          intro j f l hf hr
          rw [store_heap]
          split
          · next e =>
            exact absurd (hI.own hf hg hp (Or.inl e.symm) hr).1 hne'
          · rfl
        · refine ⟨rebind_fld_other hne', rebind_next_other hne', rfl, ?_⟩
          intro j f l hf hr
          rw [rebind_fld_other hne'] at hf
          exact rebind_heap_old (hold hf hr)
  | snap s1 j1 k1 =>
    have hne' : s ≠ s1 := fun e => hne e.symm
    show Agree s (w.takeSnap s1 j1 k1) w
    unfold World.takeSnap
    split
    · exact Agree.refl _ _
    · next g hg =>
      split
      · exact Agree.refl _ _
      · split
        · exact Agree.refl _ _
        · split
          · refine ⟨rfl, rfl, ?_, fun _ _ => rfl⟩
            funext k' j'
            rw [setSnap_snap, if_neg (fun e => hne' e.1)]
          · refine ⟨rfl, ?_, ?_, ?_⟩
            · show (w.alloc s1 (w.heap g.cur)).1.next s = _
              simp [alloc_next, hne']
            · funext k' j'
              rw [setSnap_snap, if_neg (fun e => hne' e.1)]; rfl
            · intro j f l hf hr
              exact alloc_heap_old (hold hf hr)
  | load s1 j1 src k1 =>
    have hne' : s ≠ s1 := fun e => hne e.symm
    show Agree s (w.load s1 j1 src k1) w
    unfold World.load
    split
    · split
      · exact ⟨setFld_fld_other hne', rfl, rfl, fun _ _ => rfl⟩
      · refine ⟨rebind_fld_other hne', rebind_next_other hne', rfl, ?_⟩
        intro j f l hf hr
        rw [rebind_fld_other hne'] at hf
        exact rebind_heap_old (hold hf hr)
    · exact Agree.refl _ _
  | reset s1 j1 =>
    have hne' : s ≠ s1 := fun e => hne e.symm
    show Agree s (w.reset s1 j1) w
    unfold World.reset
    split
    · exact Agree.refl _ _
    · split
      · exact Agree.refl _ _
      · split
        · exact Agree.refl _ _
        · exact ⟨setFld_fld_other hne', rfl, rfl, fun _ _ => rfl⟩
        · refine ⟨rebind_fld_other hne', rebind_next_other hne', rfl, ?_⟩
          intro j f l hf hr
          rw [rebind_fld_other hne'] at hf
          exact rebind_heap_old (hold hf hr)

/-! Determinacy: the same operation of `s` on two worlds that agree on `s`. -/

theorem Agree.store {s : Nat} {w₁ w₂ : World} (a : Agree s w₁ w₂) (l v) :
    Agree s (w₁.store l v) (w₂.store l v) := by
  refine ⟨a.fld, a.next, a.snap, ?_⟩
  intro j f l' hf hr
  rw [store_heap, store_heap]
  split
  · rfl
  · exact a.heap hf hr

theorem Agree.alloc {s : Nat} {w₁ w₂ : World} (a : Agree s w₁ w₂) (v) :
    Agree s (w₁.alloc s v).1 (w₂.alloc s v).1 := by
  refine ⟨a.fld, ?_, a.snap, ?_⟩
  · simp [alloc_next, a.next]
  · intro j f l hf hr
    rw [alloc_heap, alloc_heap, a.next]
    split
    · rfl
    · exact a.heap hf hr

theorem Agree.setFld {s : Nat} {w₁ w₂ : World} (a : Agree s w₁ w₂) (j) {f' : Field}
    (hr : ∀ l, refsOf f' l → w₁.heap l = w₂.heap l) :
    Agree s (w₁.setFld s j f') (w₂.setFld s j f') := by
  refine ⟨?_, a.next, a.snap, ?_⟩
  · funext j'
    rw [setFld_fld, setFld_fld, congrFun a.fld j']
  · intro j' f l hf hrl
    rw [setFld_fld] at hf
    split at hf
    · cases hf; exact hr l hrl
    · exact a.heap hf hrl

theorem Agree.setSnap {s : Nat} {w₁ w₂ : World} (a : Agree s w₁ w₂) (k j l) :
    Agree s (w₁.setSnap s k j l) (w₂.setSnap s k j l) := by
  refine ⟨a.fld, a.next, ?_, fun hf hr => a.heap hf hr⟩
  funext k' j'
  rw [setSnap_snap, setSnap_snap, congrFun (congrFun a.snap k') j']

theorem Agree.rebind {s : Nat} {w₁ w₂ : World} (a : Agree s w₁ w₂) {j f} (hf : w₁.fld s j = some f) (v) :
    Agree s (w₁.rebind s j f v) (w₂.rebind s j f v) := by
  unfold World.rebind
  have a1 := a.alloc v
  have e : (w₂.alloc s v).2 = (w₁.alloc s v).2 := by simp [a.next]
  rw [e]
  apply a1.setFld
  intro l hr
  rcases hr with hr | hr
  · replace hr : (w₁.alloc s v).2 = l := hr
    rw [← hr, alloc_loc, alloc_heap_new, a.next, alloc_heap_new]
  · exact a1.heap (f := f) hf (Or.inr hr)

theorem Agree.write {s : Nat} {w₁ w₂ : World} (a : Agree s w₁ w₂) (j v) :
    Agree s (w₁.write s j v) (w₂.write s j v) := by
  have e : w₂.fld s j = w₁.fld s j := (congrFun a.fld j).symm
  unfold World.write
  rw [e]
  cases hf : w₁.fld s j with
  | none => exact a
  | some f =>
    dsimp only
    split
    · exact a
    · split
      · exact a.store _ _
      · exact a.rebind hf v

theorem Agree.takeSnap {s : Nat} {w₁ w₂ : World} (a : Agree s w₁ w₂) (j k) :
    Agree s (w₁.takeSnap s j k) (w₂.takeSnap s j k) := by
  have e : w₂.fld s j = w₁.fld s j := (congrFun a.fld j).symm
  have e2 : w₂.snap s k j = w₁.snap s k j := (congrFun (congrFun a.snap k) j).symm
  unfold World.takeSnap
  rw [e, e2]
  cases hf : w₁.fld s j with
  | none => exact a
  | some f =>
    dsimp only
    split
    · exact a
    · cases hs : w₁.snap s k j with
      | some l => exact a
      | none =>
        dsimp only
        split
        · exact a.setSnap _ _ _
        · have hh : w₂.heap f.cur = w₁.heap f.cur := (a.heap hf (Or.inl rfl)).symm
          rw [hh]
          have e3 : (w₂.alloc s (w₁.heap f.cur)).2 = (w₁.alloc s (w₁.heap f.cur)).2 := by simp [a.next]
          rw [e3]
          exact (a.alloc _).setSnap _ _ _

theorem Agree.reset {s : Nat} {w₁ w₂ : World} (a : Agree s w₁ w₂) (j) :
    Agree s (w₁.reset s j) (w₂.reset s j) := by
  have e : w₂.fld s j = w₁.fld s j := (congrFun a.fld j).symm
  unfold World.reset
  rw [e]
  cases hf : w₁.fld s j with
  | none => exact a
  | some f =>
    dsimp only
    cases hi : f.init with
    | none => exact a
    | some i =>
      dsimp only
      have hh : w₂.heap i = w₁.heap i := (a.heap hf (Or.inr hi)).symm
      split
      · exact a
      · apply a.setFld
        intro l hr
        rcases hr with hr | hr
        · replace hr : i = l := hr
          rw [← hr]; exact hh.symm
        · exact a.heap hf (Or.inr (hi.trans hr))
      · rw [hh]; exact a.rebind hf _

theorem Agree.step {s : Nat} {w₁ w₂ : World} (a : Agree s w₁ w₂) {op : EOp}
    (ho : op.owner = s) (hr : op.isRun = true) : Agree s (w₁.step op) (w₂.step op) := by
  cases op with
  | construct => simp [EOp.isRun] at hr
  | load => simp [EOp.isRun] at hr
  | write s1 j v => cases ho; exact a.write j v
  | snap s1 j k => cases ho; exact a.takeSnap j k
  | reset s1 j => cases ho; exact a.reset j

/-- The same burst of `s` on two worlds that agree on `s`. -/
theorem Agree.run_same {s : Nat} {w₁ w₂ : World} (a : Agree s w₁ w₂) (ops : List EOp)
    (h : ∀ op ∈ ops, op.owner = s ∧ op.isRun = true) : Agree s (w₁.run ops) (w₂.run ops) := by
  induction ops generalizing w₁ w₂ with
  | nil => exact a
  | cons op ops ih =>
    have := h op (List.mem_cons_self ..)
    exact ih (a.step this.1 this.2) (fun o ho => h o (List.mem_cons_of_mem _ ho))

/-- A burst of another sampler. -/
theorem frame_run {w : World} (hI : Inv w) (hS : Specs FieldSpec.copyOK w) {s : Nat} (ops : List EOp)
    (h : ∀ op ∈ ops, op.owner ≠ s ∧ op.isRun = true) :
    Agree s (w.run ops) w ∧ Inv (w.run ops) ∧ Specs FieldSpec.copyOK (w.run ops) := by
  induction ops generalizing w with
  | nil => exact ⟨Agree.refl _ _, hI, hS⟩
  | cons op ops ih =>
    have hop := h op (List.mem_cons_self ..)
    have hsp : op.specs FieldSpec.copyOK := specs_of_isRun hop.2
    have := ih (hI.step hS hsp) (hS.step hsp) (fun o ho => h o (List.mem_cons_of_mem _ ho))
    exact ⟨this.1.trans (frame hI hop.1), this.2⟩

/-- Non-interference at the granularity of single attributes. -/
theorem agree_run {s : Nat} {w₁ w₂ : World} (hI : Inv w₁) (hS : Specs FieldSpec.copyOK w₁)
    (a : Agree s w₁ w₂) (ops : List EOp) (hr : ∀ op ∈ ops, op.isRun = true) :
    Agree s (w₁.run ops) (w₂.run (ops.filter (fun o => o.owner = s))) := by
  induction ops generalizing w₁ w₂ with
  | nil => exact a
  | cons op ops ih =>
    have hop := hr op (List.mem_cons_self ..)
    have hsp : op.specs FieldSpec.copyOK := specs_of_isRun hop
    have hrest : ∀ o ∈ ops, o.isRun = true := fun o ho => hr o (List.mem_cons_of_mem _ ho)
    by_cases ho : op.owner = s
    · rw [List.filter_cons_of_pos (by simpa using ho)]
      exact ih (hI.step hS hsp) (hS.step hsp) (a.step ho hop) hrest
    · rw [List.filter_cons_of_neg (by simpa using ho)]
      exact ih (hI.step hS hsp) (hS.step hsp) ((frame hI ho).trans a) hrest

theorem acts_owner {s : Nat} (acts : List Act) :
    ∀ op ∈ acts.map (Act.toEOp s), op.owner = s ∧ op.isRun = true := by
  intro op hop
  obtain ⟨a, _, rfl⟩ := List.mem_map.mp hop
  cases a <;> exact ⟨rfl, rfl⟩

/-- Non-interference for sampler-level runs whose every burst is a function of the
    sampler's own view. -/
theorem agree_srun {s : Nat} {w₁ w₂ : World} (hI : Inv w₁) (hS : Specs FieldSpec.copyOK w₁)
    (a : Agree s w₁ w₂) (ops : List SOp) :
    Agree s (w₁.srun ops) (w₂.srun (ops.filter (fun o => o.s = s))) := by
  induction ops generalizing w₁ w₂ with
  | nil => exact a
  | cons o ops ih =>
    by_cases ho : o.s = s
    · rw [List.filter_cons_of_pos (by simpa using ho)]
      have hown := acts_owner (s := o.s) (o.acts (w₁.view o.s))
      have hsp : ∀ op ∈ (o.acts (w₁.view o.s)).map (Act.toEOp o.s), op.specs FieldSpec.copyOK :=
        fun op hop => specs_of_isRun (hown op hop).2
      have hi := inv_run hI hS _ hsp
      refine ih hi.1 hi.2 ?_
      show Agree s (w₁.run _) (w₂.run _)
      have hv : w₂.view o.s = w₁.view o.s := by rw [ho]; exact a.view.symm
      rw [hv]
      exact a.run_same _ (fun op hop => ⟨(hown op hop).1.trans ho, (hown op hop).2⟩)
    · rw [List.filter_cons_of_neg (by simpa using ho)]
      have hown := acts_owner (s := o.s) (o.acts (w₁.view o.s))
      have hf := frame_run hI hS (s := s) ((o.acts (w₁.view o.s)).map (Act.toEOp o.s))
        (fun op hop => ⟨fun e => ho ((hown op hop).1.symm.trans e), (hown op hop).2⟩)
      exact ih hf.2.1 hf.2.2 (hf.1.trans a)

/-! ### A reset restores the construction-time content -/

/-- The attribute holds its construction-time content. -/
def Restored (w : World) (s j : Nat) : Prop :=
  ∃ f, w.fld s j = some f ∧ w.heap f.cur = f.v0

theorem restored_reset {w : World} (hR : InvR w) {s j f} (hf : w.fld s j = some f)
    (hm : f.spec.reset ≠ .none) : Restored (w.reset s j) s j := by
  unfold World.reset
  rw [hf]
  dsimp only
  cases hi : f.init with
  | none => exact absurd hi (hR.init_dom hf hm)
  | some i =>
    dsimp only
    have hv := hR.init_val hf hi
    split
    · next h0 => exact absurd h0 hm
    · exact ⟨_, setFld_fld_same, hv⟩
    · refine ⟨_, rebind_fld_same, ?_⟩
      show (w.rebind s j f (w.heap i)).heap ⟨s, w.next s⟩ = f.v0
      rw [rebind_heap_new]; exact hv

/-- Resetting one attribute does not disturb another one that is restored. -/
theorem restored_reset_other {w : World} (hI : Alloc w) {s j j'} (h : Restored w s j) (hne : j' ≠ j) :
    Restored (w.reset s j') s j := by
  obtain ⟨f, hf, hv⟩ := h
  have hn : ¬(s = s ∧ j = j') := fun e => hne e.2.symm
  unfold World.reset
  split
  · exact ⟨f, hf, hv⟩
  · split
    · exact ⟨f, hf, hv⟩
    · split
      · exact ⟨f, hf, hv⟩
      · exact ⟨f, by rw [setFld_fld_ne hn]; exact hf, hv⟩
      · exact ⟨f, by rw [rebind_fld_ne hn]; exact hf, by rw [rebind_heap_old (hI.alloc_cur hf)]; exact hv⟩

/-! ### Runs without `set_state`: the reset discipline alone suffices -/

theorem Alloc.rebind {w : World} (h : Alloc w) {s j f} (hf : w.fld s j = some f) (v) :
    Alloc (w.rebind s j f v) := by
  unfold World.rebind
  refine (h.alloc s v).setFld (f' := { f with cur := (w.alloc s v).2 }) ?_ ?_
  · simp [alloc_next]
  · intro i hi
    exact Nat.lt_of_lt_of_le (h.alloc_init hf hi) alloc_next_le

theorem Alloc.install {w : World} (h : Alloc w) {s j spec c v0} (hc : c.off < w.next c.reg) :
    Alloc (w.install s j spec c v0) := by
  unfold World.install
  have h1 : Alloc (w.mkInit s spec c).1 := h.mono mkInit_fld mkInit_snap mkInit_next_le
  refine h1.setFld (f' := ⟨spec, c, (w.mkInit s spec c).2, v0⟩) ?_ ?_
  · exact Nat.lt_of_lt_of_le hc (mkInit_next_le _)
  · intro i hi
    replace hi : (w.mkInit s spec c).2 = some i := hi
    rcases mkInit_cases h s spec c with ⟨h2, _⟩ | ⟨h2, _⟩ | ⟨l, h2, _, _, _, hl, _⟩
    · rw [h2] at hi; cases hi
    · rw [h2] at hi; cases hi
      exact Nat.lt_of_lt_of_le hc (mkInit_next_le _)
    · rw [h2] at hi; cases hi; exact hl

theorem Alloc.step {w : World} (h : Alloc w) (op : EOp) : Alloc (w.step op) := by
  cases op with
  | construct s j spec v share =>
    show Alloc (w.construct s j spec v share)
    unfold World.construct
    split
    · exact h
    · split
      · next g hg =>
        obtain ⟨j0, hg0, _, _⟩ := shareTarget_some hg
        exact h.install (h.alloc_cur hg0)
      · refine (h.alloc s v).install ?_
        simp [alloc_next]
  | write s j v =>
    show Alloc (w.write s j v)
    unfold World.write
    split
    · exact h
    · next f hf =>
      split
      · exact h
      · split
        · exact h.mono rfl rfl (fun _ => Nat.le_refl _)
        · exact h.rebind hf v
  | snap s j k =>
    show Alloc (w.takeSnap s j k)
    unfold World.takeSnap
    split
    · exact h
    · next f hf =>
      split
      · exact h
      · split
        · exact h
        · split
          · exact h.setSnap (h.alloc_cur hf)
          · refine (h.alloc _ _).setSnap ?_
            simp [alloc_next]
  | load s j src k =>
    show Alloc (w.load s j src k)
    unfold World.load
    split
    · next f l hf hl =>
      split
      · exact h.setFld (f' := { f with cur := l }) (h.alloc_snap hl) (fun i hi => h.alloc_init hf hi)
      · exact h.rebind hf _
    · exact h
  | reset s j =>
    show Alloc (w.reset s j)
    unfold World.reset
    split
    · exact h
    · next f hf =>
      split
      · exact h
      · next i hi =>
        split
        · exact h
        · exact h.setFld (f' := { f with cur := i }) (h.alloc_init hf hi) (fun i' hi' => h.alloc_init hf hi')
        · exact h.rebind hf _

/-- Allocation, the reset invariant and the reset discipline. -/
structure GoodR (w : World) : Prop where
  alloc : Alloc w
  invR : InvR w
  safe : Specs FieldSpec.resetSafe w

theorem Good.toGoodR {w : World} (h : Good w) : GoodR w := ⟨h.inv.toAlloc, h.invR, h.safe⟩

theorem goodR_empty : GoodR World.empty := good_empty.toGoodR

theorem GoodR.step {w : World} (h : GoodR w) {op : EOp} (hn : op.noLoad = true)
    (hq : op.specs FieldSpec.resetSafe) : GoodR (w.step op) := by
  refine ⟨h.alloc.step op, ?_, h.safe.step hq⟩
  cases op with
  | construct s j spec v share => exact h.invR.construct h.alloc hq
  | write s j v => exact h.invR.write h.alloc s j v
  | snap s j k => exact h.invR.takeSnap h.alloc s j k
  | load s j src k => simp [EOp.noLoad] at hn
  | reset s j => exact h.invR.reset h.alloc h.safe s j

theorem GoodR.run {w : World} (h : GoodR w) (ops : List EOp)
    (hp : ∀ op ∈ ops, op.noLoad = true ∧ op.specs FieldSpec.resetSafe) : GoodR (w.run ops) := by
  induction ops generalizing w with
  | nil => exact h
  | cons op ops ih =>
    have := hp op (List.mem_cons_self ..)
    exact ih (h.step this.1 this.2) (fun o ho => hp o (List.mem_cons_of_mem _ ho))

/-- `_reset_adaptation` (all its attributes): afterwards each of them that the
    reset restores or recomputes holds its construction-time content. -/
theorem restored_resetAll {w : World} (h : GoodR w) (s : Nat) (slots : List Nat) :
    GoodR (w.run (resetAll s slots)) ∧
    (∀ j, Restored w s j → Restored (w.run (resetAll s slots)) s j) ∧
    ∀ j ∈ slots, ∀ f, w.fld s j = some f → f.spec.reset ≠ .none →
      Restored (w.run (resetAll s slots)) s j := by
  induction slots generalizing w with
  | nil => exact ⟨h, fun _ hr => hr, fun j hj => by cases hj⟩
  | cons j0 slots ih =>
    have hg : GoodR (w.reset s j0) := h.step (op := .reset s j0) rfl trivial
    have keep : ∀ j, Restored w s j → Restored (w.reset s j0) s j := by
      intro j hr
      by_cases e : j0 = j
      · subst e
        obtain ⟨f, hf, hv⟩ := hr
        by_cases hm : f.spec.reset = .none
        · unfold World.reset
          rw [hf]; dsimp only
          cases hi : f.init with
          | none => exact ⟨f, hf, hv⟩
          | some i => dsimp only; rw [hm]; exact ⟨f, hf, hv⟩
        · exact restored_reset h.invR hf hm
      · exact restored_reset_other h.alloc hr e
    obtain ⟨g1, g2, g3⟩ := ih hg
    refine ⟨g1, fun j hr => g2 j (keep j hr), ?_⟩
    intro j hj f hf hm
    show Restored ((w.reset s j0).run (resetAll s slots)) s j
    by_cases e : j = j0
    · subst e
      exact g2 j (restored_reset h.invR hf hm)
    · have hj' : j ∈ slots := by
        rcases List.mem_cons.mp hj with hj | hj
        · exact absurd hj e
        · exact hj
      have hn : ¬(s = s ∧ j = j0) := fun e' => e e'.2
      have hf' : ∃ f', (w.reset s j0).fld s j = some f' ∧ f'.spec = f.spec := by
        unfold World.reset
        split
        · exact ⟨f, hf, rfl⟩
        · split
          · exact ⟨f, hf, rfl⟩
          · split
            · exact ⟨f, hf, rfl⟩
            · exact ⟨f, by rw [setFld_fld_ne hn]; exact hf, rfl⟩
            · exact ⟨f, by rw [rebind_fld_ne hn]; exact hf, rfl⟩
      obtain ⟨f', hf', hsp⟩ := hf'
      exact g3 j hj' f' hf' (by rw [hsp]; exact hm)

/-- Field specs are fixed at construction: no operation changes them or removes a field. -/
theorem spec_step {w : World} {s j f} (hf : w.fld s j = some f) (op : EOp) :
    ∃ f', (w.step op).fld s j = some f' ∧ f'.spec = f.spec ∧ f'.v0 = f.v0 := by
  have keepSet : ∀ (s1 j1 : Nat) (g g' : Field), w.fld s1 j1 = some g → g'.spec = g.spec → g'.v0 = g.v0 →
      ∃ f', (w.setFld s1 j1 g').fld s j = some f' ∧ f'.spec = f.spec ∧ f'.v0 = f.v0 := by
    intro s1 j1 g g' hg hsp hv
    rw [setFld_fld]
    split
    · next e =>
      obtain ⟨rfl, rfl⟩ := e
      rw [hf] at hg; cases hg
      exact ⟨g', rfl, hsp, hv⟩
    · exact ⟨f, hf, rfl, rfl⟩
  have keepRebind : ∀ (s1 j1 : Nat) (g : Field) (v : Buf), w.fld s1 j1 = some g →
      ∃ f', (w.rebind s1 j1 g v).fld s j = some f' ∧ f'.spec = f.spec ∧ f'.v0 = f.v0 := by
    intro s1 j1 g v hg
    show ∃ f', ((w.alloc s1 v).1.setFld s1 j1 _).fld s j = some f' ∧ _
    rw [setFld_fld]
    split
    · next e =>
      obtain ⟨rfl, rfl⟩ := e
      rw [hf] at hg; cases hg
      exact ⟨_, rfl, rfl, rfl⟩
    · exact ⟨f, hf, rfl, rfl⟩
  cases op with
  | construct s1 j1 spec v share =>
    show ∃ f', (w.construct s1 j1 spec v share).fld s j = some f' ∧ _
    unfold World.construct
    split
    · exact ⟨f, hf, rfl, rfl⟩
    · next hnone =>
      have hne : ¬(s = s1 ∧ j = j1) := by
        rintro ⟨rfl, rfl⟩; rw [hf] at hnone; cases hnone
      split
      · refine ⟨f, ?_, rfl, rfl⟩
        show ((w.mkInit s1 spec _).1.setFld s1 j1 _).fld s j = some f
        rw [setFld_fld_ne hne, mkInit_fld]; exact hf
      · refine ⟨f, ?_, rfl, rfl⟩
        show (((w.alloc s1 v).1.mkInit s1 spec _).1.setFld s1 j1 _).fld s j = some f
        rw [setFld_fld_ne hne, mkInit_fld]; exact hf
  | write s1 j1 v =>
    show ∃ f', (w.write s1 j1 v).fld s j = some f' ∧ _
    unfold World.write
    split
    · exact ⟨f, hf, rfl, rfl⟩
    · next g hg =>
      split
      · exact ⟨f, hf, rfl, rfl⟩
      · split
        · exact ⟨f, hf, rfl, rfl⟩
        · exact keepRebind _ _ _ _ hg
  | snap s1 j1 k1 =>
    show ∃ f', (w.takeSnap s1 j1 k1).fld s j = some f' ∧ _
    unfold World.takeSnap
    split
    · exact ⟨f, hf, rfl, rfl⟩
    · split
      · exact ⟨f, hf, rfl, rfl⟩
      · split
        · exact ⟨f, hf, rfl, rfl⟩
        · split
          · exact ⟨f, hf, rfl, rfl⟩
          · exact ⟨f, hf, rfl, rfl⟩
  | load s1 j1 src k1 =>
    show ∃ f', (w.load s1 j1 src k1).fld s j = some f' ∧ _
    unfold World.load
    split
    · next g l hg hl =>
      split
      · exact keepSet _ _ g { g with cur := l } hg rfl rfl
      · exact keepRebind _ _ _ _ hg
    · exact ⟨f, hf, rfl, rfl⟩
  | reset s1 j1 =>
    show ∃ f', (w.reset s1 j1).fld s j = some f' ∧ _
    unfold World.reset
    split
    · exact ⟨f, hf, rfl, rfl⟩
    · next g hg =>
      split
      · exact ⟨f, hf, rfl, rfl⟩
      · next i hi =>
        split
        · exact ⟨f, hf, rfl, rfl⟩
        · exact keepSet _ _ g { g with cur := i } hg rfl rfl
        · exact keepRebind _ _ _ _ hg

theorem spec_run {w : World} {s j f} (hf : w.fld s j = some f) (ops : List EOp) :
    ∃ f', (w.run ops).fld s j = some f' ∧ f'.spec = f.spec ∧ f'.v0 = f.v0 := by
  induction ops generalizing w f with
  | nil => exact ⟨f, hf, rfl, rfl⟩
  | cons op ops ih =>
    obtain ⟨f1, h1, hs1, hv1⟩ := spec_step hf op
    obtain ⟨f2, h2, hs2, hv2⟩ := ih h1
    exact ⟨f2, h2, hs2.trans hs1, hv2.trans hv1⟩

end Epsie.Alias

/-! ### The adaptation clock after a reset (`EpsieModel.Proposal`) -/

namespace Epsie
namespace PropSt

/-- `n` further calls of `BaseProposal.update` (what each reads from the chain is arbitrary). -/
def advance (p : PropSt) (us : List (Bool × AR × List Val)) : PropSt :=
  us.foldl (fun q u => q.update u.1 u.2.1 u.2.2) p

@[simp] theorem update_cfg (p : PropSt) (a r x) : (p.update a r x).cfg = p.cfg := rfl
@[simp] theorem update_startStep (p : PropSt) (a r x) : (p.update a r x).startStep = p.startStep := rfl
@[simp] theorem update_raw (p : PropSt) (a r x) : (p.update a r x).raw = p.raw + 1 := rfl

theorem advance_facts (p : PropSt) (us) :
    (p.advance us).cfg = p.cfg ∧ (p.advance us).startStep = p.startStep ∧
    (p.advance us).raw = p.raw + us.length := by
  induction us generalizing p with
  | nil => exact ⟨rfl, rfl, rfl⟩
  | cons u us ih =>
    have := ih (p.update u.1 u.2.1 u.2.2)
    simp only [update_cfg, update_startStep, update_raw] at this
    refine ⟨this.1, this.2.1, ?_⟩
    show ((p.update u.1 u.2.1 u.2.2).advance us).raw = _
    rw [this.2.2, List.length_cons]; omega

theorem reset_facts (p : PropSt) (h : p.cfg.adaptive = true) :
    p.reset.cfg = p.cfg ∧ p.reset.startStep = max p.nsteps 1 ∧ p.reset.raw = p.raw ∧ p.reset.events = [] := by
  simp [PropSt.reset, h]

theorem reset_nonadaptive (p : PropSt) (h : p.cfg.adaptive = false) : p.reset = p := by
  simp [PropSt.reset, h]

/-- The window guard as a function of the clock value. -/
def inWin (w : Window) (T : Nat) (dk : Int) : Bool :=
  match w with
  | .none => false
  | .veitch => decide (1 ≤ dk ∧ dk < (T : Int))
  | .at => decide (1 < dk ∧ dk < (T : Int))
  | .ss => true

theorem inWindow_eq (p : PropSt) : p.inWindow = inWin p.cfg.window p.cfg.T p.dkUpdate := by
  unfold PropSt.inWindow inWin
  cases p.cfg.window <;> rfl

/-- How many of `n` consecutive updates, the first at clock value `d`, fall in the window. -/
def cnt (w : Window) (T : Nat) : Int → Nat → Nat
  | _, 0 => 0
  | d, n + 1 => (if inWin w T d then 1 else 0) + cnt w T (d + 1) n

theorem events_advance (p : PropSt) (hk : p.cfg.k = 1) (us) :
    (p.advance us).events.length = p.events.length + cnt p.cfg.window p.cfg.T p.dkUpdate us.length := by
  induction us generalizing p with
  | nil => simp [advance, cnt]
  | cons u us ih =>
    have hcj : p.callJump = true := by simp [PropSt.callJump, hk]
    have hdk : (p.update u.1 u.2.1 u.2.2).dkUpdate = p.dkUpdate + 1 := by
      simp [PropSt.dkUpdate, PropSt.nsteps, hk]; omega
    have := ih (p.update u.1 u.2.1 u.2.2) (by simpa using hk)
    show ((p.update u.1 u.2.1 u.2.2).advance us).events.length = _
    rw [this, hdk, List.length_cons, cnt, update_cfg, ← inWindow_eq]
    unfold PropSt.update
    simp only [hcj, Bool.true_and]
    cases p.inWindow <;> simp <;> omega

theorem cnt_shift (w : Window) (T n) (h : w = .veitch ∨ w = .at) : cnt w T 0 (n + 1) = cnt w T 1 n := by
  rcases h with rfl | rfl <;> simp [cnt, inWin]

theorem cnt_ss (T d n) : cnt .ss T d n = n := by
  induction n generalizing d with
  | zero => rfl
  | succ n ih => simp [cnt, inWin, ih]; omega

theorem cnt_veitch (T : Nat) (n : Nat) (d : Int) (hd : 1 ≤ d) :
    cnt .veitch T d n = min n ((T : Int) - d).toNat := by
  induction n generalizing d with
  | zero => simp [cnt]
  | succ n ih =>
    rw [cnt, ih (d + 1) (by omega)]
    have hw : inWin .veitch T d = decide (d < (T : Int)) := by simp [inWin, hd]
    rw [hw]
    by_cases hc : d < (T : Int)
    · simp [hc]; omega
    · simp [hc]; omega

theorem cnt_at (T : Nat) (n : Nat) (d : Int) (hd : 2 ≤ d) :
    cnt .at T d n = min n ((T : Int) - d).toNat := by
  induction n generalizing d with
  | zero => simp [cnt]
  | succ n ih =>
    rw [cnt, ih (d + 1) (by omega)]
    have hw : inWin .at T d = decide (d < (T : Int)) := by
      simp only [inWin]; congr 1; simp; omega
    rw [hw]
    by_cases hc : d < (T : Int)
    · simp [hc]; omega
    · simp [hc]; omega

end PropSt

/-! ### `reset_after_swap` in the apply block of `swap_temperatures` -/

namespace PTChain

theorem maybeRewrite_props (l : Chain) (o : Option St) : (maybeRewrite l o).props = l.props := by
  cases o with
  | none => rfl
  | some st =>
    simp only [maybeRewrite, rewriteLast]
    split <;> rfl

theorem applySwap_getElem? (reset : Bool) (levels : List Chain) (idx : List Nat) (t : Nat)
    (ht : t < levels.length) :
    ∃ l', (applySwap reset levels idx)[t]? = some l' ∧
      l'.props = if (reset && idx.getD t t != t) = true then levels[t].props.map PropSt.reset
                 else levels[t].props := by
  unfold applySwap
  simp only [List.getElem?_map]
  have hz : (levels.zip (List.range levels.length))[t]? = some (levels[t], t) := by
    rw [List.getElem?_zip_eq_some]
    exact ⟨List.getElem?_eq_getElem ht, by simp [ht]⟩
  rw [hz]
  refine ⟨_, rfl, ?_⟩
  simp only [maybeReset]
  split
  · simp [Chain.resetProposals, maybeRewrite_props]
  · simp [maybeRewrite_props]

end PTChain
end Epsie
