/-
  Helper lemmas for C06: the relation "`a` behaves like `b`, retaining a suffix of
  what `b` retains" is preserved by every operation of a run; clearing memory and
  scratch growth only move a chain along this relation.
-/
import EpsieModel.Sampler
import EpsieProofs.ChainInv
import EpsieProofs.SweepApply
namespace Epsie
namespace Chain

/-- `a` and `b` are the same chain as far as any future step can tell, and `a` retains a
    suffix of the history `b` retains (`a` was cleared later, or not at all). -/
structure Sfx (a b : Chain) : Prop where
  beta : a.beta = b.beta
  props : a.props = b.props
  iteration : a.iteration = b.iteration
  proposed : a.proposed = b.proposed
  hasblobs : a.hasblobs = b.hasblobs
  lc_ab : b.lastclear ≤ a.lastclear
  lc_a : a.lastclear ≤ a.iteration
  rows : ∀ i, i < a.len → rowAt a.scratch i = rowAt b.scratch (i + (a.lastclear - b.lastclear))
  current : a.current = b.current
  chainId : a.chainId = b.chainId

theorem Sfx.refl {c : Chain} (h : c.lastclear ≤ c.iteration) : Sfx c c :=
  ⟨rfl, rfl, rfl, rfl, rfl, Nat.le_refl _, h, fun i _ => by simp, rfl, rfl⟩

theorem stepRec_congr {a b : Chain} (hb : a.beta = b.beta) (hp : a.props = b.props) (cur : St)
    (i : StepIn) : stepRec a cur i = stepRec b cur i := by
  unfold stepRec; rw [hb, hp]

theorem current_after_write (c : Chain) (r : Rec) (hlc : c.lastclear ≤ c.iteration) :
    current { c with scratch := setAt c.scratch c.len r, iteration := c.iteration + 1 } = some r.st := by
  unfold current
  have h1 : len { c with scratch := setAt c.scratch c.len r, iteration := c.iteration + 1 } = c.len + 1 := by
    simp [len_def]; omega
  rw [h1]
  simp [rowAt_setAt_same]

theorem sfx_step {a b a' b' : Chain} {i : StepIn} (h : Sfx a b)
    (ha : a.step i = some a') (hb : b.step i = some b') : Sfx a' b' := by
  obtain ⟨cura, hca, hita, hlca, hsa, _, _, hbeta_a, _, hhb_a, hpa⟩ := step_fields ha
  obtain ⟨curb, hcb, hitb, hlcb, hsb, _, _, hbeta_b, _, hhb_b, hpb⟩ := step_fields hb
  have hcur : cura = curb := by
    have := h.current; rw [hca, hcb] at this; exact Option.some.inj this
  subst hcur
  have hrec : stepRec a cura i = stepRec b cura i := stepRec_congr h.beta h.props cura i
  have hlena : a'.len = a.len + 1 := by have := h.lc_a; simp [len_def, hita, hlca]; omega
  have hlcb_le : b.lastclear ≤ b.iteration := by have := h.lc_ab; have := h.lc_a; have := h.iteration; omega
  have hlenb : b'.len = b.len + 1 := by simp [len_def, hitb, hlcb]; omega
  have hblen : b.len = a.len + (a.lastclear - b.lastclear) := by
    have := h.lc_ab; have := h.lc_a; have := h.iteration; simp [len_def]; omega
  -- props and current of the new states
  have hprops : a'.props = b'.props := by
    unfold step at ha hb
    rw [hca] at ha; rw [hcb] at hb
    simp at ha hb
    subst ha; subst hb
    simp [h.props, hrec]
  refine ⟨by rw [hbeta_a, hbeta_b, h.beta], hprops, by rw [hita, hitb, h.iteration],
          by rw [hpa, hpb, h.props], by rw [hhb_a, hhb_b, h.hasblobs],
          by rw [hlca, hlcb]; exact h.lc_ab, by rw [hlca, hita]; have := h.lc_a; omega, ?_, ?_, ?_⟩
  · intro j hj
    rw [hsa, hsb, hlca, hlcb]
    by_cases hjl : j = a.len
    · subst hjl
      rw [rowAt_setAt_same, ← hblen, rowAt_setAt_same, hrec]
    · rw [rowAt_setAt_ne _ _ _ _ hjl, rowAt_setAt_ne _ _ _ _ (by omega)]
      exact h.rows j (by omega)
  · -- both now have a last record: the one just written
    have ea : a'.current = some (stepRec a cura i).st := by
      unfold current
      have : a'.len ≠ 0 := by omega
      simp only [this, if_false, hlena, hsa, Nat.add_sub_cancel, rowAt_setAt_same]; rfl
    have eb : b'.current = some (stepRec b cura i).st := by
      unfold current
      have : b'.len ≠ 0 := by omega
      simp only [this, if_false, hlenb, hsb, Nat.add_sub_cancel, rowAt_setAt_same]; rfl
    rw [ea, eb, hrec]
  · unfold step at ha hb
    rw [hca] at ha; rw [hcb] at hb
    simp at ha hb
    subst ha; subst hb
    exact h.chainId

/-- If one of two related chains can step, so can the other. -/
theorem sfx_step_none {a b : Chain} {i : StepIn} (h : Sfx a b) :
    a.step i = none ↔ b.step i = none := by
  unfold step
  rw [h.current]
  cases b.current <;> simp

theorem clear_fields (c : Chain) :
    c.clear.beta = c.beta ∧ c.clear.props = c.props ∧ c.clear.iteration = c.iteration ∧
    c.clear.proposed = c.proposed ∧ c.clear.hasblobs = c.hasblobs ∧
    c.clear.lastclear = c.iteration ∧ c.clear.chainId = c.chainId := by
  by_cases h : c.iteration > 0 <;> simp [clear, h]

theorem clear_current (c : Chain) : c.clear.current = c.current := by
  have hl := len_clear c
  by_cases h : c.iteration > 0
  · have e : c.clear.start = c.current := by simp [clear, h]
    unfold current at e ⊢
    rw [hl]; simp only [if_true]; exact e
  · have hz : c.iteration = 0 := by omega
    have e : c.clear.start = c.start := by simp [clear, h]
    have hl0 : c.len = 0 := by simp [len_def, hz]
    unfold current
    rw [hl, hl0]; simp only [if_true]; exact e

theorem setScratchlen_current (c : Chain) (n : Nat) : (c.setScratchlen n).current = c.current := by
  have hl : (c.setScratchlen n).len = c.len := rfl
  have hs : (c.setScratchlen n).start = c.start := rfl
  have hsc : (c.setScratchlen n).scratch = growTo c.scratch n := rfl
  unfold current
  rw [hl, hs, hsc, rowAt_growTo]

theorem sfx_clear_left {a b : Chain} (h : Sfx a b) : Sfx a.clear b := by
  obtain ⟨f1, f2, f3, f4, f5, f6, f7⟩ := clear_fields a
  refine ⟨by rw [f1, h.beta], by rw [f2, h.props], by rw [f3, h.iteration], by rw [f4, h.proposed],
          by rw [f5, h.hasblobs], ?_, by rw [f6, f3]; exact Nat.le_refl _, ?_, by rw [clear_current]; exact h.current,
          by rw [f7]; exact h.chainId⟩
  · rw [f6]; have := h.lc_ab; have := h.lc_a; omega
  · intro i hi; rw [len_clear] at hi; omega

theorem sfx_grow_left {a b : Chain} (h : Sfx a b) (n : Nat) : Sfx (a.setScratchlen n) b := by
  refine ⟨h.beta, h.props, h.iteration, h.proposed, h.hasblobs, h.lc_ab, h.lc_a, ?_,
          by rw [setScratchlen_current]; exact h.current, h.chainId⟩
  intro i hi
  show rowAt (growTo a.scratch n) i = _
  rw [rowAt_growTo]; exact h.rows i hi

theorem sfx_grow_right {a b : Chain} (h : Sfx a b) (n : Nat) : Sfx a (b.setScratchlen n) := by
  refine ⟨h.beta, h.props, h.iteration, h.proposed, h.hasblobs, h.lc_ab, h.lc_a, ?_,
          by rw [setScratchlen_current]; exact h.current, h.chainId⟩
  intro i hi
  show _ = rowAt (growTo b.scratch n) _
  rw [rowAt_growTo]; exact h.rows i hi

theorem sfx_reset {a b : Chain} (h : Sfx a b) : Sfx a.resetProposals b.resetProposals :=
  ⟨h.beta, by simp [resetProposals, h.props], h.iteration, h.proposed, h.hasblobs, h.lc_ab, h.lc_a,
   h.rows, h.current, h.chainId⟩

theorem sfx_setBeta {a b : Chain} (h : Sfx a b) (x : Rat) :
    Sfx { a with beta := x } { b with beta := x } :=
  ⟨rfl, h.props, h.iteration, h.proposed, h.hasblobs, h.lc_ab, h.lc_a, h.rows, h.current, h.chainId⟩

/-- A temperature swap rewriting the last record of both (each has one: the sweep follows a step). -/
theorem sfx_rewriteLast {a b : Chain} (h : Sfx a b) (st : St) (hpos : 0 < a.len)
    (hia : Inv a) (hib : Inv b) :
    Sfx (PTChain.rewriteLast a st) (PTChain.rewriteLast b st) := by
  have hblen : b.len = a.len + (a.lastclear - b.lastclear) := by
    have := h.lc_ab; have := h.lc_a; have := h.iteration; simp [len_def]; omega
  obtain ⟨ra, hra⟩ := hia.rows (a.len - 1) (by omega)
  obtain ⟨rb, hrb⟩ := hib.rows (b.len - 1) (by omega)
  have hrab : ra = rb := by
    have := h.rows (a.len - 1) (by omega)
    rw [hra] at this
    have e : a.len - 1 + (a.lastclear - b.lastclear) = b.len - 1 := by omega
    rw [e, hrb] at this
    exact Option.some.inj this
  subst hrab
  obtain ⟨a1, a2, _, _, a5, a6⟩ := rewriteLast_fields a st
  obtain ⟨b1, b2, _, _, b5, b6⟩ := rewriteLast_fields b st
  obtain ⟨ca, wa, ua⟩ := _root_.Epsie.current_rewriteLast (st := st) hpos hra
  obtain ⟨cb, wb, ub⟩ := _root_.Epsie.current_rewriteLast (st := st) (by omega : 0 < b.len) hrb
  have hla : (PTChain.rewriteLast a st).len = a.len := by simp [len_def, a1, a2]
  have hpa : (PTChain.rewriteLast a st).proposed = a.proposed := by
    unfold PTChain.rewriteLast; simp [hra]
  have hpb : (PTChain.rewriteLast b st).proposed = b.proposed := by
    unfold PTChain.rewriteLast; simp [hrb]
  have hha : (PTChain.rewriteLast a st).hasblobs = a.hasblobs := by
    unfold PTChain.rewriteLast; simp [hra]
  have hhb : (PTChain.rewriteLast b st).hasblobs = b.hasblobs := by
    unfold PTChain.rewriteLast; simp [hrb]
  refine ⟨by rw [a6, b6, h.beta], by rw [a5, b5, h.props], by rw [a1, b1, h.iteration],
          by rw [hpa, hpb, h.proposed], by rw [hha, hhb, h.hasblobs], by rw [a2, b2]; exact h.lc_ab,
          by rw [a2, a1]; exact h.lc_a, ?_, by rw [ca, cb], ?_⟩
  rotate_left
  · unfold PTChain.rewriteLast; simp [hra, hrb, h.chainId]
  intro j hj
  rw [hla] at hj
  rw [a2, b2]
  by_cases hjl : j = a.len - 1
  · subst hjl
    have e : a.len - 1 + (a.lastclear - b.lastclear) = b.len - 1 := by omega
    rw [wa, e, wb]
  · rw [ua j hjl, ub _ (by omega)]
    exact h.rows j hj

end Chain
end Epsie
