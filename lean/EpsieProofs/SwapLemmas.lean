/-
  EpsieProofs.SwapLemmas — helper lemmas for property C03 (temperature swaps leave the
  joint tempered distribution invariant).

  Part 1 (core Lean, induction): the loop of `swap_temperatures` with its carried
  log-likelihood refines sequential adjacent exchanges on a virtual configuration.
  Part 2 (ℝ): the pair ratio, exchange detailed balance, path probabilities, and the
  invariance of Π_t p·L^{β_t} under the law of the loop.
-/
import EpsieModel.Swap
import EpsieProofs.MHLemmas
import Mathlib.MeasureTheory.Constructions.Pi
import Mathlib.Algebra.BigOperators.Fin

namespace Epsie
namespace Swap

/-! ## Part 1 — the loop refines sequential exchanges -/

/-- Sequential specification: starting from the hottest pair `(m-1, m)` and going down, exchange
    the occupants of the adjacent slots `(tj, tj+1)` of the virtual configuration whenever the
    corresponding decision is `true`. -/
def seqDec : Nat → List Nat → List Bool → List Nat
  | 0, cfg, _ => cfg
  | _, cfg, [] => cfg
  | tj+1, cfg, d :: ds => seqDec tj (if d then swapIdx cfg tj else cfg) ds

/-- What the loop knows when it is about to treat the pair `(m-1, m)`: the slots below `m`
    still hold their own level, and the carried `loglk` is the log-likelihood of the level
    whose state currently sits in slot `m`. -/
structure CarryInv (logls : List Rat) (m : Nat) (s : SweepSt) : Prop where
  low : ∀ t, t < m → s.idx[t]? = some t
  hot : ∃ k, s.idx[m]? = some k ∧ s.loglk = logls.getD k 0

theorem carryInv_init (logls : List Rat) (n : Nat) (hn : 0 < n) :
    CarryInv logls (n - 1) { idx := List.range n, loglk := logls.getD (n - 1) 0, ars := [] } := by
  constructor
  · intro t ht
    simp only
    rw [List.getElem?_range (by omega)]
  · exact ⟨n - 1, by simp only; rw [List.getElem?_range (by omega)], rfl⟩

theorem swapIdx_of_some {idx : List Nat} {tj a b : Nat} (ha : idx[tj]? = some a)
    (hb : idx[tj+1]? = some b) : swapIdx idx tj = (idx.set tj b).set (tj+1) a := by
  unfold swapIdx; rw [ha, hb]

theorem getElem?_lt_length {α} {l : List α} {i : Nat} {a : α} (h : l[i]? = some a) :
    i < l.length := by
  by_contra hc
  rw [List.getElem?_eq_none (Nat.le_of_not_lt hc)] at h
  cases h

theorem carryInv_pairStep {logls : List Rat} {tj : Nat} {s : SweepSt}
    (h : CarryInv logls (tj + 1) s) (ar : AR) (d : Bool) :
    CarryInv logls tj (pairStep logls s tj ar d) := by
  obtain ⟨k, hk, hl⟩ := h.hot
  have htj : s.idx[tj]? = some tj := h.low tj (Nat.lt_succ_self _)
  have hlen : tj < s.idx.length := getElem?_lt_length htj
  cases d with
  | false =>
    simp only [pairStep, Bool.false_eq_true, if_false]
    exact ⟨fun t ht => h.low t (by omega), tj, htj, rfl⟩
  | true =>
    simp only [pairStep, if_true]
    rw [swapIdx_of_some htj hk]
    constructor
    · intro t ht
      simp only
      rw [List.getElem?_set_ne (by omega), List.getElem?_set_ne (by omega)]
      exact h.low t (by omega)
    · refine ⟨k, ?_, hl⟩
      simp only
      rw [List.getElem?_set_ne (by omega), List.getElem?_set_self hlen]

theorem loopDec_idx_loglk (logls : List Rat) : ∀ (m : Nat) (s : SweepSt) (ds : List Bool),
    CarryInv logls m s → ds.length ≤ m →
    (loopDec logls m s ds).idx = seqDec m s.idx ds ∧
    CarryInv logls (m - ds.length) (loopDec logls m s ds)
  | 0, s, ds, h, hd => by
    have : ds = [] := List.length_eq_zero_iff.mp (Nat.le_zero.mp hd)
    subst this
    exact ⟨rfl, h⟩
  | tj+1, s, [], h, _ => ⟨rfl, h⟩
  | tj+1, s, d :: ds, h, hd => by
    have h' := carryInv_pairStep h .one d
    have hd' : ds.length ≤ tj := by simpa using hd
    obtain ⟨i1, i2⟩ := loopDec_idx_loglk logls tj _ ds h' hd'
    simp only [loopDec, seqDec]
    refine ⟨?_, ?_⟩
    · rw [i1]; cases d <;> simp [pairStep]
    · have : tj + 1 - (d :: ds).length = tj - ds.length := by simp
      rw [this]; exact i2

/-! ### The same for the loop driven by uniforms -/

/-- Log acceptance ratio between the states *currently* in slots `tj` (colder) and `tj+1`
    (hotter) of the virtual configuration, with the betas of the slots. -/
def specLogAR (betas logls : List Rat) (cfg : List Nat) (tj : Nat) : Rat :=
  (betas.getD (tj+1) 0 - betas.getD tj 0) *
    (logls.getD (cfg.getD tj 0) 0 - logls.getD (cfg.getD (tj+1) 0) 0)

/-- Sequential adjacent exchanges, hottest pair first, decided by the uniforms. -/
def specLoop (betas logls : List Rat) :
    Nat → List Nat × List AR → List Rat → Option ((List Nat × List AR) × List Rat)
  | 0, s, us => some (s, us)
  | tj+1, (cfg, ars), us =>
    let l := specLogAR betas logls cfg tj
    if l > 0 then specLoop betas logls tj (swapIdx cfg tj, ars ++ [.one]) us
    else match us with
      | [] => none
      | u :: us =>
        specLoop betas logls tj (if u ≤ l then swapIdx cfg tj else cfg, ars ++ [.exp l]) us

theorem pairLogAR_eq_spec {betas logls : List Rat} {tj : Nat} {s : SweepSt}
    (h : CarryInv logls (tj + 1) s) :
    pairLogAR betas logls tj s.loglk = specLogAR betas logls s.idx tj := by
  obtain ⟨k, hk, hl⟩ := h.hot
  have htj : s.idx[tj]? = some tj := h.low tj (Nat.lt_succ_self _)
  unfold pairLogAR specLogAR
  simp [List.getD, htj, hk, hl]

theorem loop_eq_specLoop (betas logls : List Rat) : ∀ (m : Nat) (s : SweepSt) (us : List Rat),
    CarryInv logls m s →
    (loop betas logls m s us).map (fun r => ((r.1.idx, r.1.ars), r.2))
      = specLoop betas logls m (s.idx, s.ars) us
  | 0, s, us, _ => by simp [loop, specLoop]
  | tj+1, s, us, h => by
    have hl := pairLogAR_eq_spec (betas := betas) h
    simp only [loop, specLoop]
    rw [hl]
    split
    · have h' := carryInv_pairStep h .one true
      rw [loop_eq_specLoop betas logls tj _ us h']
      simp [pairStep]
    · cases us with
      | nil => simp
      | cons u us =>
        simp only
        have h' := carryInv_pairStep h (.exp (specLogAR betas logls s.idx tj))
          (decide (u ≤ specLogAR betas logls s.idx tj))
        rw [loop_eq_specLoop betas logls tj _ us h']
        by_cases hu : u ≤ specLogAR betas logls s.idx tj <;> simp [pairStep, hu]

/-! ### Decision paths of the loop -/

/-- The acceptance ratio the loop records for the pair `(tj, tj+1)`. -/
def pairAR (betas logls : List Rat) (tj : Nat) (loglk : Rat) : AR :=
  if pairLogAR betas logls tj loglk > 0 then .one else .exp (pairLogAR betas logls tj loglk)

theorem pairAR_wf (betas logls : List Rat) (tj : Nat) (loglk : Rat) :
    (pairAR betas logls tj loglk).wf := by
  unfold pairAR
  split
  · trivial
  · rename_i h; exact Rat.not_lt.mp h

/-- The loop along a given decision path (one decision per pair, hottest first), recording the
    acceptance ratios the real loop records. -/
def loopPath (betas logls : List Rat) : Nat → SweepSt → List Bool → SweepSt
  | 0, s, _ => s
  | _, s, [] => s
  | tj+1, s, d :: ds =>
    loopPath betas logls tj (pairStep logls s tj (pairAR betas logls tj s.loglk) d) ds

/-- The uniform stream `us` (logs) makes the loop follow the path `ds` and is used up:
    at a pair with `logar > 0` the decision is `true` and nothing is drawn; otherwise one uniform
    is drawn and the decision is `logu ≤ logar`. -/
def Realises (betas logls : List Rat) : Nat → SweepSt → List Bool → List Rat → Prop
  | 0, _, ds, us => ds = [] ∧ us = []
  | _+1, _, [], _ => False
  | tj+1, s, d :: ds, us =>
    if pairLogAR betas logls tj s.loglk > 0 then
      d = true ∧ Realises betas logls tj (pairStep logls s tj (pairAR betas logls tj s.loglk) d) ds us
    else
      ∃ u us', us = u :: us' ∧ d = decide (u ≤ pairLogAR betas logls tj s.loglk) ∧
        Realises betas logls tj (pairStep logls s tj (pairAR betas logls tj s.loglk) d) ds us'

theorem loop_iff_path (betas logls : List Rat) : ∀ (m : Nat) (s s' : SweepSt) (us : List Rat),
    loop betas logls m s us = some (s', []) ↔
      ∃ ds, ds.length = m ∧ Realises betas logls m s ds us ∧ s' = loopPath betas logls m s ds
  | 0, s, s', us => by
    simp only [loop, Option.some.injEq, Prod.mk.injEq]
    constructor
    · rintro ⟨rfl, rfl⟩; exact ⟨[], rfl, ⟨rfl, rfl⟩, rfl⟩
    · rintro ⟨ds, _, ⟨_, hu⟩, hs⟩
      cases ds <;> simp_all [loopPath]
  | tj+1, s, s', us => by
    simp only [loop]
    by_cases hl : pairLogAR betas logls tj s.loglk > 0
    · simp only [hl, if_true]
      rw [loop_iff_path betas logls tj]
      constructor
      · rintro ⟨ds, hlen, hr, hs⟩
        refine ⟨true :: ds, by simp [hlen], ?_, ?_⟩
        · simp only [Realises, hl, if_true, true_and]
          simpa [pairAR, hl] using hr
        · simpa [loopPath, pairAR, hl] using hs
      · rintro ⟨ds, hlen, hr, hs⟩
        cases ds with
        | nil => simp at hlen
        | cons d ds =>
          simp only [Realises, hl, if_true] at hr
          obtain ⟨rfl, hr⟩ := hr
          refine ⟨ds, by simpa using hlen, ?_, ?_⟩
          · simpa [pairAR, hl] using hr
          · simpa [loopPath, pairAR, hl] using hs
    · simp only [hl, if_false]
      cases us with
      | nil =>
        simp only
        constructor
        · intro h; cases h
        · rintro ⟨ds, hlen, hr, _⟩
          cases ds with
          | nil => simp at hlen
          | cons d ds =>
            simp only [Realises, hl, if_false] at hr
            obtain ⟨u, us', h, _⟩ := hr
            cases h
      | cons u us =>
        simp only
        rw [loop_iff_path betas logls tj]
        constructor
        · rintro ⟨ds, hlen, hr, hs⟩
          refine ⟨decide (u ≤ pairLogAR betas logls tj s.loglk) :: ds, by simp [hlen], ?_, ?_⟩
          · simp only [Realises, hl, if_false]
            exact ⟨u, us, rfl, rfl, by simpa [pairAR, hl] using hr⟩
          · simpa [loopPath, pairAR, hl] using hs
        · rintro ⟨ds, hlen, hr, hs⟩
          cases ds with
          | nil => simp at hlen
          | cons d ds =>
            simp only [Realises, hl, if_false] at hr
            obtain ⟨u', us', h, hd, hr⟩ := hr
            cases h
            subst hd
            refine ⟨ds, by simpa using hlen, ?_, ?_⟩
            · simpa [pairAR, hl] using hr
            · simpa [loopPath, pairAR, hl] using hs

/-- `loopPath` and `loopDec` move the same things (they differ in the recorded ratios only). -/
theorem loopPath_idx_loglk (betas logls : List Rat) : ∀ (m : Nat) (s s₂ : SweepSt) (ds : List Bool),
    s.idx = s₂.idx → s.loglk = s₂.loglk →
    (loopPath betas logls m s ds).idx = (loopDec logls m s₂ ds).idx ∧
    (loopPath betas logls m s ds).loglk = (loopDec logls m s₂ ds).loglk
  | 0, _, _, _, h1, h2 => ⟨h1, h2⟩
  | _+1, _, _, [], h1, h2 => ⟨h1, h2⟩
  | tj+1, s, s₂, d :: ds, h1, h2 => by
    simp only [loopPath, loopDec]
    apply loopPath_idx_loglk betas logls tj
    · cases d <;> simp [pairStep, h1]
    · cases d <;> simp [pairStep, h2]

/-! ## Part 2 — ratios, detailed balance, path probabilities, invariance (over ℝ) -/

open MH

theorem cast_pairLogAR (betas logls : List Rat) (tj : Nat) (loglk : Rat) :
    ((pairLogAR betas logls tj loglk : Rat) : ℝ) =
      (((betas.getD (tj+1) 0 : Rat) : ℝ) - ((betas.getD tj 0 : Rat) : ℝ)) *
        (((logls.getD tj 0 : Rat) : ℝ) - (loglk : ℝ)) := by
  unfold pairLogAR; push_cast; ring

theorem exp_pair_ratio {Lj Lk db : ℝ} (hj : 0 < Lj) (hk : 0 < Lk) :
    Real.exp (db * (Real.log Lj - Real.log Lk)) = (Lj / Lk) ^ db := by
  rw [← Real.log_div hj.ne' hk.ne', Real.rpow_def_of_pos (div_pos hj hk)]
  ring_nf

theorem arReal_pairAR (betas logls : List Rat) (tj : Nat) (loglk : Rat) :
    arReal (pairAR betas logls tj loglk)
      = min 1 (Real.exp ((pairLogAR betas logls tj loglk : Rat) : ℝ)) := by
  unfold pairAR
  split
  · rename_i hl
    have hl' : (0:ℝ) < ((pairLogAR betas logls tj loglk : Rat) : ℝ) := by exact_mod_cast hl
    have : 1 ≤ Real.exp ((pairLogAR betas logls tj loglk : Rat) : ℝ) := by
      rw [← Real.exp_zero]; exact Real.exp_le_exp.mpr hl'.le
    simp [arReal, min_eq_left this]
  · rename_i hl
    have hl' : ((pairLogAR betas logls tj loglk : Rat) : ℝ) ≤ 0 := by
      have := Rat.not_lt.mp hl; exact_mod_cast this
    have : Real.exp ((pairLogAR betas logls tj loglk : Rat) : ℝ) ≤ 1 := by
      rw [← Real.exp_zero]; exact Real.exp_le_exp.mpr hl'
    simp [arReal, min_eq_right this]

/-! ### One exchange: detailed balance for Π_t p(c t)·L(c t)^{β_t} -/

section Exchange
variable {S : Type*} {n : ℕ}

/-- The joint tempered weight of a configuration (`c t` = state held by level `t`). -/
noncomputable def tempered (p L : S → ℝ) (β : Fin n → ℝ) (c : Fin n → S) : ℝ :=
  ∏ t, p (c t) * L (c t) ^ β t

/-- Acceptance probability of exchanging the occupants of slots `j` (colder) and `k` (hotter). -/
noncomputable def exchAcc (L : S → ℝ) (β : Fin n → ℝ) (j k : Fin n) (c : Fin n → S) : ℝ :=
  min 1 ((L (c j) / L (c k)) ^ (β k - β j))

theorem exchAcc_nonneg (L : S → ℝ) (hL : ∀ x, 0 < L x) (β : Fin n → ℝ) (j k : Fin n)
    (c : Fin n → S) : 0 ≤ exchAcc L β j k c :=
  le_min zero_le_one (Real.rpow_nonneg (div_pos (hL _) (hL _)).le _)

theorem exchAcc_le_one (L : S → ℝ) (β : Fin n → ℝ) (j k : Fin n) (c : Fin n → S) :
    exchAcc L β j k c ≤ 1 := min_le_left _ _

theorem tempered_swap (p L : S → ℝ) (hL : ∀ x, 0 < L x) (β : Fin n → ℝ) {j k : Fin n}
    (hjk : j ≠ k) (c : Fin n → S) :
    tempered p L β (c ∘ Equiv.swap j k)
      = (L (c j) / L (c k)) ^ (β k - β j) * tempered p L β c := by
  unfold tempered
  have h1 : ∏ t, p ((c ∘ Equiv.swap j k) t) * L ((c ∘ Equiv.swap j k) t) ^ β t
      = ∏ t, p (c t) * L (c t) ^ β (Equiv.swap j k t) := by
    apply Fintype.prod_equiv (Equiv.swap j k)
    intro t
    simp [Equiv.swap_apply_self]
  rw [h1]
  have h2 : ∀ t, p (c t) * L (c t) ^ β (Equiv.swap j k t)
      = (p (c t) * L (c t) ^ β t) * L (c t) ^ (β (Equiv.swap j k t) - β t) := by
    intro t
    rw [mul_assoc, ← Real.rpow_add (hL _)]
    congr 2; ring
  simp_rw [h2]
  rw [Finset.prod_mul_distrib, mul_comm]
  congr 1
  rw [Finset.prod_eq_mul j k hjk]
  · rw [Equiv.swap_apply_left, Equiv.swap_apply_right,
      Real.div_rpow (hL _).le (hL _).le, div_eq_mul_inv, ← Real.rpow_neg (hL _).le]
    congr 2; ring
  · intro t _ ht
    rw [Equiv.swap_apply_of_ne_of_ne ht.1 ht.2]; simp
  · intro h; exact absurd (Finset.mem_univ j) h
  · intro h; exact absurd (Finset.mem_univ k) h

theorem exchAcc_swap (L : S → ℝ) (hL : ∀ x, 0 < L x) (β : Fin n → ℝ) (j k : Fin n)
    (c : Fin n → S) :
    exchAcc L β j k (c ∘ Equiv.swap j k) = min 1 ((L (c j) / L (c k)) ^ (β k - β j))⁻¹ := by
  unfold exchAcc
  simp only [Function.comp, Equiv.swap_apply_left, Equiv.swap_apply_right]
  rw [← Real.inv_rpow (div_pos (hL _) (hL _)).le, inv_div]

theorem exchange_detailed_balance (p L : S → ℝ) (hL : ∀ x, 0 < L x) (β : Fin n → ℝ)
    {j k : Fin n} (hjk : j ≠ k) (c : Fin n → S) :
    tempered p L β c * exchAcc L β j k c
      = tempered p L β (c ∘ Equiv.swap j k) * exchAcc L β j k (c ∘ Equiv.swap j k) := by
  rw [tempered_swap p L hL β hjk, exchAcc_swap L hL β]
  unfold exchAcc
  set r := (L (c j) / L (c k)) ^ (β k - β j) with hr
  have hrpos : 0 < r := Real.rpow_pos_of_pos (div_pos (hL _) (hL _)) _
  have : r * min 1 r⁻¹ = min 1 r := by
    rw [mul_min_of_nonneg _ _ hrpos.le, mul_one, mul_inv_cancel₀ hrpos.ne', min_comm]
  calc tempered p L β c * min 1 r = tempered p L β c * (r * min 1 r⁻¹) := by rw [this]
    _ = r * tempered p L β c * min 1 r⁻¹ := by ring

/-- `c ↦ c ∘ swap j k` as a permutation of the configuration space. -/
def swapCfg (j k : Fin n) : Equiv.Perm (Fin n → S) :=
  Function.Involutive.toPerm (fun c => c ∘ Equiv.swap j k) (by
    intro c; funext t; simp [Function.comp, Equiv.swap_apply_self])

variable [Fintype S]

/-- One exchange step preserves the tempered weight, tested against any function `g`. -/
theorem exchange_invariant (p L : S → ℝ) (hL : ∀ x, 0 < L x) (β : Fin n → ℝ)
    {j k : Fin n} (hjk : j ≠ k) (g : (Fin n → S) → ℝ) :
    ∑ c, tempered p L β c *
        (exchAcc L β j k c * g (c ∘ Equiv.swap j k) + (1 - exchAcc L β j k c) * g c)
      = ∑ c, tempered p L β c * g c := by
  have h1 : ∑ c, tempered p L β c * exchAcc L β j k c * g (c ∘ Equiv.swap j k)
      = ∑ c, tempered p L β c * exchAcc L β j k c * g c := by
    rw [← Equiv.sum_comp (swapCfg (S := S) j k)
      (fun c => tempered p L β c * exchAcc L β j k c * g c)]
    apply Finset.sum_congr rfl
    intro c _
    show _ = tempered p L β (c ∘ Equiv.swap j k) * exchAcc L β j k (c ∘ Equiv.swap j k)
      * g (c ∘ Equiv.swap j k)
    rw [exchange_detailed_balance p L hL β hjk c]
  calc ∑ c, tempered p L β c *
        (exchAcc L β j k c * g (c ∘ Equiv.swap j k) + (1 - exchAcc L β j k c) * g c)
      = ∑ c, tempered p L β c * exchAcc L β j k c * g (c ∘ Equiv.swap j k)
        + (∑ c, tempered p L β c * g c - ∑ c, tempered p L β c * exchAcc L β j k c * g c) := by
        rw [← Finset.sum_sub_distrib, ← Finset.sum_add_distrib]
        apply Finset.sum_congr rfl; intro c _; ring
    _ = ∑ c, tempered p L β c * g c := by rw [h1]; ring

/-- The abstract sweep: exchanges of the adjacent pairs `(m-1, m)`, …, `(0, 1)` in that order;
    `absLaw g m d` is the expectation of `g` at the end, started from configuration `d`. -/
noncomputable def absLaw (L : S → ℝ) (β : Fin n → ℝ) (g : (Fin n → S) → ℝ) :
    Nat → (Fin n → S) → ℝ
  | 0, d => g d
  | tj+1, d =>
    if h : tj + 1 < n then
      exchAcc L β ⟨tj, by omega⟩ ⟨tj+1, h⟩ d
          * absLaw L β g tj (d ∘ Equiv.swap ⟨tj, by omega⟩ ⟨tj+1, h⟩)
        + (1 - exchAcc L β ⟨tj, by omega⟩ ⟨tj+1, h⟩ d) * absLaw L β g tj d
    else absLaw L β g tj d

theorem absLaw_invariant (p L : S → ℝ) (hL : ∀ x, 0 < L x) (β : Fin n → ℝ)
    (g : (Fin n → S) → ℝ) : ∀ m : Nat,
    ∑ c, tempered p L β c * absLaw L β g m c = ∑ c, tempered p L β c * g c
  | 0 => rfl
  | tj+1 => by
    by_cases h : tj + 1 < n
    · simp only [absLaw, h, dif_pos]
      rw [exchange_invariant p L hL β (by simp [Fin.ext_iff]) (absLaw L β g tj)]
      exact absLaw_invariant p L hL β g tj
    · simp only [absLaw, h, dif_neg, not_false_eq_true]
      exact absLaw_invariant p L hL β g tj

end Exchange

/-! ### The law of the model's loop, and its refinement of the abstract sweep -/

/-- Expectation of `out swap_index` at the end of the model's loop when every pair with
    `logar ≤ 0` is decided by an independent uniform: the branch "swap" has probability
    `ar` (the Lebesgue measure of `{u ∈ [0,1) | u ≤ ar}`), the branch "no swap" `1 - ar`;
    a pair with `logar > 0` has `ar = 1`. -/
noncomputable def loopLaw (betas logls : List Rat) (out : List Nat → ℝ) : Nat → SweepSt → ℝ
  | 0, s => out s.idx
  | tj+1, s =>
    arReal (pairAR betas logls tj s.loglk)
        * loopLaw betas logls out tj (pairStep logls s tj (pairAR betas logls tj s.loglk) true)
      + (1 - arReal (pairAR betas logls tj s.loglk))
        * loopLaw betas logls out tj (pairStep logls s tj (pairAR betas logls tj s.loglk) false)

/-- Every slot of `swap_index` names a level. -/
def IdxOK (n : Nat) (idx : List Nat) : Prop := ∀ t, t < n → ∃ k, k < n ∧ idx[t]? = some k

theorem idxOK_range (n : Nat) : IdxOK n (List.range n) :=
  fun t ht => ⟨t, ht, List.getElem?_range ht⟩

theorem idxOK_swapIdx {n : Nat} {idx : List Nat} (h : IdxOK n idx) {tj : Nat} (htj : tj + 1 < n) :
    IdxOK n (swapIdx idx tj) := by
  obtain ⟨a, ha, hia⟩ := h tj (by omega)
  obtain ⟨b, hb, hib⟩ := h (tj+1) htj
  rw [swapIdx_of_some hia hib]
  intro t ht
  have hl1 : tj < idx.length := getElem?_lt_length hia
  have hl2 : tj + 1 < idx.length := getElem?_lt_length hib
  by_cases h1 : t = tj + 1
  · subst h1
    exact ⟨a, ha, by rw [List.getElem?_set_self (by simpa using hl2)]⟩
  · by_cases h2 : t = tj
    · subst h2
      exact ⟨b, hb, by rw [List.getElem?_set_ne (by omega), List.getElem?_set_self hl1]⟩
    · obtain ⟨k, hk, hik⟩ := h t ht
      exact ⟨k, hk, by
        rw [List.getElem?_set_ne (by omega), List.getElem?_set_ne (by omega)]; exact hik⟩

section Refine
variable {S : Type*} {n : ℕ}

/-- The "apply" block of `swap_temperatures`: level `t` receives what level `idx[t]` held. -/
def permute (c : Fin n → S) (idx : List Nat) : Fin n → S := fun t =>
  match idx[t.val]? with
  | some k => if h : k < n then c ⟨k, h⟩ else c t
  | none => c t

theorem permute_of_some {c : Fin n → S} {idx : List Nat} {t : Fin n} {k : Nat} (hk : k < n)
    (h : idx[t.val]? = some k) : permute c idx t = c ⟨k, hk⟩ := by
  simp [permute, h, hk]

theorem permute_range (c : Fin n → S) : permute c (List.range n) = c := by
  funext t
  rw [permute_of_some t.isLt (List.getElem?_range t.isLt)]

theorem permute_swapIdx {c : Fin n → S} {idx : List Nat} (h : IdxOK n idx) {tj : Nat}
    (htj : tj + 1 < n) :
    permute c (swapIdx idx tj)
      = permute c idx ∘ Equiv.swap (⟨tj, by omega⟩ : Fin n) ⟨tj+1, htj⟩ := by
  obtain ⟨a, ha, hia⟩ := h tj (by omega)
  obtain ⟨b, hb, hib⟩ := h (tj+1) htj
  have hl1 : tj < idx.length := getElem?_lt_length hia
  have hl2 : tj + 1 < idx.length := getElem?_lt_length hib
  funext t
  rw [swapIdx_of_some hia hib]
  simp only [Function.comp]
  by_cases h1 : t = ⟨tj+1, htj⟩
  · subst h1
    rw [Equiv.swap_apply_right,
      permute_of_some ha (by simp only; rw [List.getElem?_set_self (by simpa using hl2)]),
      permute_of_some ha hia]
  · by_cases h2 : t = ⟨tj, by omega⟩
    · subst h2
      rw [Equiv.swap_apply_left,
        permute_of_some hb (by
          simp only; rw [List.getElem?_set_ne (by omega), List.getElem?_set_self hl1]),
        permute_of_some hb hib]
    · rw [Equiv.swap_apply_of_ne_of_ne h2 h1]
      obtain ⟨k, hk, hik⟩ := h t.val t.isLt
      have n1 : t.val ≠ tj + 1 := fun e => h1 (Fin.ext e)
      have n2 : t.val ≠ tj := fun e => h2 (Fin.ext e)
      rw [permute_of_some hk (by
          rw [List.getElem?_set_ne (by omega), List.getElem?_set_ne (by omega)]; exact hik),
        permute_of_some hk hik]

/-- The log-likelihoods the sweep reads: `stats['logl'][t]` of the configuration `c`. -/
def loglsOf (ℓ : S → Rat) (c : Fin n → S) : List Rat := List.ofFn (fun t => ℓ (c t))

theorem loglsOf_getD (ℓ : S → Rat) (c : Fin n → S) {k : Nat} (hk : k < n) :
    (loglsOf ℓ c).getD k 0 = ℓ (c ⟨k, hk⟩) := by
  unfold loglsOf
  rw [List.getD_eq_getElem?_getD, List.getElem?_ofFn]
  simp [hk]

/-- The ladder as a real function of the slot. -/
def betaFn (betas : List Rat) : Fin n → ℝ := fun t => ((betas.getD t.val 0 : Rat) : ℝ)

/-- The likelihood whose log is `ℓ`. -/
noncomputable def likOf (ℓ : S → Rat) : S → ℝ := fun x => Real.exp (ℓ x : ℝ)

theorem likOf_pos (ℓ : S → Rat) (x : S) : 0 < likOf ℓ x := Real.exp_pos _

theorem arReal_pairAR_eq_exchAcc (betas : List Rat) (ℓ : S → Rat) (c : Fin n → S)
    {tj : Nat} (htj : tj + 1 < n) {s : SweepSt} (hc : CarryInv (loglsOf ℓ c) (tj + 1) s)
    (hi : IdxOK n s.idx) :
    arReal (pairAR betas (loglsOf ℓ c) tj s.loglk)
      = exchAcc (likOf ℓ) (betaFn betas) ⟨tj, by omega⟩ ⟨tj+1, htj⟩ (permute c s.idx) := by
  obtain ⟨k, hk, hl⟩ := hc.hot
  obtain ⟨k', hk'n, hk'⟩ := hi (tj+1) htj
  rw [hk] at hk'; cases hk'
  have h0 : s.idx[tj]? = some tj := hc.low tj (Nat.lt_succ_self _)
  rw [arReal_pairAR, cast_pairLogAR, hl, loglsOf_getD ℓ c (by omega : tj < n),
    loglsOf_getD ℓ c hk'n]
  unfold exchAcc
  rw [permute_of_some (t := ⟨tj, by omega⟩) (by omega : tj < n) h0,
    permute_of_some (t := ⟨tj+1, htj⟩) hk'n hk]
  have htj0 : tj < n := by omega
  have := exp_pair_ratio
    (db := betaFn betas (⟨tj+1, htj⟩ : Fin n) - betaFn betas (⟨tj, htj0⟩ : Fin n))
    (likOf_pos ℓ (c ⟨tj, htj0⟩)) (likOf_pos ℓ (c ⟨k, hk'n⟩))
  rw [← this]
  simp [likOf, betaFn, Real.log_exp]

theorem loopLaw_eq_absLaw (betas : List Rat) (ℓ : S → Rat) (c : Fin n → S)
    (g : (Fin n → S) → ℝ) : ∀ (m : Nat) (s : SweepSt), m < n →
    CarryInv (loglsOf ℓ c) m s → IdxOK n s.idx →
    loopLaw betas (loglsOf ℓ c) (fun idx => g (permute c idx)) m s
      = absLaw (likOf ℓ) (betaFn betas) g m (permute c s.idx)
  | 0, s, _, _, _ => rfl
  | tj+1, s, hm, hc, hi => by
    simp only [loopLaw, absLaw, hm, dif_pos]
    rw [arReal_pairAR_eq_exchAcc betas ℓ c hm hc hi]
    have hT := carryInv_pairStep hc (pairAR betas (loglsOf ℓ c) tj s.loglk) true
    have hF := carryInv_pairStep hc (pairAR betas (loglsOf ℓ c) tj s.loglk) false
    rw [loopLaw_eq_absLaw betas ℓ c g tj _ (by omega) hT
        (by simpa [pairStep] using idxOK_swapIdx hi hm),
      loopLaw_eq_absLaw betas ℓ c g tj _ (by omega) hF (by simpa [pairStep] using hi)]
    simp only [pairStep, if_true, Bool.false_eq_true, if_false]
    rw [permute_swapIdx hi hm]

end Refine

/-! ### Probability of a decision path under independent uniforms -/

/-- The code's test `swap = u <= ar` for a recorded ratio (`ar = 1`: no draw, always swap). -/
def acceptedAR : AR → ℝ → Prop
  | .zero, _ => False
  | .one, _ => True
  | .exp l, u => u ≤ Real.exp (l : ℝ)

/-- The uniforms in `[0,1)` for which a pair with ratio `a` takes the decision `d`. -/
def pairEvent (a : AR) (d : Bool) : Set ℝ :=
  {u : ℝ | u ∈ Set.Ico (0:ℝ) 1 ∧ (acceptedAR a u ↔ d = true)}

/-- `ar` for "swap", `1 - ar` for "no swap". -/
noncomputable def branchProb (a : AR) (d : Bool) : ℝ := if d then arReal a else 1 - arReal a

theorem branchProb_nonneg {a : AR} (ha : a.wf) (d : Bool) : 0 ≤ branchProb a d := by
  unfold branchProb
  split
  · exact arReal_nonneg a
  · linarith [arReal_le_one ha]

theorem volume_pairEvent (a : AR) (ha : a.wf) (d : Bool) :
    MeasureTheory.volume (pairEvent a d) = ENNReal.ofReal (branchProb a d) := by
  unfold pairEvent branchProb
  cases a with
  | zero =>
    cases d
    · have : {u : ℝ | u ∈ Set.Ico (0:ℝ) 1 ∧ (acceptedAR AR.zero u ↔ false = true)} = Set.Ico 0 1 := by
        ext u; simp [acceptedAR]
      rw [this, Real.volume_Ico]; simp [arReal]
    · have : {u : ℝ | u ∈ Set.Ico (0:ℝ) 1 ∧ (acceptedAR AR.zero u ↔ true = true)} = ∅ := by
        ext u; simp [acceptedAR]
      rw [this]; simp [arReal]
  | one =>
    cases d
    · have : {u : ℝ | u ∈ Set.Ico (0:ℝ) 1 ∧ (acceptedAR AR.one u ↔ false = true)} = ∅ := by
        ext u; simp [acceptedAR]
      rw [this]; simp [arReal]
    · have : {u : ℝ | u ∈ Set.Ico (0:ℝ) 1 ∧ (acceptedAR AR.one u ↔ true = true)} = Set.Ico 0 1 := by
        ext u; simp [acceptedAR]
      rw [this, Real.volume_Ico]; simp [arReal]
  | exp l =>
    have h1 : arReal (AR.exp l) ≤ 1 := arReal_le_one ha
    have h0 : 0 ≤ arReal (AR.exp l) := arReal_nonneg _
    cases d
    · have : {u : ℝ | u ∈ Set.Ico (0:ℝ) 1 ∧ (acceptedAR (AR.exp l) u ↔ false = true)}
          = {u : ℝ | u ∈ Set.Ico (0:ℝ) 1 ∧ ¬ u ≤ arReal (AR.exp l)} := by
        ext u; simp [acceptedAR, arReal]
      rw [this, volume_Ico_inter_gt h0 h1]; simp
    · have : {u : ℝ | u ∈ Set.Ico (0:ℝ) 1 ∧ (acceptedAR (AR.exp l) u ↔ true = true)}
          = {u : ℝ | u ∈ Set.Ico (0:ℝ) 1 ∧ u ≤ arReal (AR.exp l)} := by
        ext u; simp [acceptedAR, arReal]
      rw [this, volume_Ico_inter_le h0 h1]; simp

/-- Independent uniforms, one per pair: the probability that pair `i` takes decision `l[i].2`
    at ratio `l[i].1`, for all `i`, is the product of the branch probabilities. -/
theorem volume_path (l : List (AR × Bool)) (hwf : ∀ x ∈ l, x.1.wf) :
    MeasureTheory.volume
        (Set.pi Set.univ fun i : Fin l.length => pairEvent l[i.val].1 l[i.val].2)
      = ENNReal.ofReal ((l.map fun x => branchProb x.1 x.2).prod) := by
  rw [MeasureTheory.volume_pi_pi]
  have h : ∀ i : Fin l.length, MeasureTheory.volume (pairEvent l[i.val].1 l[i.val].2)
      = ENNReal.ofReal (branchProb l[i.val].1 l[i.val].2) :=
    fun i => volume_pairEvent _ (hwf _ (List.getElem_mem _)) _
  simp_rw [h]
  rw [← ENNReal.ofReal_prod_of_nonneg
    (fun i _ => branchProb_nonneg (hwf _ (List.getElem_mem _)) _)]
  congr 1
  exact Fin.prod_univ_fun_getElem l (fun x => branchProb x.1 x.2)

/-- The (ratio, decision) pairs met along a decision path of the loop, hottest pair first. -/
def pathPairs (betas logls : List Rat) : Nat → SweepSt → List Bool → List (AR × Bool)
  | 0, _, _ => []
  | _+1, _, [] => []
  | tj+1, s, d :: ds =>
    (pairAR betas logls tj s.loglk, d)
      :: pathPairs betas logls tj (pairStep logls s tj (pairAR betas logls tj s.loglk) d) ds

theorem pathPairs_wf (betas logls : List Rat) : ∀ (m : Nat) (s : SweepSt) (ds : List Bool),
    ∀ x ∈ pathPairs betas logls m s ds, x.1.wf
  | 0, _, _ => by simp [pathPairs]
  | _+1, _, [] => by simp [pathPairs]
  | tj+1, s, d :: ds => by
    intro x hx
    simp only [pathPairs, List.mem_cons] at hx
    rcases hx with rfl | hx
    · exact pairAR_wf _ _ _ _
    · exact pathPairs_wf betas logls tj _ ds x hx

/-- The ratios in `pathPairs` are the ones `loopPath` records (appended to what was there). -/
theorem loopPath_ars (betas logls : List Rat) : ∀ (m : Nat) (s : SweepSt) (ds : List Bool),
    (loopPath betas logls m s ds).ars = s.ars ++ (pathPairs betas logls m s ds).map (·.1)
  | 0, _, _ => by simp [loopPath, pathPairs]
  | _+1, _, [] => by simp [loopPath, pathPairs]
  | tj+1, s, d :: ds => by
    simp only [loopPath, pathPairs, List.map_cons]
    rw [loopPath_ars betas logls tj]
    cases d <;> simp [pairStep]

/-- Probability weight of a decision path. -/
noncomputable def pathWeight (betas logls : List Rat) (m : Nat) (s : SweepSt) (ds : List Bool) : ℝ :=
  ((pathPairs betas logls m s ds).map fun x => branchProb x.1 x.2).prod

/-- The law of the loop is the sum over all `2^m` decision paths of their weights. -/
theorem loopLaw_eq_path_sum (betas logls : List Rat) (out : List Nat → ℝ) :
    ∀ (m : Nat) (s : SweepSt),
    loopLaw betas logls out m s
      = ∑ ds : Fin m → Bool, pathWeight betas logls m s (List.ofFn ds)
          * out (loopPath betas logls m s (List.ofFn ds)).idx
  | 0, s => by simp [loopLaw, pathWeight, pathPairs, loopPath]
  | tj+1, s => by
    have hcons : ∀ (b : Bool) (y : Fin tj → Bool),
        (Fin.consEquiv (fun _ : Fin (tj+1) => Bool)) (b, y) = Fin.cons b y := fun _ _ => rfl
    rw [← Equiv.sum_comp (Fin.consEquiv (fun _ : Fin (tj+1) => Bool)), Fintype.sum_prod_type,
      Fintype.sum_bool]
    simp only [hcons, List.ofFn_cons, loopLaw, pathWeight, pathPairs, loopPath,
      List.map_cons, List.prod_cons, branchProb, if_true, Bool.false_eq_true, if_false]
    rw [loopLaw_eq_path_sum betas logls out tj, loopLaw_eq_path_sum betas logls out tj,
      Finset.mul_sum, Finset.mul_sum]
    simp only [pathWeight, branchProb, mul_assoc]

theorem pathPairs_snd (betas logls : List Rat) : ∀ (m : Nat) (s : SweepSt) (ds : List Bool),
    ds.length = m → (pathPairs betas logls m s ds).map (·.2) = ds
  | 0, _, ds, h => by
    have : ds = [] := List.length_eq_zero_iff.mp h
    subst this; simp [pathPairs]
  | _+1, _, [], h => by simp at h
  | tj+1, s, d :: ds, h => by
    simp only [pathPairs, List.map_cons]
    rw [pathPairs_snd betas logls tj _ ds (by simpa using h)]

/-! ### A vector of uniforms in the event of a path makes the model's loop follow that path -/

theorem pairEvent_exp_iff (l logu : Rat) {u : ℝ} (hu : 0 < u)
    (hside : ∀ r : Rat, logu ≤ r ↔ Real.log u ≤ (r : ℝ)) (d : Bool) :
    u ∈ pairEvent (AR.exp l) d ↔ (u ∈ Set.Ico (0:ℝ) 1 ∧ d = decide (logu ≤ l)) := by
  unfold pairEvent
  simp only [Set.mem_ofPred_eq, acceptedAR]
  rw [← logspace_test hu, ← hside l]
  constructor
  · rintro ⟨h1, h⟩
    refine ⟨h1, ?_⟩
    cases d <;> simp_all
  · rintro ⟨h1, h⟩
    refine ⟨h1, ?_⟩
    cases d <;> simp_all

/-- The logs handed to the model: one per pair that draws (recorded ratio `exp l`). -/
def drawnLogs : List (AR × Bool) → List Rat → List Rat
  | (.exp _, _) :: l, x :: xs => x :: drawnLogs l xs
  | (.one, _) :: l, _ :: xs => drawnLogs l xs
  | (.zero, _) :: l, _ :: xs => drawnLogs l xs
  | _, _ => []

/-- One uniform `u` per pair lies in the pair's event; `x` is the rational handed to the model
    in place of `log u`. -/
def InEvents : List (AR × Bool) → List ℝ → List Rat → Prop
  | (a, d) :: l, u :: us, x :: xs =>
    0 < u ∧ (∀ r : Rat, x ≤ r ↔ Real.log u ≤ (r : ℝ)) ∧ u ∈ pairEvent a d ∧ InEvents l us xs
  | [], [], [] => True
  | _, _, _ => False

theorem realises_of_inEvents (betas logls : List Rat) :
    ∀ (m : Nat) (s : SweepSt) (ds : List Bool) (us : List ℝ) (xs : List Rat),
    ds.length = m → InEvents (pathPairs betas logls m s ds) us xs →
    Realises betas logls m s ds (drawnLogs (pathPairs betas logls m s ds) xs)
  | 0, s, ds, us, xs, hd, _ => by
    have : ds = [] := List.length_eq_zero_iff.mp hd
    subst this
    simp [Realises, pathPairs, drawnLogs]
  | tj+1, s, [], _, _, hd, _ => by simp at hd
  | tj+1, s, d :: ds, us, xs, hd, h => by
    simp only [pathPairs] at h ⊢
    cases us with
    | nil => simp [InEvents] at h
    | cons u us =>
      cases xs with
      | nil => simp [InEvents] at h
      | cons x xs =>
        obtain ⟨hu, hside, hev, hrest⟩ := h
        have ih := realises_of_inEvents betas logls tj _ ds us xs (by simpa using hd) hrest
        by_cases hl : pairLogAR betas logls tj s.loglk > 0
        · have hone : pairAR betas logls tj s.loglk = .one := by simp [pairAR, hl]
          rw [hone] at hev ⊢
          have hd' : d = true := by
            have := hev.2
            simpa [acceptedAR] using this
          simp only [Realises, hl, if_true, drawnLogs, hone]
          rw [hone] at ih
          exact ⟨hd', ih⟩
        · have hexp : pairAR betas logls tj s.loglk = .exp (pairLogAR betas logls tj s.loglk) := by
            simp [pairAR, hl]
          rw [hexp] at hev ⊢
          simp only [Realises, hl, if_false, drawnLogs, hexp]
          rw [hexp] at ih
          exact ⟨x, _, rfl, ((pairEvent_exp_iff _ x hu hside d).mp hev).2, ih⟩

/-! ### The law of the loop is a probability law, linear in the test function -/

theorem loopLaw_nonneg (betas logls : List Rat) {out : List Nat → ℝ} (ho : ∀ i, 0 ≤ out i) :
    ∀ (m : Nat) (s : SweepSt), 0 ≤ loopLaw betas logls out m s
  | 0, s => ho _
  | tj+1, s => by
    simp only [loopLaw]
    have h0 := arReal_nonneg (pairAR betas logls tj s.loglk)
    have h1 := arReal_le_one (pairAR_wf betas logls tj s.loglk)
    have a := loopLaw_nonneg betas logls ho tj
      (pairStep logls s tj (pairAR betas logls tj s.loglk) true)
    have b := loopLaw_nonneg betas logls ho tj
      (pairStep logls s tj (pairAR betas logls tj s.loglk) false)
    have : 0 ≤ 1 - arReal (pairAR betas logls tj s.loglk) := by linarith
    positivity

theorem loopLaw_sum {ι : Type*} (betas logls : List Rat) (F : Finset ι) (out : ι → List Nat → ℝ) :
    ∀ (m : Nat) (s : SweepSt),
    loopLaw betas logls (fun idx => ∑ i ∈ F, out i idx) m s
      = ∑ i ∈ F, loopLaw betas logls (out i) m s
  | 0, s => rfl
  | tj+1, s => by
    simp only [loopLaw]
    rw [loopLaw_sum betas logls F out tj, loopLaw_sum betas logls F out tj, Finset.mul_sum,
      Finset.mul_sum, ← Finset.sum_add_distrib]

theorem loopLaw_one (betas logls : List Rat) :
    ∀ (m : Nat) (s : SweepSt), loopLaw betas logls (fun _ => 1) m s = 1
  | 0, s => rfl
  | tj+1, s => by
    simp only [loopLaw]
    rw [loopLaw_one betas logls tj, loopLaw_one betas logls tj]; ring

end Swap
end Epsie
