/-
  Invariants of `Chain` over arbitrary operation sequences (helper lemmas for
  C06, C08, C18).
-/
import EpsieModel.PTChain
import EpsieProofs.Scratch
namespace Epsie
namespace Chain

/-- Everything that can happen to one `Chain` object. -/
inductive Op where
  | start (pos : List Val) (e : Eval)   -- start_position setter
  | step (i : StepIn)                   -- Chain.step
  | clear                               -- Chain.clear
  | grow (n : Nat)                      -- scratchlen setter
  | extend (n : Nat)                    -- the growth requested by Sampler.run(n)
  | load (s : Saved)                    -- Chain.set_state
  | rewrite (st : St)                   -- a temperature swap rewriting the last record
  | reset                               -- reset_proposals

/-- Operations the real code refuses (raise) leave the model state unchanged. -/
def apply (c : Chain) : Op → Chain
  | .start pos e => (c.setStart pos e).getD c
  | .step i => (c.step i).getD c
  | .clear => c.clear
  | .grow n => c.setScratchlen n
  | .extend n => c.extendFor n
  | .load s => c.load s
  | .rewrite st => PTChain.rewriteLast c st
  | .reset => c.resetProposals

def runOps (c : Chain) (ops : List Op) : Chain := ops.foldl apply c

@[simp] theorem runOps_nil (c : Chain) : runOps c [] = c := rfl
@[simp] theorem runOps_cons (c : Chain) (op : Op) (ops : List Op) :
    runOps c (op :: ops) = runOps (c.apply op) ops := rfl

theorem runOps_append (c : Chain) (a b : List Op) :
    runOps c (a ++ b) = runOps (runOps c a) b := by
  simp [runOps, List.foldl_append]

/-! ### Structural invariant: every retained row has been written -/

structure Inv (c : Chain) : Prop where
  lc_le : c.lastclear ≤ c.iteration
  rows : ∀ i, i < c.len → ∃ r, rowAt c.scratch i = some r

theorem len_def (c : Chain) : c.len = c.iteration - c.lastclear := rfl

/-- What a successful step does to the bookkeeping fields. -/
theorem step_fields {c c' : Chain} {i : StepIn} (h : c.step i = some c') :
    ∃ cur, c.current = some cur ∧
      c'.iteration = c.iteration + 1 ∧ c'.lastclear = c.lastclear ∧
      c'.scratch = setAt c.scratch c.len (stepRec c cur i) ∧
      c'.start = c.start ∧ c'.calls = c.calls + 1 + extraCalls c.props ∧ c'.beta = c.beta ∧
      c'.scratchlen = c.scratchlen ∧ c'.hasblobs = c.hasblobs ∧
      c'.proposed = some (jointJump cur.pos c.props i.jumps) := by
  unfold step at h
  split at h
  · simp at h
  · rename_i cur hc
    refine ⟨cur, hc, ?_⟩
    simp at h
    subst h
    simp

theorem inv_step {c c' : Chain} {i : StepIn} (hi : Inv c) (h : c.step i = some c') : Inv c' := by
  obtain ⟨cur, _, hit, hlc, hs, _⟩ := step_fields h
  have hlen : c'.len = c.len + 1 := by
    have := hi.lc_le
    simp [len_def, hit, hlc]; omega
  constructor
  · have := hi.lc_le; omega
  · intro j hj
    rw [hs]
    by_cases hjl : j = c.len
    · subst hjl; exact ⟨_, rowAt_setAt_same _ _ _⟩
    · rw [rowAt_setAt_ne _ _ _ _ hjl]
      apply hi.rows; omega

theorem len_clear (c : Chain) : c.clear.len = 0 := by
  unfold clear; split <;> simp [len_def]

theorem inv_clear {c : Chain} (_hi : Inv c) : Inv c.clear := by
  constructor
  · unfold clear; split <;> simp
  · intro j hj; rw [len_clear] at hj; omega

theorem inv_setScratchlen {c : Chain} (hi : Inv c) (n : Nat) : Inv (c.setScratchlen n) := by
  constructor
  · exact hi.lc_le
  · intro j hj
    have : (c.setScratchlen n).len = c.len := rfl
    rw [this] at hj
    show ∃ r, rowAt (growTo c.scratch n) j = some r
    rw [rowAt_growTo]; exact hi.rows j hj

theorem inv_load {c : Chain} (_hi : Inv c) (s : Saved) : Inv (c.load s) := by
  constructor
  · simp [load]
  · intro j hj
    have : (c.load s).len = 0 := by simp [load, len_def]
    omega

theorem rewriteLast_fields (c : Chain) (st : St) :
    (PTChain.rewriteLast c st).iteration = c.iteration ∧
    (PTChain.rewriteLast c st).lastclear = c.lastclear ∧
    (PTChain.rewriteLast c st).start = c.start ∧
    (PTChain.rewriteLast c st).calls = c.calls ∧
    (PTChain.rewriteLast c st).props = c.props ∧
    (PTChain.rewriteLast c st).beta = c.beta := by
  unfold PTChain.rewriteLast
  split <;> simp

theorem inv_rewriteLast {c : Chain} (hi : Inv c) (st : St) : Inv (PTChain.rewriteLast c st) := by
  obtain ⟨h1, h2, _⟩ := rewriteLast_fields c st
  constructor
  · rw [h1, h2]; exact hi.lc_le
  · intro j hj
    have hl : (PTChain.rewriteLast c st).len = c.len := by simp [len_def, h1, h2]
    rw [hl] at hj
    unfold PTChain.rewriteLast
    split
    · rename_i r hr
      show ∃ r', rowAt (setAt c.scratch (c.len - 1) { r with st := st }) j = some r'
      by_cases hjl : j = c.len - 1
      · subst hjl; exact ⟨_, rowAt_setAt_same _ _ _⟩
      · rw [rowAt_setAt_ne _ _ _ _ hjl]; exact hi.rows j hj
    · exact hi.rows j hj

theorem inv_apply {c : Chain} (hi : Inv c) (op : Op) : Inv (c.apply op) := by
  cases op with
  | start pos e =>
    simp only [apply]
    unfold setStart
    split
    · exact hi
    · exact ⟨hi.lc_le, hi.rows⟩
  | step i =>
    simp only [apply]
    cases h : c.step i with
    | none => exact hi
    | some c' => exact inv_step hi h
  | clear => exact inv_clear hi
  | grow n => exact inv_setScratchlen hi n
  | extend n => exact inv_setScratchlen hi _
  | load s => exact inv_load hi s
  | rewrite st => exact inv_rewriteLast hi st
  | reset => exact ⟨hi.lc_le, hi.rows⟩

theorem inv_runOps {c : Chain} (hi : Inv c) (ops : List Op) : Inv (runOps c ops) := by
  induction ops generalizing c with
  | nil => exact hi
  | cons op ops ih => exact ih (inv_apply hi op)

/-- A freshly constructed chain. -/
def fresh (beta : Rat) (cfgs : List PropCfg) (chainId : Nat := 0) : Chain :=
  { beta := beta, props := cfgs.map PropSt.fresh, chainId := chainId }

theorem inv_fresh (beta : Rat) (cfgs : List PropCfg) (cid : Nat) : Inv (fresh beta cfgs cid) := by
  constructor
  · simp [fresh]
  · intro j hj; simp [fresh, len_def] at hj

/-! ### Faithfulness: recorded stats and blobs are the model's outputs at the recorded position -/

/-- `st` carries exactly what the (pure) model `m` returns at `st.pos`. -/
def StFaithful (m : List Val → Eval) (st : St) : Prop :=
  (m st.pos).logl = st.logl ∧ (m st.pos).logp = some st.logp ∧ (m st.pos).blob = st.blob

structure Faithful (m : List Val → Eval) (c : Chain) : Prop where
  rows : ∀ i r, i < c.len → rowAt c.scratch i = some r → StFaithful m r.st
  start : ∀ st, c.start = some st → StFaithful m st

/-- The oracle values an operation carries are the pure model's outputs. -/
def Op.ok (m : List Val → Eval) (c : Chain) : Op → Prop
  | .start pos e => e = m pos
  | .step i => ∀ cur, c.current = some cur → i.eval = m (jointJump cur.pos c.props i.jumps)
  | .load s => StFaithful m s.current
  | .rewrite st => StFaithful m st
  | _ => True

def OkRun (m : List Val → Eval) : Chain → List Op → Prop
  | _, [] => True
  | c, op :: ops => op.ok m c ∧ OkRun m (c.apply op) ops

theorem faithful_current {m : List Val → Eval} {c : Chain} (hf : Faithful m c)
    {cur : St} (h : c.current = some cur) : StFaithful m cur := by
  unfold current at h
  split at h
  · exact hf.start cur h
  · rename_i hl
    cases hr : rowAt c.scratch (c.len - 1) with
    | none => simp [hr] at h
    | some r =>
      simp [hr] at h
      subst h
      exact hf.rows _ r (by omega) hr

theorem accepted_logp_some {beta : Rat} {cur : St} {e : Eval} {h logu : Rat}
    (ha : (decision beta cur e h).accepted logu = true) : ∃ lp, e.logp = some lp := by
  unfold decision at ha
  cases hp : e.logp with
  | none => simp [hp, Decision.accepted] at ha
  | some lp => exact ⟨lp, rfl⟩

theorem stepRec_faithful {m : List Val → Eval} {c : Chain} {cur : St} {i : StepIn}
    (hc : StFaithful m cur) (he : i.eval = m (jointJump cur.pos c.props i.jumps)) :
    StFaithful m (stepRec c cur i).st := by
  unfold stepRec
  simp only
  split
  · rename_i ha
    obtain ⟨lp, hlp⟩ := accepted_logp_some ha
    unfold StFaithful
    simp only
    rw [← he, hlp]
    simp
  · exact hc

theorem faithful_apply {m : List Val → Eval} {c : Chain} (hi : Inv c) (hf : Faithful m c)
    (op : Op) (hok : op.ok m c) : Faithful m (c.apply op) := by
  cases op with
  | start pos e =>
    simp only [apply]
    unfold setStart
    cases hp : e.logp with
    | none => simpa using hf
    | some lp =>
      simp only [Option.getD_some]
      constructor
      · intro j r hj hr; exact hf.rows j r hj hr
      · intro st hst
        simp at hst
        subst hst
        simp only [Op.ok] at hok
        subst hok
        exact ⟨rfl, hp, rfl⟩
  | step i =>
    simp only [apply]
    cases h : c.step i with
    | none => simpa using hf
    | some c' =>
      simp only [Option.getD_some]
      obtain ⟨cur, hcur, hit, hlc, hs, hst, _⟩ := step_fields h
      have hlen : c'.len = c.len + 1 := by
        have := hi.lc_le
        simp [len_def, hit, hlc]; omega
      have hcf := faithful_current hf hcur
      have hrec := stepRec_faithful (c := c) (i := i) hcf (hok cur hcur)
      constructor
      · intro j r hj hr
        rw [hs] at hr
        by_cases hjl : j = c.len
        · subst hjl
          rw [rowAt_setAt_same] at hr
          cases hr; exact hrec
        · rw [rowAt_setAt_ne _ _ _ _ hjl] at hr
          exact hf.rows j r (by omega) hr
      · intro st h'; rw [hst] at h'; exact hf.start st h'
  | clear =>
    simp only [apply]
    constructor
    · intro j r hj; rw [len_clear] at hj; omega
    · intro st hst
      unfold clear at hst
      split at hst
      · simp at hst; exact faithful_current hf hst
      · simp at hst; exact hf.start st hst
  | grow n =>
    constructor
    · intro j r hj hr
      have : rowAt (growTo c.scratch n) j = some r := hr
      rw [rowAt_growTo] at this
      exact hf.rows j r hj this
    · exact hf.start
  | extend n =>
    constructor
    · intro j r hj hr
      have : rowAt (growTo c.scratch _) j = some r := hr
      rw [rowAt_growTo] at this
      exact hf.rows j r hj this
    · exact hf.start
  | load s =>
    constructor
    · intro j r hj
      have : (c.load s).len = 0 := by simp [load, len_def]
      simp only [apply] at hj
      omega
    · intro st hst
      simp [apply, load] at hst
      subst hst; exact hok
  | rewrite st =>
    obtain ⟨h1, h2, h3, _⟩ := rewriteLast_fields c st
    have hl : (PTChain.rewriteLast c st).len = c.len := by simp [len_def, h1, h2]
    constructor
    · intro j r hj hr
      simp only [apply] at hj hr
      rw [hl] at hj
      unfold PTChain.rewriteLast at hr
      split at hr
      · rename_i r0 hr0
        have hr : rowAt (setAt c.scratch (c.len - 1) { r0 with st := st }) j = some r := hr
        by_cases hjl : j = c.len - 1
        · subst hjl
          rw [rowAt_setAt_same] at hr
          cases hr; exact hok
        · rw [rowAt_setAt_ne _ _ _ _ hjl] at hr; exact hf.rows j r hj hr
      · exact hf.rows j r hj hr
    · intro s hs; simp only [apply] at hs; rw [h3] at hs; exact hf.start s hs
  | reset => exact ⟨hf.rows, hf.start⟩

theorem faithful_runOps {m : List Val → Eval} {c : Chain} (hi : Inv c) (hf : Faithful m c)
    (ops : List Op) (hok : OkRun m c ops) : Faithful m (runOps c ops) := by
  induction ops generalizing c with
  | nil => exact hf
  | cons op ops ih =>
    exact ih (inv_apply hi op) (faithful_apply hi hf op hok.1) hok.2

theorem faithful_fresh (m : List Val → Eval) (beta : Rat) (cfgs : List PropCfg) (cid : Nat) :
    Faithful m (fresh beta cfgs cid) := by
  constructor
  · intro j r hj; simp [fresh, len_def] at hj
  · intro st h; simp [fresh] at h


/-! ### Recorded acceptance probabilities are probabilities -/

/-- Well-formedness of a symbolic acceptance probability: `exp l` only with `l ≤ 0`. -/
def _root_.Epsie.AR.wf : AR → Prop
  | .exp l => l ≤ 0
  | _ => True

def ArOK (c : Chain) : Prop := ∀ i r, rowAt c.scratch i = some r → r.acc.ar.wf

theorem decision_ar_wf (beta : Rat) (cur : St) (e : Eval) (h : Rat) :
    (decision beta cur e h).ar.wf := by
  unfold decision
  cases e.logp with
  | none => simp [Decision.ar, AR.wf]
  | some lp =>
    simp only
    split
    · simp [Decision.ar, AR.wf]
    · rename_i hl
      simp only [Decision.ar, AR.wf]
      exact Rat.not_lt.mp hl

theorem stepRec_ar_wf (c : Chain) (cur : St) (i : StepIn) : (stepRec c cur i).acc.ar.wf := by
  unfold stepRec
  simp only
  split <;> exact decision_ar_wf _ _ _ _

theorem arOK_apply {c : Chain} (h : ArOK c) (op : Op) : ArOK (c.apply op) := by
  cases op with
  | start pos e =>
    simp only [apply]; unfold setStart
    split
    · simpa using h
    · exact h
  | step i =>
    simp only [apply]
    cases hs : c.step i with
    | none => simpa using h
    | some c' =>
      obtain ⟨cur, _, _, _, hsc, _⟩ := step_fields hs
      intro j r hr
      simp only [Option.getD_some] at hr
      rw [hsc] at hr
      by_cases hj : j = c.len
      · subst hj; rw [rowAt_setAt_same] at hr; cases hr; exact stepRec_ar_wf _ _ _
      · rw [rowAt_setAt_ne _ _ _ _ hj] at hr; exact h j r hr
  | clear =>
    intro j r hr
    simp only [apply] at hr
    unfold clear at hr
    split at hr
    · simp only at hr; rw [rowAt_replicate_none] at hr; cases hr
    · exact h j r hr
  | grow n =>
    intro j r hr
    have hr : rowAt (growTo c.scratch n) j = some r := hr
    rw [rowAt_growTo] at hr; exact h j r hr
  | extend n =>
    intro j r hr
    have hr : rowAt (growTo c.scratch _) j = some r := hr
    rw [rowAt_growTo] at hr; exact h j r hr
  | load s =>
    intro j r hr
    simp only [apply, load] at hr
    unfold clear at hr
    split at hr
    · simp only at hr; rw [rowAt_replicate_none] at hr; cases hr
    · exact h j r hr
  | rewrite st =>
    intro j r hr
    simp only [apply] at hr
    unfold PTChain.rewriteLast at hr
    split at hr
    · rename_i r0 hr0
      have hr : rowAt (setAt c.scratch (c.len - 1) { r0 with st := st }) j = some r := hr
      by_cases hj : j = c.len - 1
      · subst hj; rw [rowAt_setAt_same] at hr; cases hr; exact h _ r0 hr0
      · rw [rowAt_setAt_ne _ _ _ _ hj] at hr; exact h j r hr
    · exact h j r hr
  | reset => exact h

theorem arOK_runOps {c : Chain} (h : ArOK c) (ops : List Op) : ArOK (runOps c ops) := by
  induction ops generalizing c with
  | nil => exact h
  | cons op ops ih => exact ih (arOK_apply h op)

theorem arOK_fresh (beta : Rat) (cfgs : List PropCfg) (cid : Nat) : ArOK (fresh beta cfgs cid) := by
  intro j r hr; simp [fresh, rowAt_nil] at hr

/-! ### Access paths -/

/-- The index Python's `i % len` selects for a valid (possibly negative) index. -/
def normIndex (i : Int) (len : Nat) : Nat := if i < 0 then (i + len).toNat else i.toNat

theorem pyModNat_valid (i : Int) (n : Nat) (h1 : -(n : Int) ≤ i) (h2 : i < n) :
    pyModNat i n = normIndex i n := by
  unfold pyModNat normIndex
  have hn : (0 : Int) < n := by omega
  split
  · rename_i hneg
    have : i % (n : Int) = i + n := by
      rw [← Int.add_emod_right i n]
      exact Int.emod_eq_of_lt (by omega) (by omega)
    rw [this]
  · have : i % (n : Int) = i := Int.emod_eq_of_lt (by omega) h2
    rw [this]

theorem normIndex_lt (i : Int) (n : Nat) (h1 : -(n : Int) ≤ i) (h2 : i < n) : normIndex i n < n := by
  unfold normIndex; split <;> omega

/-- `chain[i]` for every valid index is row `i mod len` of the array views. -/
theorem getitem_eq_view (c : Chain) (i : Int) (h1 : -(c.len : Int) ≤ i) (h2 : i < c.len) :
    c.getitem i = rowAt c.view (normIndex i c.len) := by
  have hpos : c.len ≠ 0 := by omega
  unfold getitem view
  simp only [hpos, if_false]
  rw [pyModNat_valid i c.len h1 h2, rowAt_take _ _ _ (normIndex_lt i c.len h1 h2)]

/-- `current_*` is the last row of the views (or the start values when nothing is retained). -/
theorem current_eq_view_last (c : Chain) (h : 0 < c.len) :
    c.current = (rowAt c.view (c.len - 1)).map (·.st) := by
  unfold current view
  have : c.len ≠ 0 := by omega
  simp only [this, if_false]
  rw [rowAt_take _ _ _ (by omega)]

theorem current_eq_start (c : Chain) (h : c.len = 0) : c.current = c.start := by
  unfold current; simp [h]

end Chain
end Epsie
