/-
  EpsieProofs.StreamsLemmas — helper lemmas for C04 (stream ownership, independence of the
  interpreter session) and C07 (pools, footprints) over `EpsieModel.Streams`.
-/
import EpsieModel.Streams
namespace Epsie.Streams


/-! ### plain proposals stay plain -/

def AllPlain (ps : List PropO) : Prop := ∀ p, p ∈ ps → p.isPlain = true

theorem mkUserProps_plain : ∀ (cfgs : List PropCfg) (st : St), (∀ c, c ∈ cfgs → c.isPlain = true) →
    AllPlain (mkUserProps cfgs st).1
  | [], _, _ => by intro p hp; simp [mkUserProps] at hp
  | c :: cs, st, h => by
    intro p hp
    simp only [mkUserProps, List.mem_cons] at hp
    rcases hp with h1 | h1
    · have hc := h c (List.mem_cons_self ..)
      cases c with
      | plain ps t => subst h1; simp [mkUserProp, PropO.isPlain]
      | nested a b d => simp [PropCfg.isPlain] at hc
    · exact mkUserProps_plain cs _ (fun c' hc' => h c' (List.mem_cons_of_mem _ hc')) p h1

theorem deepcopy_plain (p : PropO) (st : St) (h : p.isPlain = true) : (deepcopy p st).1.isPlain = true := by
  cases p with
  | plain l => simp [deepcopy, PropO.isPlain]
  | nested t => simp [PropO.isPlain] at h

theorem copyProps_plain : ∀ (ps : List PropO) (st : St), AllPlain ps → AllPlain (copyProps ps st).1
  | [], _, _ => by intro p hp; simp [copyProps] at hp
  | q :: qs, st, h => by
    intro p hp
    simp only [copyProps, List.mem_cons] at hp
    rcases hp with h1 | h1
    · subst h1; exact deepcopy_plain q st (h q (List.mem_cons_self ..))
    · exact copyProps_plain qs _ (fun p' hp' => h p' (List.mem_cons_of_mem _ hp')) p h1

theorem setProposals_plain (v : Variant) (env : Env) (params : List Param) (ups : List PropO) (st : St)
    (h : AllPlain ups) : AllPlain (setProposals v env params ups st).1 := by
  unfold setProposals
  simp only
  split
  · exact h
  · intro p hp
    rcases List.mem_append.mp hp with h1 | h1
    · exact h p h1
    · simp at h1; subst h1; rfl

/-- Every proposal is re-seated completely by a `JointProposal`: either re-seating reaches
    inside nested proposals, or there is no nested proposal. -/
def Owned (v : Variant) (ps : List PropO) : Prop := v.reseatsInner = true ∨ AllPlain ps

theorem Owned.copy {v : Variant} {ps : List PropO} (h : Owned v ps) (st : St) : Owned v (copyProps ps st).1 :=
  h.elim Or.inl (fun h' => Or.inr (copyProps_plain ps st h'))

/-! ### re-seating -/

theorem reseat_sites (v : Variant) (g : Gen) (p : PropO) (h : v.reseatsInner = true ∨ p.isPlain = true) :
    ∀ s, s ∈ (reseat v g p).sites → s.gen = some g := by
  intro s hs
  cases p with
  | plain l =>
    simp [reseat, PropO.sites, Leaf.site] at hs
    subst hs; rfl
  | nested t =>
    have hv : v.reseatsInner = true := h.elim id (fun h' => by simp [PropO.isPlain] at h')
    simp only [reseat, hv, if_true, PropO.sites, List.mem_cons] at hs
    rcases hs with h1 | h1 | h1
    · subst h1; rfl
    · subst h1; rfl
    · obtain ⟨pb, hpb, hs'⟩ := List.mem_flatMap.mp h1
      obtain ⟨pb0, _, rfl⟩ := List.mem_map.mp hpb
      simp [innerSites, Leaf.site] at hs'
      rcases hs' with h2 | h2 <;> (subst h2; rfl)

theorem mkJoint_spec {v : Variant} {env : Env} {arg : GenArg} {props : List PropO} {st st' : St} {j : JointO}
    (h : mkJoint v env arg props st = some (j, st')) :
    j.gen = (seat arg st).1 ∧ j.props = props.map (reseat v j.gen) ∧ st' = (seat arg st).2 := by
  unfold mkJoint at h
  split at h
  · simp at h
  · simp only [Option.some.injEq, Prod.mk.injEq] at h
    obtain ⟨h1, h2⟩ := h
    subst h1
    exact ⟨rfl, rfl, h2.symm⟩

theorem mkChain_sites {v : Variant} {env : Env} {g : Gen} {props : List PropO} {st st' : St} {c : ChainO}
    (h : mkChain v env (.inst g) props st = some (c, st')) (ho : Owned v props) :
    c.joint.gen = g ∧ ∀ s, s ∈ c.sites → s.gen = some g := by
  unfold mkChain at h
  cases hj : mkJoint v env (.inst g) props st with
  | none => simp [hj] at h
  | some r =>
    obtain ⟨j, st1⟩ := r
    simp only [hj, Option.map_some, Option.some.injEq, Prod.mk.injEq] at h
    obtain ⟨h1, _⟩ := h
    subst h1
    obtain ⟨hg, hp, _⟩ := mkJoint_spec hj
    have hg' : j.gen = g := by rw [hg]; rfl
    refine ⟨hg', ?_⟩
    intro s hs
    simp only [ChainO.sites, List.mem_cons] at hs
    rcases hs with h1 | h1
    · subst h1; simp [hg']
    · obtain ⟨p, hp', hs'⟩ := List.mem_flatMap.mp h1
      rw [hp] at hp'
      obtain ⟨p0, hp0, rfl⟩ := List.mem_map.mp hp'
      rw [← hg']
      exact reseat_sites v j.gen p0 (ho.elim Or.inl (fun ha => Or.inr (ha p0 hp0))) s hs'

theorem mkLevels_sites {v : Variant} {env : Env} {g : Gen} {props : List PropO} (ho : Owned v props) :
    ∀ (n : Nat) (st st' : St) (ls : List ChainO), mkLevels v env g props n st = some (ls, st') →
      ls.length = n ∧ ∀ l, l ∈ ls → l.joint.gen = g ∧ ∀ s, s ∈ l.sites → s.gen = some g
  | 0, st, st', ls, h => by
    simp only [mkLevels, Option.some.injEq, Prod.mk.injEq] at h
    obtain ⟨h1, _⟩ := h
    subst h1
    exact ⟨rfl, fun l hl => by simp at hl⟩
  | n + 1, st, st', ls, h => by
    unfold mkLevels at h
    simp only at h
    cases hc : mkChain v env (.inst g) (copyProps props st).1 (copyProps props st).2 with
    | none => simp [hc] at h
    | some c =>
      simp only [hc] at h
      cases hr : mkLevels v env g props n c.2 with
      | none => simp [hr] at h
      | some r =>
        simp only [hr, Option.some.injEq, Prod.mk.injEq] at h
        obtain ⟨h1, _⟩ := h
        subst h1
        obtain ⟨ih1, ih2⟩ := mkLevels_sites ho n c.2 r.2 r.1 (by rw [hr])
        refine ⟨by simp [ih1], ?_⟩
        intro l hl
        rcases List.mem_cons.mp hl with h2 | h2
        · subst h2
          exact mkChain_sites (c := c.1) (st' := c.2) (by rw [hc]) (ho.copy st)
        · exact ih2 l h2

theorem mkAnyChain_sites {v : Variant} {env : Env} {kind : Kind} {props : List PropO} {ann : Option Nat}
    {g : Gen} {st st' : St} {c : AnyChain}
    (h : mkAnyChain v env kind props ann g st = some (c, st')) (ho : Owned v props) :
    c.gen = g ∧ ∀ s, s ∈ c.sites → s.gen = some g := by
  unfold mkAnyChain at h
  cases kind with
  | mh =>
    simp only at h
    cases hc : mkChain v env (.inst g) (copyProps props st).1 (copyProps props st).2 with
    | none => simp [hc] at h
    | some r =>
      simp only [hc, Option.map_some, Option.some.injEq, Prod.mk.injEq] at h
      obtain ⟨h1, _⟩ := h
      subst h1
      exact mkChain_sites (c := r.1) (st' := r.2) (by rw [hc]) (ho.copy st)
  | pt ntemps a =>
    simp only at h
    generalize annealerFor v ann (copyProps props st).2 = aa at h
    unfold mkPTChain at h
    split at h
    · simp at h
    · cases hl : mkLevels v env g (copyProps props st).1 ntemps aa.2 with
      | none => simp [hl] at h
      | some r =>
        simp only [hl, Option.map_some, Option.some.injEq, Prod.mk.injEq] at h
        obtain ⟨h1, _⟩ := h
        subst h1
        obtain ⟨_, hall⟩ := mkLevels_sites (ho.copy st) ntemps aa.2 r.2 r.1 (by rw [hl])
        refine ⟨rfl, ?_⟩
        intro s hs
        simp only [AnyChain.sites, PTChainO.sites, List.mem_append] at hs
        rcases hs with h2 | h2
        · cases hr : r.1 with
          | nil => simp [hr] at h2
          | cons l ls =>
            simp only [hr, List.mem_singleton] at h2
            subst h2
            have := (hall l (by rw [hr]; exact List.mem_cons_self ..)).1
            simp [this]
        · obtain ⟨l, hl', hs'⟩ := List.mem_flatMap.mp h2
          exact (hall l hl').2 s hs'

theorem mkChains_getElem? {v : Variant} {env : Env} {kind : Kind} {props : List PropO} {ann : Option Nat} :
    ∀ (gens : List Gen) (st st' : St) (cs : List AnyChain),
      mkChains v env kind props ann gens st = some (cs, st') →
      ∀ (i : Nat) (c : AnyChain), cs[i]? = some c →
        ∃ g s1 s2, gens[i]? = some g ∧ mkAnyChain v env kind props ann g s1 = some (c, s2)
  | [], st, st', cs, h, i, c, hc => by
    simp only [mkChains, Option.some.injEq, Prod.mk.injEq] at h
    obtain ⟨h1, _⟩ := h
    subst h1
    simp at hc
  | g :: gs, st, st', cs, h, i, c, hc => by
    unfold mkChains at h
    cases hm : mkAnyChain v env kind props ann g st with
    | none => simp [hm] at h
    | some c0 =>
      simp only [hm] at h
      cases hr : mkChains v env kind props ann gs c0.2 with
      | none => simp [hr] at h
      | some r =>
        simp only [hr, Option.some.injEq, Prod.mk.injEq] at h
        obtain ⟨h1, _⟩ := h
        subst h1
        cases i with
        | zero =>
          simp only [List.getElem?_cons_zero, Option.some.injEq] at hc
          subst hc
          exact ⟨g, st, c0.2, rfl, by rw [hm]⟩
        | succ k =>
          simp only [List.getElem?_cons_succ] at hc
          obtain ⟨g', s1, s2, hg, hmk⟩ := mkChains_getElem? gs c0.2 r.2 r.1 (by rw [hr]) k c hc
          exact ⟨g', s1, s2, by simpa using hg, hmk⟩

theorem spawnGens_getElem? (root : Root) (base : Nat) : ∀ (n i k : Nat) (g : Gen),
    (spawnGens root base i n)[k]? = some g → g = ⟨base + (i + k), .spawn root (i + k)⟩
  | 0, i, k, g, h => by simp [spawnGens] at h
  | n + 1, i, 0, g, h => by
    simp only [spawnGens, List.getElem?_cons_zero, Option.some.injEq] at h
    subst h; rfl
  | n + 1, i, k + 1, g, h => by
    simp only [spawnGens, List.getElem?_cons_succ] at h
    have := spawnGens_getElem? root base n (i + 1) k g h
    rw [this]
    have e : i + 1 + k = i + (k + 1) := by omega
    rw [e]

theorem buildSt_inv {v : Variant} {cfg : Cfg} {env : Env} {s : SamplerO} {st' : St}
    (h : buildSt v cfg env = some (s, st')) :
    1 ≤ cfg.nchains ∧
    mkChains v env cfg.kind (prepare v cfg env).1 (prepare v cfg env).2.1
      (spawnGens (rootOf v cfg env) (genBase v cfg env) 0 cfg.nchains)
      ⟨genBase v cfg env + cfg.nchains, (seedRoot cfg.seed (prepare v cfg env).2.2).2.ent⟩ =
      some (s.chains, st') := by
  unfold buildSt at h
  simp only at h
  split at h
  · simp at h
  · rename_i hn
    refine ⟨by omega, ?_⟩
    simp only [rootOf, genBase]
    cases hm : mkChains v env cfg.kind (prepare v cfg env).1 (prepare v cfg env).2.1
      (spawnGens (seedRoot cfg.seed (prepare v cfg env).2.2).1 (seedRoot cfg.seed (prepare v cfg env).2.2).2.next 0 cfg.nchains)
      ⟨(seedRoot cfg.seed (prepare v cfg env).2.2).2.next + cfg.nchains,
        (seedRoot cfg.seed (prepare v cfg env).2.2).2.ent⟩ with
    | none => simp [hm] at h
    | some r =>
      obtain ⟨cs, st1⟩ := r
      simp only [hm, Option.map_some, Option.some.injEq, Prod.mk.injEq] at h
      obtain ⟨h1, h2⟩ := h
      subst h1
      subst h2
      rfl

theorem prepare_owned (v : Variant) (cfg : Cfg) (env : Env)
    (ho : v.reseatsInner = true ∨ ∀ c, c ∈ cfg.props → c.isPlain = true) : Owned v (prepare v cfg env).1 := by
  rcases ho with h | h
  · exact Or.inl h
  · right
    unfold prepare
    exact setProposals_plain _ _ _ _ _ (mkUserProps_plain _ _ h)

/-- In a built sampler chain `i` holds the generator spawned with key `(i,)`, and every
    draw site reachable from chain `i` draws from that generator object. -/
theorem chain_owns {v : Variant} {cfg : Cfg} {env : Env} {s : SamplerO} (h : build v cfg env = some s)
    (ho : v.reseatsInner = true ∨ ∀ c, c ∈ cfg.props → c.isPlain = true) :
    ∀ (i : Nat) (c : AnyChain), s.chains[i]? = some c →
      c.gen = ⟨genBase v cfg env + i, .spawn (rootOf v cfg env) i⟩ ∧
      ∀ x : Site, x ∈ c.sites → x.gen = some c.gen := by
  unfold build at h
  cases hb : buildSt v cfg env with
  | none => simp [hb] at h
  | some r =>
    obtain ⟨s0, st'⟩ := r
    simp only [hb, Option.map_some, Option.some.injEq] at h
    subst h
    obtain ⟨_, hm⟩ := buildSt_inv hb
    intro i c hc
    obtain ⟨g, s1, s2, hg, hmk⟩ := mkChains_getElem? _ _ _ _ hm i c hc
    have hgi := spawnGens_getElem? _ _ _ _ _ _ hg
    obtain ⟨h1, h2⟩ := mkAnyChain_sites hmk (prepare_owned v cfg env ho)
    simp only [Nat.zero_add] at hgi
    rw [h1, hgi]
    refine ⟨rfl, ?_⟩
    intro x hx
    rw [h2 x hx, hgi]



/-! ### pools -/

theorem runChunk_cons {V} (S : Sys V) (h : Heap V) (j : Nat) (rest : List Nat) :
    runChunk S h (j :: rest) = runChunk S (S.step j h) rest := rfl

theorem runChunk_spec {V} (S : Sys V) (hf : S.Framed) (hd : S.Disjoint) :
    ∀ (chunk : List Nat) (h : Heap V), chunk.Nodup → (∀ j, j ∈ chunk → j < S.n) →
      ∀ i, i < S.n → ∀ l, l ∈ S.fp i →
        (i ∈ chunk → runChunk S h chunk l = S.step i h l) ∧
        (i ∉ chunk → runChunk S h chunk l = h l) := by
  intro chunk
  induction chunk with
  | nil => intro h _ _ i _ l _; exact ⟨fun hm => absurd hm (by simp), fun _ => rfl⟩
  | cons j rest ih =>
    intro h hnd hlt i hi l hl
    have hnd' : rest.Nodup := (List.nodup_cons.mp hnd).2
    have hj : j ∉ rest := (List.nodup_cons.mp hnd).1
    have hlt' : ∀ k, k ∈ rest → k < S.n := fun k hk => hlt k (List.mem_cons_of_mem _ hk)
    have hjn : j < S.n := hlt j (List.mem_cons_self ..)
    have ih' := ih (S.step j h) hnd' hlt' i hi l hl
    rw [runChunk_cons]
    by_cases hij : i = j
    · subst hij
      refine ⟨fun _ => ih'.2 hj, fun hn => absurd (List.mem_cons_self ..) hn⟩
    · -- chain j does not touch the objects of chain i
      have hagree : ∀ l', l' ∈ S.fp i → S.step j h l' = h l' := fun l' hl' =>
        (hf j).1 h l' (hd i j hi hjn hij l' hl')
      constructor
      · intro hm
        have hm' : i ∈ rest := by
          rcases List.mem_cons.mp hm with h1 | h1
          · exact absurd h1 hij
          · exact h1
        rw [ih'.1 hm']
        exact (hf i).2 _ _ hagree l hl
      · intro hn
        have hn' : i ∉ rest := fun h1 => hn (List.mem_cons_of_mem _ h1)
        rw [ih'.2 hn', hagree l hl]

theorem chunkOf_cons_pos (c : List Nat) (cs : Pool) (i : Nat) (h : i ∈ c) : chunkOf (c :: cs) i = c := by
  simp [chunkOf, h]

theorem chunkOf_cons_neg (c : List Nat) (cs : Pool) (i : Nat) (h : i ∉ c) : chunkOf (c :: cs) i = chunkOf cs i := by
  simp [chunkOf, h]

theorem chunkOf_nil_or_mem (p : Pool) (i : Nat) : chunkOf p i = [] ∨ chunkOf p i ∈ p := by
  induction p with
  | nil => left; rfl
  | cons c cs ih =>
    by_cases h : i ∈ c
    · rw [chunkOf_cons_pos c cs i h]; right; exact List.mem_cons_self ..
    · rw [chunkOf_cons_neg c cs i h]
      rcases ih with h1 | h1
      · left; exact h1
      · right; exact List.mem_cons_of_mem _ h1

theorem mem_chunkOf (p : Pool) (i : Nat) (h : ∃ c, c ∈ p ∧ i ∈ c) : i ∈ chunkOf p i := by
  induction p with
  | nil => obtain ⟨c, hc, _⟩ := h; simp at hc
  | cons c cs ih =>
    by_cases hc : i ∈ c
    · rw [chunkOf_cons_pos c cs i hc]; exact hc
    · rw [chunkOf_cons_neg c cs i hc]
      obtain ⟨c', hc', hi⟩ := h
      rcases List.mem_cons.mp hc' with h1 | h1
      · subst h1; exact absurd hi hc
      · exact ih ⟨c', h1, hi⟩

theorem sublist_flatten_of_mem (p : Pool) (c : List Nat) (h : c ∈ p) : c.Sublist (p.flatMap id) := by
  induction p with
  | nil => simp at h
  | cons d ds ih =>
    simp only [List.flatMap_cons, id]
    rcases List.mem_cons.mp h with h1 | h1
    · subst h1; exact List.sublist_append_left ..
    · exact (ih h1).trans (List.sublist_append_right ..)

theorem chunkOf_facts (p : Pool) (n : Nat) (hp : p.ValidFor n) (i : Nat) (hi : i < n) :
    i ∈ chunkOf p i ∧ (chunkOf p i).Nodup ∧ ∀ j, j ∈ chunkOf p i → j < n := by
  have hnd : (p.flatMap id).Nodup := (List.Perm.nodup_iff hp).mpr List.nodup_range
  have hmem : ∀ j, j ∈ p.flatMap id ↔ j < n := fun j => by
    rw [List.Perm.mem_iff hp]; exact List.mem_range
  have hi' : i ∈ p.flatMap id := (hmem i).mpr hi
  obtain ⟨c, hc, hic⟩ := List.mem_flatMap.mp hi'
  have h1 : i ∈ chunkOf p i := mem_chunkOf p i ⟨c, hc, hic⟩
  rcases chunkOf_nil_or_mem p i with h0 | h0
  · rw [h0] at h1; simp at h1
  · have hs := sublist_flatten_of_mem p _ h0
    exact ⟨h1, hnd.sublist hs, fun j hj => (hmem j).mp (hs.subset hj)⟩

theorem serial_valid (n : Nat) : (Pool.serial n).ValidFor n := by
  simp [Pool.serial, Pool.ValidFor]

theorem copying_valid (n : Nat) : (Pool.copying n).ValidFor n := by
  unfold Pool.copying Pool.ValidFor
  have : ((List.range n).map (fun i => [i])).flatMap id = List.range n := by
    induction (List.range n) with
    | nil => rfl
    | cons a l ih => simp [List.flatMap_cons, ih]
  rw [this]

theorem permuted_valid (π : List Nat) (n : Nat) (h : π.Perm (List.range n)) : (Pool.permuted π).ValidFor n := by
  simpa [Pool.permuted, Pool.ValidFor] using h

/-- With disjoint footprints, what `map` hands back for chain `i` is chain `i` evolved on
    its own from the initial objects. -/
theorem result_eq_step {V} (S : Sys V) (hf : S.Framed) (hd : S.Disjoint) (p : Pool) (hp : p.ValidFor S.n)
    (h0 : Heap V) (i : Nat) (hi : i < S.n) (l : Nat) (hl : l ∈ S.fp i) :
    result S p h0 i l = S.step i h0 l := by
  obtain ⟨h1, h2, h3⟩ := chunkOf_facts p S.n hp i hi
  exact ((runChunk_spec S hf hd _ h0 h2 h3 i hi l hl).1 h1)

theorem ownerOf_some {V} (S : Sys V) (l i : Nat) (h : ownerOf S l = some i) : i < S.n ∧ l ∈ S.fp i := by
  unfold ownerOf at h
  have h1 := List.mem_of_find?_eq_some h
  have h2 := List.find?_some h
  exact ⟨List.mem_range.mp h1, by simpa using h2⟩

theorem runPool_eq {V} (S : Sys V) (hf : S.Framed) (hd : S.Disjoint) (p q : Pool)
    (hp : p.ValidFor S.n) (hq : q.ValidFor S.n) (h0 : Heap V) : runPool S p h0 = runPool S q h0 := by
  funext l
  unfold runPool
  cases ho : ownerOf S l with
  | none => rfl
  | some i =>
    obtain ⟨hi, hl⟩ := ownerOf_some S l i ho
    simp only
    rw [result_eq_step S hf hd p hp h0 i hi l hl, result_eq_step S hf hd q hq h0 i hi l hl]

/-! ### `Shared = ∅` is disjointness of the footprints -/

theorem sharedIds_nil_pairwise : ∀ (fps : List (List Nat)), sharedIds fps = [] →
    fps.Pairwise (fun a b => ∀ l, l ∈ a → l ∉ b)
  | [], _ => List.Pairwise.nil
  | fp :: rest, h => by
    unfold sharedIds at h
    obtain ⟨h1, h2⟩ := List.append_eq_nil_iff.mp h
    refine List.Pairwise.cons ?_ (sharedIds_nil_pairwise rest h2)
    intro b hb l hl hlb
    have := (List.filter_eq_nil_iff.mp h1) l hl
    apply this
    simp only [List.any_eq_true]
    exact ⟨b, hb, by simpa using hlb⟩

theorem pairwise_sharedIds_nil : ∀ (fps : List (List Nat)),
    fps.Pairwise (fun a b => ∀ l, l ∈ a → l ∉ b) → sharedIds fps = []
  | [], _ => rfl
  | fp :: rest, h => by
    obtain ⟨h1, h2⟩ := List.pairwise_cons.mp h
    unfold sharedIds
    rw [pairwise_sharedIds_nil rest h2, List.append_nil, List.filter_eq_nil_iff]
    intro l hl hany
    simp only [List.any_eq_true] at hany
    obtain ⟨b, hb, hlb⟩ := hany
    exact h1 b hb l hl (by simpa using hlb)

theorem disjoint_of_shared_nil {V} (S : Sys V) (h : S.shared = []) : S.Disjoint := by
  have hp := sharedIds_nil_pairwise _ h
  rw [List.pairwise_iff_getElem] at hp
  have key : ∀ i j, i < S.n → j < S.n → i < j → ∀ l, l ∈ S.fp i → l ∉ S.fp j := by
    intro i j hi hj hij l hl
    have := hp i j (by simpa using hi) (by simpa using hj) hij l
    simp only [List.getElem_map, List.getElem_range] at this
    exact this hl
  intro i j hi hj hne l hl hl'
  rcases Nat.lt_or_gt_of_ne hne with h1 | h1
  · exact key i j hi hj h1 l hl hl'
  · exact key j i hj hi h1 l hl' hl

theorem shared_nil_of_disjoint {V} (S : Sys V) (h : S.Disjoint) : S.shared = [] := by
  apply pairwise_sharedIds_nil
  rw [List.pairwise_iff_getElem]
  intro i j hi hj hij l hl
  simp only [List.getElem_map, List.getElem_range] at hl ⊢
  simp only [List.length_map, List.length_range] at hi hj
  exact h i j hi hj (Nat.ne_of_lt hij) l hl




/-! ### the session enters a construction only through the order of the default parameters -/

theorem hasRepeated_env (env env' : Env) (hv : env.Valid) (hv' : env'.Valid) (all : List Param) :
    hasRepeated env all = hasRepeated env' all := by
  unfold hasRepeated
  have hp : (env.setOrder (dedup all)).Perm (env'.setOrder (dedup all)) := (hv _).trans (hv' _).symm
  have hl := (hp.filter (fun p => decide (1 < all.count p))).length_eq
  congr 1
  rw [Bool.eq_iff_iff, List.isEmpty_iff_length_eq_zero, List.isEmpty_iff_length_eq_zero, hl]

section
variable {env env' : Env} (hrep : ∀ l, hasRepeated env l = hasRepeated env' l)
include hrep

theorem mkJoint_env (v : Variant) (arg : GenArg) (props : List PropO) (st : St) :
    mkJoint v env arg props st = mkJoint v env' arg props st := by
  unfold mkJoint; rw [hrep]

theorem mkChain_env (v : Variant) (arg : GenArg) (props : List PropO) (st : St) :
    mkChain v env arg props st = mkChain v env' arg props st := by
  unfold mkChain; rw [mkJoint_env hrep]

theorem mkLevels_env (v : Variant) (g : Gen) (props : List PropO) : ∀ (n : Nat) (st : St),
    mkLevels v env g props n st = mkLevels v env' g props n st
  | 0, _ => rfl
  | n + 1, st => by
    unfold mkLevels
    simp only [mkChain_env hrep]
    cases mkChain v env' (.inst g) (copyProps props st).1 (copyProps props st).2 with
    | none => rfl
    | some c => simp only [mkLevels_env v g props n c.2]

theorem mkPTChain_env (v : Variant) (g : Gen) (props : List PropO) (n : Nat) (a : Option Nat) (st : St) :
    mkPTChain v env g props n a st = mkPTChain v env' g props n a st := by
  unfold mkPTChain; rw [mkLevels_env hrep]

theorem mkAnyChain_env (v : Variant) (kind : Kind) (props : List PropO) (ann : Option Nat) (g : Gen) (st : St) :
    mkAnyChain v env kind props ann g st = mkAnyChain v env' kind props ann g st := by
  unfold mkAnyChain
  cases kind with
  | mh => simp only [mkChain_env hrep]
  | pt n a => simp only [mkPTChain_env hrep]

theorem mkChains_env (v : Variant) (kind : Kind) (props : List PropO) (ann : Option Nat) :
    ∀ (gens : List Gen) (st : St), mkChains v env kind props ann gens st = mkChains v env' kind props ann gens st
  | [], _ => rfl
  | g :: gs, st => by
    unfold mkChains
    rw [mkAnyChain_env hrep]
    cases mkAnyChain v env' kind props ann g st with
    | none => rfl
    | some c => simp only [mkChains_env v kind props ann gs c.2]

end

theorem perm_short_eq {l m : List Param} (h : l.Perm m) (hm : m.length ≤ 1) : l = m := by
  match m, hm with
  | [], _ => exact List.perm_nil.mp h
  | [a], _ => exact List.perm_singleton.mp h

theorem defaultParams_env (v : Variant) (env env' : Env) (hv : env.Valid) (hv' : env'.Valid) (missing : List Param)
    (h : v.defaultOrder ≠ .hashSet ∨ missing.length ≤ 1) :
    defaultParams v env missing = defaultParams v env' missing := by
  unfold defaultParams
  cases hd : v.defaultOrder with
  | hashSet =>
    rcases h with h | h
    · exact absurd hd h
    · simp only
      rw [perm_short_eq (hv missing) h, perm_short_eq (hv' missing) h]
  | asGiven => rfl
  | sorted => rfl

/-! the parameters covered by the user's proposals are those written in the configuration -/

theorem mkInnerLeaves_params : ∀ (inner : List (List Param)) (st : St),
    (mkInnerLeaves inner st).1.flatMap (fun pb => pb.1.params) = inner.flatMap id
  | [], _ => rfl
  | ps :: rest, st => by
    unfold mkInnerLeaves
    simp only [List.flatMap_cons, id]
    rw [mkInnerLeaves_params rest]
    unfold mkLeaf
    simp

theorem mkUserProp_params (c : PropCfg) (st : St) : (mkUserProp c st).1.params = c.params := by
  cases c with
  | plain ps t =>
    simp only [mkUserProp, PropO.params, mkLeaf, PropCfg.params]
    split <;> rfl
  | nested ga ix inner =>
    simp only [mkUserProp, PropO.params, Nested.params, mkNested, PropCfg.params]
    rw [List.flatMap_map]
    simp only
    rw [mkInnerLeaves_params]
    simp [mkLeaf]

theorem mkUserProps_params : ∀ (cfgs : List PropCfg) (st : St),
    (mkUserProps cfgs st).1.flatMap PropO.params = givenOf cfgs
  | [], _ => rfl
  | c :: cs, st => by
    simp only [mkUserProps, givenOf, List.flatMap_cons]
    rw [mkUserProp_params c st]
    have := mkUserProps_params cs (mkUserProp c st).2
    unfold givenOf at this
    rw [this]

theorem prepare_env (v : Variant) (cfg : Cfg) (env env' : Env) (hv : env.Valid) (hv' : env'.Valid)
    (h : v.defaultOrder ≠ .hashSet ∨ cfg.missing.length ≤ 1) : prepare v cfg env = prepare v cfg env' := by
  unfold prepare setProposals
  simp only [mkUserProps_params]
  have : defaultParams v env (missingOf cfg.params (givenOf cfg.props)) =
      defaultParams v env' (missingOf cfg.params (givenOf cfg.props)) :=
    defaultParams_env v env env' hv hv' _ h
  rw [this]

theorem build_env (v : Variant) (cfg : Cfg) (env env' : Env) (hv : env.Valid) (hv' : env'.Valid)
    (h : v.defaultOrder ≠ .hashSet ∨ cfg.missing.length ≤ 1) : build v cfg env = build v cfg env' := by
  unfold build buildSt
  simp only [prepare_env v cfg env env' hv hv' h]
  rw [mkChains_env (fun l => hasRepeated_env env env' hv hv' l)]

theorem rootOf_seed (v : Variant) (cfg : Cfg) (env : Env) (sd : Nat) (h : cfg.seed = some sd) :
    rootOf v cfg env = .seed sd := by
  simp [rootOf, h, seedRoot]

/-- With a seed given, complete re-seating and at most one defaulted parameter (or an
    ordered default), no observable of the built sampler depends on the session. -/
theorem obs_env (v : Variant) (cfg : Cfg) (env env' : Env) (hv : env.Valid) (hv' : env'.Valid)
    (sd : Nat) (hseed : cfg.seed = some sd)
    (ho : v.reseatsInner = true ∨ ∀ c, c ∈ cfg.props → c.isPlain = true)
    (hd : v.defaultOrder ≠ .hashSet ∨ cfg.missing.length ≤ 1) :
    obs v cfg env = obs v cfg env' := by
  unfold obs
  rw [← build_env v cfg env env' hv hv' hd]
  cases hb : build v cfg env with
  | none => rfl
  | some s =>
    simp only [Option.map_some, Option.some.injEq]
    unfold observe
    apply List.map_congr_left
    intro c hc
    obtain ⟨i, hi⟩ := List.getElem?_of_mem hc
    obtain ⟨hg, hs⟩ := chain_owns hb ho i c hi
    apply List.map_congr_left
    intro x hx
    have hx' := hs x hx
    rw [hg, rootOf_seed v cfg env sd hseed] at hx'
    simp [Site.observe, hx', Env.resolve, Env.root]




/-! ### fresh identities: what a deep copy allocates lies in its own block -/

def Within (lo hi : Nat) (ids : List Nat) : Prop := ∀ n, n ∈ ids → lo ≤ n ∧ n < hi

theorem Within.mono {lo hi lo' hi' : Nat} {ids : List Nat} (h : Within lo hi ids) (h1 : lo' ≤ lo) (h2 : hi ≤ hi') :
    Within lo' hi' ids := fun n hn => ⟨Nat.le_trans h1 (h n hn).1, Nat.lt_of_lt_of_le (h n hn).2 h2⟩

theorem Within.append {lo hi : Nat} {a b : List Nat} (ha : Within lo hi a) (hb : Within lo hi b) :
    Within lo hi (a ++ b) := fun n hn => (List.mem_append.mp hn).elim (ha n) (hb n)

def MemoIn (lo hi : Nat) (m : Memo) : Prop := ∀ k g, memoFind m k = some g → lo ≤ g.id ∧ g.id < hi

theorem MemoIn.mono {lo hi hi' : Nat} {m : Memo} (h : MemoIn lo hi m) (h2 : hi ≤ hi') : MemoIn lo hi' m :=
  fun k g hk => ⟨(h k g hk).1, Nat.lt_of_lt_of_le (h k g hk).2 h2⟩

theorem memoIn_nil (lo hi : Nat) : MemoIn lo hi [] := fun k g h => by simp [memoFind] at h

theorem copyGen_spec (lo : Nat) (g : Gen) (m : Memo) (st : St) (hlo : lo ≤ st.next) (hm : MemoIn lo st.next m) :
    st.next ≤ (copyGen g m st).2.2.next ∧ MemoIn lo (copyGen g m st).2.2.next (copyGen g m st).2.1 ∧
    (lo ≤ (copyGen g m st).1.id ∧ (copyGen g m st).1.id < (copyGen g m st).2.2.next) := by
  unfold copyGen
  cases hf : memoFind m g.id with
  | some g' => exact ⟨Nat.le_refl _, hm, hm _ _ hf⟩
  | none =>
    simp only [St.bump]
    refine ⟨Nat.le_succ _, ?_, hlo, Nat.lt_succ_self _⟩
    intro k g' hk
    simp only [memoFind] at hk
    split at hk
    · simp only [Option.some.injEq] at hk
      subst hk
      exact ⟨hlo, Nat.lt_succ_self _⟩
    · exact (hm.mono (Nat.le_succ _)) k g' hk

theorem copyLeaf_spec (lo : Nat) (l : Leaf) (m : Memo) (st : St) (hlo : lo ≤ st.next) (hm : MemoIn lo st.next m) :
    st.next ≤ (copyLeaf l m st).2.2.next ∧ MemoIn lo (copyLeaf l m st).2.2.next (copyLeaf l m st).2.1 ∧
    Within lo (copyLeaf l m st).2.2.next (copyLeaf l m st).1.ids := by
  unfold copyLeaf copyOptGen
  cases hg : l.gen with
  | none =>
    simp only [St.bump, Leaf.ids]
    refine ⟨Nat.le_succ _, hm.mono (Nat.le_succ _), ?_⟩
    intro n hn
    simp at hn
    subst hn
    exact ⟨hlo, Nat.lt_succ_self _⟩
  | some g =>
    obtain ⟨h1, h2, h3, h4⟩ := copyGen_spec lo g m st hlo hm
    simp only [St.bump, Leaf.ids]
    refine ⟨Nat.le_trans h1 (Nat.le_succ _), h2.mono (Nat.le_succ _), ?_⟩
    intro n hn
    simp at hn
    rcases hn with hn | hn
    · subst hn; exact ⟨Nat.le_trans hlo h1, Nat.lt_succ_self _⟩
    · subst hn; exact ⟨h3, Nat.lt_trans h4 (Nat.lt_succ_self _)⟩

theorem copyInner_spec (lo : Nat) : ∀ (inner : List (Leaf × Leaf)) (m : Memo) (st : St), lo ≤ st.next →
    MemoIn lo st.next m →
    st.next ≤ (copyInner inner m st).2.2.next ∧ MemoIn lo (copyInner inner m st).2.2.next (copyInner inner m st).2.1 ∧
    Within lo (copyInner inner m st).2.2.next ((copyInner inner m st).1.flatMap innerIds)
  | [], m, st, _, hm => ⟨Nat.le_refl _, hm, fun n hn => by simp [copyInner] at hn⟩
  | pb :: rest, m, st, hlo, hm => by
    unfold copyInner
    simp only
    obtain ⟨p1, p2, p3⟩ := copyLeaf_spec lo pb.1 m st hlo hm
    obtain ⟨b1, b2, b3⟩ := copyLeaf_spec lo pb.2 _ _ (Nat.le_trans hlo p1) p2
    obtain ⟨r1, r2, r3⟩ := copyInner_spec lo rest _ _ (Nat.le_trans hlo (Nat.le_trans p1 b1)) b2
    refine ⟨Nat.le_trans p1 (Nat.le_trans b1 r1), r2, ?_⟩
    simp only [List.flatMap_cons, innerIds]
    exact ((p3.mono (Nat.le_refl _) (Nat.le_trans b1 r1)).append (b3.mono (Nat.le_refl _) r1)).append r3

theorem copyNested_spec (lo : Nat) (t : Nested) (m : Memo) (st : St) (hlo : lo ≤ st.next) (hm : MemoIn lo st.next m) :
    st.next ≤ (copyNested t m st).2.2.next ∧
    Within lo (copyNested t m st).2.2.next (copyNested t m st).1.ids := by
  unfold copyNested
  simp only
  have hb : st.next ≤ st.bump.next := Nat.le_succ _
  obtain ⟨g1, g2, g3, g4⟩ := copyGen_spec lo t.gen m st.bump (Nat.le_trans hlo hb) (hm.mono hb)
  obtain ⟨i1, i2, i3⟩ := copyLeaf_spec lo t.index _ _ (Nat.le_trans hlo (Nat.le_trans hb g1)) g2
  obtain ⟨r1, _, r3⟩ := copyInner_spec lo t.inner _ _ (Nat.le_trans hlo (Nat.le_trans hb (Nat.le_trans g1 i1))) i2
  have htot : st.next + 1 ≤ (copyInner t.inner (copyLeaf t.index (copyGen t.gen m st.bump).2.1 (copyGen t.gen m st.bump).2.2).2.1
      (copyLeaf t.index (copyGen t.gen m st.bump).2.1 (copyGen t.gen m st.bump).2.2).2.2).2.2.next :=
    Nat.le_trans (Nat.le_trans g1 i1) r1
  refine ⟨Nat.le_trans hb htot, ?_⟩
  intro n hn
  simp only [Nested.ids, List.mem_cons, List.mem_append] at hn
  rcases hn with hn | hn | hn | hn
  · subst hn; exact ⟨hlo, htot⟩
  · subst hn; exact ⟨g3, Nat.lt_of_lt_of_le g4 (Nat.le_trans i1 r1)⟩
  · exact (i3.mono (Nat.le_refl _) r1) n hn
  · exact r3 n hn

theorem deepcopy_spec (p : PropO) (st : St) :
    st.next ≤ (deepcopy p st).2.next ∧ Within st.next (deepcopy p st).2.next (deepcopy p st).1.ids := by
  cases p with
  | plain l =>
    obtain ⟨h1, _, h3⟩ := copyLeaf_spec st.next l [] st (Nat.le_refl _) (memoIn_nil _ _)
    exact ⟨h1, h3⟩
  | nested t =>
    exact copyNested_spec st.next t [] st (Nat.le_refl _) (memoIn_nil _ _)

theorem copyProps_spec : ∀ (ps : List PropO) (st : St),
    st.next ≤ (copyProps ps st).2.next ∧ Within st.next (copyProps ps st).2.next ((copyProps ps st).1.flatMap PropO.ids)
  | [], st => ⟨Nat.le_refl _, fun n hn => by simp [copyProps] at hn⟩
  | p :: ps, st => by
    unfold copyProps
    simp only [List.flatMap_cons]
    obtain ⟨h1, h2⟩ := deepcopy_spec p st
    obtain ⟨r1, r2⟩ := copyProps_spec ps (deepcopy p st).2
    exact ⟨Nat.le_trans h1 r1, (h2.mono (Nat.le_refl _) r1).append (r2.mono h1 (Nat.le_refl _))⟩

/-! ### re-seating adds only the seated generator -/

theorem leaf_reseat_ids (l : Leaf) (g : Gen) : ({ l with gen := some g } : Leaf).ids = [l.oid, g.id] := rfl

theorem leaf_oid_mem (l : Leaf) : l.oid ∈ l.ids := by simp [Leaf.ids]

theorem reseat_ids (v : Variant) (g : Gen) (p : PropO) : ∀ n, n ∈ (reseat v g p).ids → n = g.id ∨ n ∈ p.ids := by
  intro n hn
  cases p with
  | plain l =>
    simp only [reseat, PropO.ids, leaf_reseat_ids, List.mem_cons, List.not_mem_nil, or_false] at hn
    rcases hn with h | h
    · right; rw [h]; exact leaf_oid_mem l
    · left; exact h
  | nested t =>
    by_cases hv : v.reseatsInner = true
    · simp only [reseat, hv, if_true, PropO.ids, Nested.ids, leaf_reseat_ids, List.mem_cons, List.mem_append,
        List.not_mem_nil, or_false] at hn
      simp only [PropO.ids, Nested.ids, List.mem_cons, List.mem_append]
      rcases hn with h | h | (h | h) | h
      · right; left; exact h
      · left; exact h
      · right; right; right; left; rw [h]; exact leaf_oid_mem _
      · left; exact h
      · obtain ⟨pb, hpb, hn'⟩ := List.mem_flatMap.mp h
        obtain ⟨pb0, hpb0, hpb1⟩ := List.mem_map.mp hpb
        subst hpb1
        simp only [innerIds, leaf_reseat_ids, List.mem_cons, List.mem_append, List.not_mem_nil, or_false] at hn'
        have hmem : ∀ x, x ∈ innerIds pb0 → x ∈ List.flatMap innerIds t.inner :=
          fun x hx => List.mem_flatMap.mpr ⟨pb0, hpb0, hx⟩
        rcases hn' with (h' | h') | (h' | h')
        · right; right; right; right
          exact hmem n (by rw [h']; exact List.mem_append_left _ (leaf_oid_mem _))
        · left; exact h'
        · right; right; right; right
          exact hmem n (by rw [h']; exact List.mem_append_right _ (leaf_oid_mem _))
        · left; exact h'
    · have hv' : v.reseatsInner = false := by simpa using hv
      simp only [reseat, hv', Bool.false_eq_true, if_false, PropO.ids, Nested.ids, List.mem_cons,
        List.mem_append] at hn
      simp only [PropO.ids, Nested.ids, List.mem_cons, List.mem_append]
      rcases hn with h | h | h | h
      · right; left; exact h
      · left; exact h
      · right; right; right; left; exact h
      · right; right; right; right; exact h

theorem mkChain_ids {v : Variant} {env : Env} {g : Gen} {props : List PropO} {st st' : St} {c : ChainO}
    (h : mkChain v env (.inst g) props st = some (c, st')) :
    st' = st ∧ ∀ n, n ∈ c.ids → n = g.id ∨ n ∈ props.flatMap PropO.ids := by
  unfold mkChain at h
  cases hj : mkJoint v env (.inst g) props st with
  | none => simp [hj] at h
  | some r =>
    obtain ⟨j, st1⟩ := r
    simp only [hj, Option.map_some, Option.some.injEq, Prod.mk.injEq] at h
    obtain ⟨h1, h2⟩ := h
    subst h1
    obtain ⟨hg, hp, hst⟩ := mkJoint_spec hj
    have hg' : j.gen = g := by rw [hg]; rfl
    refine ⟨by rw [← h2, hst]; rfl, ?_⟩
    intro n hn
    simp only [ChainO.ids, List.mem_cons] at hn
    rcases hn with h3 | h3
    · left; rw [h3, hg']
    · obtain ⟨p, hp', hn'⟩ := List.mem_flatMap.mp h3
      rw [hp] at hp'
      obtain ⟨p0, hp0, rfl⟩ := List.mem_map.mp hp'
      rcases reseat_ids v j.gen p0 n hn' with h4 | h4
      · left; rw [h4, hg']
      · right; exact List.mem_flatMap.mpr ⟨p0, hp0, h4⟩

theorem mkLevels_ids {v : Variant} {env : Env} {g : Gen} {props : List PropO} :
    ∀ (k : Nat) (st st' : St) (ls : List ChainO), mkLevels v env g props k st = some (ls, st') →
      st.next ≤ st'.next ∧ ∀ n, n ∈ ls.flatMap ChainO.ids → n = g.id ∨ (st.next ≤ n ∧ n < st'.next)
  | 0, st, st', ls, h => by
    simp only [mkLevels, Option.some.injEq, Prod.mk.injEq] at h
    obtain ⟨h1, h2⟩ := h
    subst h1; subst h2
    exact ⟨Nat.le_refl _, fun n hn => by simp at hn⟩
  | k + 1, st, st', ls, h => by
    unfold mkLevels at h
    simp only at h
    cases hc : mkChain v env (.inst g) (copyProps props st).1 (copyProps props st).2 with
    | none => simp [hc] at h
    | some c =>
      simp only [hc] at h
      cases hr : mkLevels v env g props k c.2 with
      | none => simp [hr] at h
      | some r =>
        simp only [hr, Option.some.injEq, Prod.mk.injEq] at h
        obtain ⟨h1, h2⟩ := h
        subst h1; subst h2
        obtain ⟨c1, c2⟩ := copyProps_spec props st
        obtain ⟨m1, m2⟩ := mkChain_ids (c := c.1) (st' := c.2) (by rw [hc])
        obtain ⟨r1, r2⟩ := mkLevels_ids k c.2 r.2 r.1 (by rw [hr])
        rw [m1] at r1 r2
        refine ⟨Nat.le_trans c1 r1, ?_⟩
        intro n hn
        simp only [List.flatMap_cons, List.mem_append] at hn
        rcases hn with h3 | h3
        · rcases m2 n h3 with h4 | h4
          · left; exact h4
          · right; exact ⟨(c2 n h4).1, Nat.lt_of_lt_of_le (c2 n h4).2 r1⟩
        · rcases r2 n h3 with h4 | h4
          · left; exact h4
          · right; exact ⟨Nat.le_trans c1 h4.1, h4.2⟩

/-- `n` is the one annealer instance that the sampler hands to every chain. -/
def SharedAnn (v : Variant) (ann : Option Nat) (n : Nat) : Prop := v.annealerPerChain = false ∧ ann = some n

theorem annealerFor_spec (v : Variant) (ann : Option Nat) (st : St) :
    st.next ≤ (annealerFor v ann st).2.next ∧
    ∀ n, (annealerFor v ann st).1 = some n → (st.next ≤ n ∧ n < (annealerFor v ann st).2.next) ∨ SharedAnn v ann n := by
  unfold annealerFor
  cases ann with
  | none => exact ⟨Nat.le_refl _, fun n hn => by simp at hn⟩
  | some a0 =>
    simp only
    cases hv : v.annealerPerChain with
    | true =>
      simp only [if_true, St.bump]
      refine ⟨Nat.le_succ _, fun n hn => ?_⟩
      simp only [Option.some.injEq] at hn
      subst hn
      exact Or.inl ⟨Nat.le_refl _, Nat.lt_succ_self _⟩
    | false =>
      simp only [Bool.false_eq_true, if_false]
      refine ⟨Nat.le_refl _, fun n hn => ?_⟩
      simp only [Option.some.injEq] at hn
      subst hn
      exact Or.inr ⟨hv, rfl⟩

theorem mkAnyChain_ids {v : Variant} {env : Env} {kind : Kind} {props : List PropO} {ann : Option Nat}
    {g : Gen} {st st' : St} {c : AnyChain} (h : mkAnyChain v env kind props ann g st = some (c, st')) :
    st.next ≤ st'.next ∧
    ∀ n, n ∈ c.ids → n = g.id ∨ (st.next ≤ n ∧ n < st'.next) ∨ SharedAnn v ann n := by
  unfold mkAnyChain at h
  obtain ⟨c1, c2⟩ := copyProps_spec props st
  cases kind with
  | mh =>
    simp only at h
    cases hc : mkChain v env (.inst g) (copyProps props st).1 (copyProps props st).2 with
    | none => simp [hc] at h
    | some r =>
      simp only [hc, Option.map_some, Option.some.injEq, Prod.mk.injEq] at h
      obtain ⟨h1, h2⟩ := h
      subst h1; subst h2
      obtain ⟨m1, m2⟩ := mkChain_ids (c := r.1) (st' := r.2) (by rw [hc])
      rw [m1]
      refine ⟨c1, fun n hn => ?_⟩
      rcases m2 n hn with h3 | h3
      · left; exact h3
      · right; left; exact c2 n h3
  | pt ntemps a =>
    simp only at h
    obtain ⟨a1, a2⟩ := annealerFor_spec v ann (copyProps props st).2
    generalize annealerFor v ann (copyProps props st).2 = aa at h a1 a2
    unfold mkPTChain at h
    split at h
    · simp at h
    · cases hl : mkLevels v env g (copyProps props st).1 ntemps aa.2 with
      | none => simp [hl] at h
      | some r =>
        simp only [hl, Option.map_some, Option.some.injEq, Prod.mk.injEq] at h
        obtain ⟨h1, h2⟩ := h
        subst h1; subst h2
        obtain ⟨l1, l2⟩ := mkLevels_ids ntemps aa.2 r.2 r.1 (by rw [hl])
        refine ⟨Nat.le_trans c1 (Nat.le_trans a1 l1), fun n hn => ?_⟩
        simp only [AnyChain.ids, PTChainO.ids, List.mem_cons, List.mem_append, Option.mem_toList] at hn
        rcases hn with h3 | h3 | h3
        · left; exact h3
        · rcases a2 n h3 with h4 | h4
          · right; left; exact ⟨Nat.le_trans c1 h4.1, Nat.lt_of_lt_of_le h4.2 l1⟩
          · right; right; exact h4
        · rcases l2 n h3 with h4 | h4
          · left; exact h4
          · right; left; exact ⟨Nat.le_trans c1 (Nat.le_trans a1 h4.1), h4.2⟩




/-- What `mkChains` guarantees about identities: chain `i` holds its generator, objects
    allocated while the chains were made, and possibly the shared annealer; the blocks
    allocated for two different chains are separated. -/
theorem mkChains_ids {v : Variant} {env : Env} {kind : Kind} {props : List PropO} {ann : Option Nat} :
    ∀ (gens : List Gen) (st st' : St) (cs : List AnyChain),
      mkChains v env kind props ann gens st = some (cs, st') →
      st.next ≤ st'.next ∧
      (∀ (i : Nat) (c : AnyChain), cs[i]? = some c → ∃ g, gens[i]? = some g ∧
          ∀ n, n ∈ c.ids → n = g.id ∨ (st.next ≤ n ∧ n < st'.next) ∨ SharedAnn v ann n) ∧
      (∀ (i j : Nat) (ci cj : AnyChain), i < j → cs[i]? = some ci → cs[j]? = some cj →
          ∃ gi gj mid, gens[i]? = some gi ∧ gens[j]? = some gj ∧ st.next ≤ mid ∧
            (∀ n, n ∈ ci.ids → n = gi.id ∨ n < mid ∨ SharedAnn v ann n) ∧
            (∀ n, n ∈ cj.ids → n = gj.id ∨ mid ≤ n ∨ SharedAnn v ann n))
  | [], st, st', cs, h => by
    simp only [mkChains, Option.some.injEq, Prod.mk.injEq] at h
    obtain ⟨h1, h2⟩ := h
    subst h1; subst h2
    exact ⟨Nat.le_refl _, fun i c hc => by simp at hc, fun i j ci cj _ hc => by simp at hc⟩
  | g :: gs, st, st', cs, h => by
    unfold mkChains at h
    cases hm : mkAnyChain v env kind props ann g st with
    | none => simp [hm] at h
    | some c0 =>
      simp only [hm] at h
      cases hr : mkChains v env kind props ann gs c0.2 with
      | none => simp [hr] at h
      | some r =>
        simp only [hr, Option.some.injEq, Prod.mk.injEq] at h
        obtain ⟨h1, h2⟩ := h
        subst h1; subst h2
        obtain ⟨a1, a2⟩ := mkAnyChain_ids (c := c0.1) (st' := c0.2) (by rw [hm])
        obtain ⟨r1, r2, r3⟩ := mkChains_ids gs c0.2 r.2 r.1 (by rw [hr])
        refine ⟨Nat.le_trans a1 r1, ?_, ?_⟩
        · intro i c hc
          cases i with
          | zero =>
            simp only [List.getElem?_cons_zero, Option.some.injEq] at hc
            subst hc
            refine ⟨g, rfl, fun n hn => ?_⟩
            rcases a2 n hn with h3 | h3 | h3
            · left; exact h3
            · right; left; exact ⟨h3.1, Nat.lt_of_lt_of_le h3.2 r1⟩
            · right; right; exact h3
          | succ k =>
            simp only [List.getElem?_cons_succ] at hc
            obtain ⟨g', hg', hn'⟩ := r2 k c hc
            refine ⟨g', by simpa using hg', fun n hn => ?_⟩
            rcases hn' n hn with h3 | h3 | h3
            · left; exact h3
            · right; left; exact ⟨Nat.le_trans a1 h3.1, h3.2⟩
            · right; right; exact h3
        · intro i j ci cj hij hci hcj
          cases j with
          | zero => omega
          | succ j' =>
            simp only [List.getElem?_cons_succ] at hcj
            cases i with
            | zero =>
              simp only [List.getElem?_cons_zero, Option.some.injEq] at hci
              subst hci
              obtain ⟨gj, hgj, hnj⟩ := r2 j' cj hcj
              refine ⟨g, gj, c0.2.next, rfl, by simpa using hgj, a1, fun n hn => ?_, fun n hn => ?_⟩
              · rcases a2 n hn with h3 | h3 | h3
                · left; exact h3
                · right; left; exact h3.2
                · right; right; exact h3
              · rcases hnj n hn with h3 | h3 | h3
                · left; exact h3
                · right; left; exact h3.1
                · right; right; exact h3
            | succ i' =>
              simp only [List.getElem?_cons_succ] at hci
              obtain ⟨gi, gj, mid, hgi, hgj, hmid, hi', hj'⟩ := r3 i' j' ci cj (by omega) hci hcj
              exact ⟨gi, gj, mid, by simpa using hgi, by simpa using hgj, Nat.le_trans a1 hmid, hi', hj'⟩

theorem prepare_annealer (v : Variant) (cfg : Cfg) (env : Env) :
    (prepare v cfg env).2.1 = none ↔ cfg.kind.hasAnnealer = false := by
  unfold prepare
  cases h : cfg.kind.hasAnnealer <;> simp

/-- An object reachable from two different chains of a built sampler can only be the one
    annealer instance handed to every chain. -/
theorem build_shared_only_annealer {v : Variant} {cfg : Cfg} {env : Env} {s : SamplerO}
    (h : build v cfg env = some s) :
    ∀ (i j : Nat) (ci cj : AnyChain), i ≠ j → s.chains[i]? = some ci → s.chains[j]? = some cj →
      ∀ n, n ∈ ci.ids → n ∈ cj.ids → SharedAnn v (prepare v cfg env).2.1 n := by
  unfold build at h
  cases hb : buildSt v cfg env with
  | none => simp [hb] at h
  | some r =>
    obtain ⟨s0, st'⟩ := r
    simp only [hb, Option.map_some, Option.some.injEq] at h
    subst h
    obtain ⟨_, hm⟩ := buildSt_inv hb
    obtain ⟨_, m2, m3⟩ := mkChains_ids _ _ _ _ hm
    -- the ordered case
    have key : ∀ (i j : Nat) (ci cj : AnyChain), i < j → s0.chains[i]? = some ci → s0.chains[j]? = some cj →
        ∀ n, n ∈ ci.ids → n ∈ cj.ids → SharedAnn v (prepare v cfg env).2.1 n := by
      intro i j ci cj hij hci hcj n hni hnj
      obtain ⟨gi, gj, mid, hgi, hgj, hmid, hi', hj'⟩ := m3 i j ci cj hij hci hcj
      have egi := spawnGens_getElem? _ _ _ _ _ _ hgi
      have egj := spawnGens_getElem? _ _ _ _ _ _ hgj
      obtain ⟨gi', hgi', hall⟩ := m2 i ci hci
      rw [hgi] at hgi'
      simp only [Option.some.injEq] at hgi'
      subst hgi'
      have hjlt : j < cfg.nchains := by
        have := (List.getElem?_eq_some_iff.mp hgj).1
        have hl : ∀ (n i : Nat), (spawnGens (rootOf v cfg env) (genBase v cfg env) i n).length = n := by
          intro n; induction n with
          | zero => intro i; rfl
          | succ k ih => intro i; simp [spawnGens, ih]
        rw [hl] at this; exact this
      simp only [Nat.zero_add] at egi egj
      simp only at hmid
      have hgid : gi.id = genBase v cfg env + i := by rw [egi]
      have hgjd : gj.id = genBase v cfg env + j := by rw [egj]
      rcases hi' n hni with h1 | h1 | h1
      · rcases hj' n hnj with h2 | h2 | h2
        · omega
        · omega
        · exact h2
      · rcases hj' n hnj with h2 | h2 | h2
        · rcases hall n hni with h3 | h3 | h3
          · omega
          · have := h3.1; simp only at this; omega
          · exact h3
        · omega
        · exact h2
      · exact h1
    intro i j ci cj hne hci hcj n hni hnj
    rcases Nat.lt_or_gt_of_ne hne with h1 | h1
    · exact key i j ci cj h1 hci hcj n hni hnj
    · exact key j i cj ci h1 hcj hci n hnj hni

/-- Without an annealer, or when every chain gets its own, a built sampler has no
    object reachable from two chains: `Shared = ∅`. -/
theorem build_shared_nil {v : Variant} {cfg : Cfg} {env : Env} {s : SamplerO} (h : build v cfg env = some s)
    (ha : cfg.kind.hasAnnealer = false ∨ v.annealerPerChain = true) :
    sharedIds (s.chains.map AnyChain.ids) = [] := by
  apply pairwise_sharedIds_nil
  rw [List.pairwise_iff_getElem]
  intro i j hi hj hij n hn hn'
  simp only [List.getElem_map] at hn hn'
  simp only [List.length_map] at hi hj
  have := build_shared_only_annealer h i j _ _ (Nat.ne_of_lt hij)
    (List.getElem?_eq_getElem hi) (List.getElem?_eq_getElem hj) n hn hn'
  rcases ha with ha | ha
  · have hnone := (prepare_annealer v cfg env).mpr ha
    rw [hnone] at this
    exact absurd this.2 (by simp)
  · rw [this.1] at ha; exact absurd ha (by simp)



/-! ### the system of a built sampler -/

theorem footprints_eq (s : SamplerO) :
    (List.range s.chains.length).map s.footprint = s.chains.map AnyChain.ids := by
  apply List.ext_getElem
  · simp
  · intro i h1 h2
    simp only [List.getElem_map, List.getElem_range, SamplerO.footprint]
    simp only [List.length_map] at h2
    rw [List.getElem?_eq_getElem h2]

theorem sys_shared_eq {V} (s : SamplerO) (step : Nat → Heap V → Heap V) :
    (s.sys step).shared = sharedIds (s.chains.map AnyChain.ids) := by
  unfold Sys.shared SamplerO.sys
  simp only
  rw [footprints_eq]

theorem dedup_eq_nil : ∀ (l : List Param), dedup l = [] → l = []
  | [], _ => rfl
  | a :: l, h => by
    unfold dedup at h
    split at h
    · rename_i hm
      have := dedup_eq_nil l h
      subst this
      simp at hm
    · simp at h



/-! ### the chain's generator is the one the sampler hands over, whatever the proposals are -/

theorem mkAnyChain_gen {v : Variant} {env : Env} {kind : Kind} {props : List PropO} {ann : Option Nat}
    {g : Gen} {st st' : St} {c : AnyChain} (h : mkAnyChain v env kind props ann g st = some (c, st')) :
    c.gen = g := by
  unfold mkAnyChain at h
  cases kind with
  | mh =>
    simp only at h
    cases hc : mkChain v env (.inst g) (copyProps props st).1 (copyProps props st).2 with
    | none => simp [hc] at h
    | some r =>
      simp only [hc, Option.map_some, Option.some.injEq, Prod.mk.injEq] at h
      obtain ⟨h1, _⟩ := h
      subst h1
      unfold mkChain at hc
      cases hj : mkJoint v env (.inst g) (copyProps props st).1 (copyProps props st).2 with
      | none => simp [hj] at hc
      | some q =>
        obtain ⟨jo, st1⟩ := q
        simp only [hj, Option.map_some, Option.some.injEq] at hc
        subst hc
        exact (mkJoint_spec hj).1
  | pt n a =>
    simp only at h
    generalize annealerFor v ann (copyProps props st).2 = aa at h
    unfold mkPTChain at h
    split at h
    · simp at h
    · cases hl : mkLevels v env g (copyProps props st).1 n aa.2 with
      | none => simp [hl] at h
      | some r =>
        simp only [hl, Option.map_some, Option.some.injEq, Prod.mk.injEq] at h
        obtain ⟨h1, _⟩ := h
        subst h1
        rfl

/-- Chain `i` of a built sampler holds the generator with identity `genBase + i` and spawn
    key `(i,)` (no hypothesis on the proposals). -/
theorem chain_gen {v : Variant} {cfg : Cfg} {env : Env} {s : SamplerO} (h : build v cfg env = some s) :
    ∀ (i : Nat) (c : AnyChain), s.chains[i]? = some c →
      c.gen = ⟨genBase v cfg env + i, .spawn (rootOf v cfg env) i⟩ := by
  unfold build at h
  cases hb : buildSt v cfg env with
  | none => simp [hb] at h
  | some r =>
    obtain ⟨s0, st'⟩ := r
    simp only [hb, Option.map_some, Option.some.injEq] at h
    subst h
    obtain ⟨_, hm⟩ := buildSt_inv hb
    intro i c hc
    obtain ⟨g, s1, s2, hg, hmk⟩ := mkChains_getElem? _ _ _ _ hm i c hc
    have hgi := spawnGens_getElem? _ _ _ _ _ _ hg
    simp only [Nat.zero_add] at hgi
    rw [mkAnyChain_gen hmk, hgi]


end Epsie.Streams
