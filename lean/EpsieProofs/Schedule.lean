/-
  Helper lemmas for C15: the jump-interval schedule and what a proposal that is
  not due does (and does not do) in a step.
-/
import EpsieModel.Chain
import EpsieProofs.ChainInv
namespace Epsie
namespace Chain

theorem applyJump_untouched (pos : List Val) (ps : List Nat) (vs : List Val) (j : Nat)
    (h : j ∉ ps) : (applyJump pos ps vs)[j]? = pos[j]? := by
  induction ps generalizing pos vs with
  | nil => simp [applyJump]
  | cons p ps ih =>
    cases vs with
    | nil => simp [applyJump]
    | cons v vs =>
      simp only [applyJump]
      have hp : p ≠ j := fun e => h (by simp [e])
      have hj : j ∉ ps := fun e => h (by simp [e])
      rw [ih _ _ hj, List.getElem?_set_ne hp]

theorem jointJump_untouched (pos : List Val) (ps : List PropSt) (js : List (List Val)) (j : Nat)
    (h : ∀ p ∈ ps, p.callJump = true → j ∉ p.cfg.params) :
    (jointJump pos ps js)[j]? = pos[j]? := by
  induction ps generalizing pos js with
  | nil => simp [jointJump]
  | cons p ps ih =>
    cases js with
    | nil => simp [jointJump]
    | cons v vs =>
      simp only [jointJump]
      rw [ih _ _ (fun q hq => h q (by simp [hq]))]
      by_cases hd : p.callJump = true
      · simp only [hd, if_true]
        exact applyJump_untouched _ _ _ _ (h p (by simp) hd)
      · simp [hd]

theorem sumContrib_not_due (ps : List PropSt) (qs qs' : List Rat)
    (h : ∀ i, (hi : i < ps.length) → contributes ps[i] = true → qs[i]? = qs'[i]?)
    (hl : qs.length = qs'.length) :
    sumContrib ps qs = sumContrib ps qs' := by
  induction ps generalizing qs qs' with
  | nil => simp [sumContrib]
  | cons p ps ih =>
    cases qs with
    | nil =>
      cases qs' with
      | nil => rfl
      | cons _ _ => simp at hl
    | cons q qs =>
      cases qs' with
      | nil => simp at hl
      | cons q' qs' =>
        simp only [sumContrib]
        have htail := ih qs qs' (fun i hi hc => by
          have := h (i+1) (by simp; omega) (by simpa using hc)
          simpa using this) (by simpa using hl)
        rw [htail]
        by_cases hc : contributes p = true
        · have := h 0 (by simp) (by simpa using hc)
          simp at this
          simp [hc, this]
        · simp [hc]

/-- The private counter of every proposal equals the chain's iteration, for every chain
    reached from a fresh one by steps, clears, scratch growth, swaps, resets and — provided
    the proposal's `state` carries the counter — loads of states of such chains. -/
def CounterOK (c : Chain) : Prop := ∀ p ∈ c.props, p.raw = c.iteration

theorem counterOK_step {c c' : Chain} {i : StepIn} (h : CounterOK c) (hs : c.step i = some c') :
    CounterOK c' := by
  unfold step at hs
  split at hs
  · simp at hs
  · simp at hs
    subst hs
    intro p hp
    simp only [List.mem_map] at hp
    obtain ⟨q, hq, rfl⟩ := hp
    simp [PropSt.update, h q hq]

end Chain
end Epsie
