/-
  EpsieModel.Checkpoint — executable model of epsie's checkpoint files (core Lean only).

  Code modelled (read from /repo):

    epsie/__init__.py
      dump_state(state, fp, path, dsetname, protocol)
          memfp = BytesIO(); pickle.dump(state, memfp, protocol=protocol)
          dump_pickle_to_hdf(memfp, fp, path=path, dsetname=dsetname)
      dump_pickle_to_hdf(memfp, fp, path, dsetname)
          memfp.seek(0)
          bdata = numpy.frombuffer(memfp.read(), dtype='S1')
          if path is not None: fp = fp[path]
          if dsetname not in fp:
              fp.create_dataset(dsetname, shape=bdata.shape, maxshape=(None,), dtype=bdata.dtype)
          elif bdata.size != fp[dsetname].shape[0]:
              fp[dsetname].resize((bdata.size,))
          fp[dsetname][:] = bdata
      load_state(fp, path, dsetname)
          if path is not None: fp = fp[path]
          bdata = fp[dsetname][()].tobytes()
          return pickle.load(BytesIO(bdata))
    epsie/samplers/base.py
      BaseSampler.checkpoint(fp, path, dsetname)      = dump_state(self.state, fp, path=path, dsetname=dsetname)
      BaseSampler.set_state_from_checkpoint(fp, path) = self.set_state(load_state(fp, path=path))

  What is modelled and how.

  * A **file** is a set of groups plus a finite map from dataset keys
    `(resolved group location, dataset name)` to one-dimensional datasets of
    numpy dtype 'S1'.  A location is the list of `/`-separated components of
    an HDF5 path (`[]` = the top level, which is what `path=None` means); the
    driver resolves path strings.  Dataset *names* containing `/` are HDF5
    path syntax (two spellings of one object); the model keys on slash-free
    names and the harness exercises slashed names on the real code only.
  * An **'S1' element** is one stored byte.  numpy reads a NUL element *as a
    Python bytes object* as `b''` (trailing NULs are stripped: `S1.item`), but
    `ndarray.tobytes()` returns the stored bytes verbatim (`tobytes`), and
    `load_state` uses `tobytes()`.  Both views are in the model so that the
    difference is a theorem and not an assumption.
  * A **dataset** carries its elements and its maximal length (`none` =
    `maxshape=(None,)`, unlimited).  `create_dataset` fills with the fill value
    (NUL); `resize` keeps the common prefix and fills; whole-slice assignment
    `dset[:] = data` follows numpy's broadcasting rule for one dimension: equal
    lengths, or a length-1 source replicated; anything else is an error.
  * Every h5py call that can raise is an `Except Err`; `dumpPickleToHdf`
    returns the file *as the failing call left it* together with the error, so
    that "a failed dump has no effect" is a statement, not a convention.
  * `pickle` is an abstract pair `(dumps, loads)`; the byte-level theorems do
    not mention it, the object-level ones take `loads (dumps p v) = some v` as
    their only hypothesis about it.

  Fidelity of these h5py semantics to the real library is ASSUMED (h5py is not
  installed here); the harness stand-in `harness/h5stub.py` implements the same
  calls on real numpy arrays and is what the real epsie code runs against.
-/
namespace Epsie
namespace Checkpoint

abbrev Bytes := List UInt8

/-- A resolved HDF5 location: the components of a `/`-separated path. -/
abbrev Loc := List String

/-! ## numpy arrays of dtype 'S1' -/

/-- One element of an array of dtype 'S1': exactly one stored byte. -/
structure S1 where
  byte : UInt8
deriving DecidableEq, Repr, Inhabited

/-- `numpy.frombuffer(b, dtype='S1')`: one element per byte, NULs included. -/
def frombuffer (b : Bytes) : List S1 := b.map S1.mk

/-- `ndarray.tobytes()`: the stored bytes verbatim. -/
def tobytes (a : List S1) : Bytes := a.map S1.byte

/-- An element read as a Python `bytes` object (`arr[i]`, iteration, `tolist()`):
    numpy strips trailing NULs of fixed-width strings, so a NUL element is `b''`. -/
def S1.item (e : S1) : Bytes := if e.byte = 0 then [] else [e.byte]

/-- `b''.join(arr)` — what reading element-wise would give.  NOT what the code does. -/
def joinItems (a : List S1) : Bytes := (a.map S1.item).flatten

/-- The fill value of a new 'S1' dataset. -/
def S1.nul : S1 := ⟨0⟩

/-! ## datasets, files -/

structure Dataset where
  elems  : List S1         -- shape = (elems.length,)
  maxlen : Option Nat      -- maxshape[0]; none = unlimited
deriving DecidableEq, Repr

/-- What the code addresses: a dataset name inside a (resolved) group. -/
structure Key where
  group : Loc
  name  : String
deriving DecidableEq, Repr

/-- The exceptions of the h5py calls used. -/
inductive Err where
  | noGroup        -- `fp[path]`: KeyError, nothing (or no group) at that path
  | noObject       -- `fp[dsetname]`: KeyError
  | notDataset     -- `fp[dsetname]` is a group: no `.shape` / no `[()]`
  | cannotResize   -- `resize` beyond the maximal shape
  | shapeMismatch  -- `dset[:] = data`: could not broadcast
  | nameExists     -- `create_dataset` on an existing name
deriving DecidableEq, Repr

def Err.toString : Err → String
  | .noGroup => "noGroup"
  | .noObject => "noObject"
  | .notDataset => "notDataset"
  | .cannotResize => "cannotResize"
  | .shapeMismatch => "shapeMismatch"
  | .nameExists => "nameExists"

/-- Equality of results is decidable (used by the `decide`d examples only). -/
scoped instance instDecidableEqExcept {ε α : Type} [DecidableEq ε] [DecidableEq α] :
    DecidableEq (Except ε α)
  | .ok a, .ok b => if h : a = b then isTrue (h ▸ rfl) else isFalse (fun hh => h (Except.ok.inj hh))
  | .error a, .error b =>
    if h : a = b then isTrue (h ▸ rfl) else isFalse (fun hh => h (Except.error.inj hh))
  | .ok _, .error _ => isFalse (fun hh => nomatch hh)
  | .error _, .ok _ => isFalse (fun hh => nomatch hh)

/-- Association-list lookup (first match). -/
def lookup (k : Key) : List (Key × Dataset) → Option Dataset
  | [] => none
  | (k', d) :: r => if k' = k then some d else lookup k r

/-- Replace the first entry for `k`, or append a new one. -/
def store (k : Key) (d : Dataset) : List (Key × Dataset) → List (Key × Dataset)
  | [] => [(k, d)]
  | (k', d') :: r => if k' = k then (k, d) :: r else (k', d') :: store k d r

structure File where
  groups : List Loc                  -- the groups besides the top level
  dsets  : List (Key × Dataset)
deriving DecidableEq, Repr

namespace File

def empty : File := ⟨[], []⟩

def isGroup (f : File) (l : Loc) : Bool := l.isEmpty || decide (l ∈ f.groups)

def getDset (f : File) (k : Key) : Option Dataset := lookup k f.dsets

def setDset (f : File) (k : Key) (d : Dataset) : File := { f with dsets := store k d f.dsets }

/-- `h5py.Group.require_group(path)`: the group and all its parents (harness set-up only). -/
def requireGroup (f : File) (l : Loc) : File :=
  let pre := (List.range (l.length + 1)).map (fun n => l.take n)
  { f with groups := pre.foldl (fun gs p => if p.isEmpty || decide (p ∈ gs) then gs else gs ++ [p]) f.groups }

/-- `if path is not None: fp = fp[path]`.  `path=None` involves no lookup. -/
def getGroup (f : File) : Option Loc → Except Err Loc
  | none => .ok []
  | some p => if f.isGroup p then .ok p else .error .noGroup

/-- `dsetname in fp`: true for datasets and for subgroups. -/
def hasMember (f : File) (k : Key) : Bool :=
  (f.getDset k).isSome || decide ((k.group ++ [k.name]) ∈ f.groups)

/-- `fp[dsetname]` used as a dataset (`.shape`, `.resize`, `[:] =`, `[()]`). -/
def dataset (f : File) (k : Key) : Except Err Dataset :=
  match f.getDset k with
  | some d => .ok d
  | none => if decide ((k.group ++ [k.name]) ∈ f.groups) then .error .notDataset else .error .noObject

/-- `fp.create_dataset(name, shape=(n,), maxshape=(maxlen,), dtype='S1')`. -/
def createDataset (f : File) (k : Key) (n : Nat) (maxlen : Option Nat) : Except Err File :=
  if f.hasMember k then .error .nameExists
  else .ok (f.setDset k ⟨List.replicate n S1.nul, maxlen⟩)

end File

/-- `dset.resize((n,))`: keep the common prefix, fill the rest; refuse beyond `maxshape`. -/
def Dataset.resize (d : Dataset) (n : Nat) : Except Err Dataset :=
  let d' : Dataset := { d with elems := d.elems.take n ++ List.replicate (n - d.elems.length) S1.nul }
  match d.maxlen with
  | none => .ok d'
  | some m => if n ≤ m then .ok d' else .error .cannotResize

/-- `dset[:] = a` with numpy's one-dimensional broadcasting rule. -/
def Dataset.assign (d : Dataset) (a : List S1) : Except Err Dataset :=
  if a.length = d.elems.length then .ok { d with elems := a }
  else match a with
    | [x] => .ok { d with elems := List.replicate d.elems.length x }
    | _ => .error .shapeMismatch

namespace File

def resize (f : File) (k : Key) (n : Nat) : Except Err File :=
  match f.dataset k with
  | .error e => .error e
  | .ok d => match d.resize n with
    | .error e => .error e
    | .ok d' => .ok (f.setDset k d')

def assign (f : File) (k : Key) (a : List S1) : Except Err File :=
  match f.dataset k with
  | .error e => .error e
  | .ok d => match d.assign a with
    | .error e => .error e
    | .ok d' => .ok (f.setDset k d')

/-- `fp[dsetname][()]` -/
def read (f : File) (k : Key) : Except Err (List S1) :=
  match f.dataset k with
  | .error e => .error e
  | .ok d => .ok d.elems

end File

/-! ## the code -/

/-- `path=None` and the top level are the same place. -/
def resolve : Option Loc → Loc
  | none => []
  | some p => p

/-- `dump_pickle_to_hdf` up to, not including, the final assignment:
    create if absent, else resize iff the size differs. -/
def prepare (f : File) (k : Key) (a : List S1) : Except Err File :=
  if !f.hasMember k then
    f.createDataset k a.length none
  else
    match f.dataset k with            -- fp[dsetname].shape[0]
    | .error e => .error e
    | .ok d => if a.length != d.elems.length then f.resize k a.length else .ok f

/-- `dump_pickle_to_hdf(memfp, fp, path, dsetname)` with `memfp` holding `b`.
    Returns the file as the call left it and the exception raised, if any. -/
def dumpPickleToHdf (f : File) (path : Option Loc) (name : String) (b : Bytes) : File × Option Err :=
  let a := frombuffer b
  match f.getGroup path with
  | .error e => (f, some e)
  | .ok g =>
    match prepare f ⟨g, name⟩ a with
    | .error e => (f, some e)
    | .ok f1 =>
      match f1.assign ⟨g, name⟩ a with
      | .error e => (f1, some e)
      | .ok f2 => (f2, none)

/-- The same as a partial function: the new file, or the exception. -/
def dumpBytes (f : File) (path : Option Loc) (name : String) (b : Bytes) : Except Err File :=
  match dumpPickleToHdf f path name b with
  | (f', none) => .ok f'
  | (_, some e) => .error e

/-- `load_state` up to `pickle.load`: `fp[path][dsetname][()].tobytes()`. -/
def loadBytes (f : File) (path : Option Loc) (name : String) : Except Err Bytes :=
  match f.getGroup path with
  | .error e => .error e
  | .ok g => match f.read ⟨g, name⟩ with
    | .error e => .error e
    | .ok a => .ok (tobytes a)

/-! ## pickle, states, samplers -/

/-- `pickle` as far as the checkpoint code uses it. -/
structure Pickle (α : Type) where
  dumps : Option Nat → α → Bytes     -- `pickle.dump(v, memfp, protocol=p)` then `memfp.read()`
  loads : Bytes → Option α           -- `pickle.load(BytesIO(b))`; `none` = raises

/-- The name both sampler methods default to. -/
def defaultName : String := "sampler_state"

def dumpState {α} (P : Pickle α) (f : File) (path : Option Loc) (name : String)
    (protocol : Option Nat) (v : α) : Except Err File :=
  dumpBytes f path name (P.dumps protocol v)

def loadState {α} (P : Pickle α) (f : File) (path : Option Loc) (name : String) :
    Except Err (Option α) :=
  match loadBytes f path name with
  | .error e => .error e
  | .ok b => .ok (P.loads b)

/-- `BaseSampler.checkpoint(fp, path, dsetname)`: the default protocol. -/
def checkpoint {α} (P : Pickle α) (f : File) (path : Option Loc) (name : String) (state : α) :
    Except Err File :=
  dumpState P f path name none state

/-- `BaseSampler.set_state_from_checkpoint(fp, path)`: the argument handed to
    `set_state`.  There is no `dsetname` parameter: it always reads `sampler_state`. -/
def stateFromCheckpoint {α} (P : Pickle α) (f : File) (path : Option Loc) : Except Err (Option α) :=
  loadState P f path defaultName

/-! ## histories -/

structure DumpOp where
  path  : Option Loc
  name  : String
  bytes : Bytes
deriving Repr

def DumpOp.key (o : DumpOp) : Key := ⟨resolve o.path, o.name⟩

/-- A sequence of dumps, each of which succeeds. -/
def runDumps (f : File) : List DumpOp → Except Err File
  | [] => .ok f
  | o :: r => match dumpBytes f o.path o.name o.bytes with
    | .error e => .error e
    | .ok f' => runDumps f' r

/-- A sequence of dumps in which failing calls are caught and the run goes on
    (the file is what the failing call left). -/
def runDumpsCatching (f : File) : List DumpOp → File
  | [] => f
  | o :: r => runDumpsCatching (dumpPickleToHdf f o.path o.name o.bytes).1 r

/-- The bytes of the last dump addressed to `k`, if any. -/
def lastDump (k : Key) : List DumpOp → Option Bytes
  | [] => none
  | o :: r => match lastDump k r with
    | some b => some b
    | none => if o.key = k then some o.bytes else none

/-- Every dataset can be resized to any length (true of files written by epsie only). -/
def AllUnlimited (f : File) : Prop := ∀ k d, f.getDset k = some d → d.maxlen = none

/-- When does a dump of `n` bytes to `(path, name)` go through? -/
def Accepts (f : File) (path : Option Loc) (name : String) (n : Nat) : Prop :=
  (∃ g, f.getGroup path = .ok g ∧
    match f.getDset ⟨g, name⟩ with
    | some d => d.elems.length = n ∨ d.maxlen = none ∨ ∃ m, d.maxlen = some m ∧ n ≤ m
    | none => (g ++ [name]) ∉ f.groups)

/-! ## byte streams: the `memfp` argument of `dump_pickle_to_hdf`

  `dump_pickle_to_hdf(memfp, fp, path, dsetname)` is a public function of its own (documented
  argument: "memfp : file object — Bytes stream of pickled data"), not only the tail of
  `dump_state`.  A caller may hand it a stream in any state a seekable binary stream can be
  in: positioned at 0 (`BytesIO(data)`), at its end (just filled by `pickle.dump` /
  `write`, not rewound — this is what `dump_state` itself passes), in the middle (partially
  read), or beyond its end (`seek` past the end is legal for `BytesIO` and for files).
  The code rewinds (`memfp.seek(0)`) and reads everything (`memfp.read()`); both steps are
  in the model so that "the position is irrelevant" is a theorem about the code as written
  (`C20_stream_position_irrelevant`) and the harness feeds the real positions to the driver.
-/

/-- A seekable binary stream: all the bytes it holds and the position of the next
    read/write.  The position is not bounded by the length. -/
structure Stream where
  data : Bytes
  pos  : Nat
deriving DecidableEq, Repr

namespace Stream

/-- `BytesIO()` / a file just opened 'w+b'. -/
def empty : Stream := ⟨[], 0⟩

/-- `BytesIO(data)` / a file holding `data` just opened 'rb': position 0. -/
def ofBytes (b : Bytes) : Stream := ⟨b, 0⟩

/-- `memfp.seek(n)` (absolute; any `n`). -/
def seek (s : Stream) (n : Nat) : Stream := { s with pos := n }

/-- `memfp.read()`: the bytes from the position to the end — none at all when the position
    is at or beyond the end — and the stream afterwards (at its end, or where it was if that
    was beyond the end). -/
def read (s : Stream) : Bytes × Stream :=
  (s.data.drop s.pos, { s with pos := max s.pos s.data.length })

/-- `memfp.write(b)`: overwrites / extends at the position; a gap between the end and the
    position is filled with NUL bytes; writing nothing changes nothing. -/
def write (s : Stream) (b : Bytes) : Stream :=
  if b.isEmpty then s else
  ⟨s.data.take s.pos ++ List.replicate (s.pos - s.data.length) 0 ++ b ++ s.data.drop (s.pos + b.length),
   s.pos + b.length⟩

end Stream

/-- `dump_pickle_to_hdf(memfp, fp, path, dsetname)` as written: `memfp.seek(0)`, `memfp.read()`,
    then the h5py part with the bytes read.  Returns the file as the call left it, the
    exception raised if any, and the stream as the call left it. -/
def dumpPickleStream (f : File) (path : Option Loc) (name : String) (s : Stream) :
    (File × Option Err) × Stream :=
  let r := (s.seek 0).read
  (dumpPickleToHdf f path name r.1, r.2)

/-- `dump_state(state, fp, path, dsetname, protocol)` as written: a fresh `BytesIO`, pickled
    into (which leaves it positioned at its END), handed to `dump_pickle_to_hdf` as it is. -/
def dumpStateViaStream {α} (P : Pickle α) (f : File) (path : Option Loc) (name : String)
    (protocol : Option Nat) (v : α) : Except Err File :=
  let memfp := Stream.empty.write (P.dumps protocol v)
  match (dumpPickleStream f path name memfp).1 with
  | (f', none) => .ok f'
  | (_, some e) => .error e

/-! ## several files in one process -/

/-- The files open in one process, by handle.  Nothing else is shared between calls: the
    code keeps no state of its own (no module-level variables). -/
abbrev World := Nat → File

def World.set (w : World) (i : Nat) (f : File) : World := fun j => if j = i then f else w j

/-- `dump_pickle_to_hdf(memfp, files[i], path, dsetname)`. -/
def World.dump (w : World) (i : Nat) (path : Option Loc) (name : String) (s : Stream) :
    World × Option Err :=
  let r := (dumpPickleStream (w i) path name s).1
  (w.set i r.1, r.2)

/-- A dump addressed to a file of the world. -/
structure WorldOp where
  file : Nat
  op   : DumpOp
deriving Repr

/-- Interleaved dumps to several files, failing calls caught. -/
def runWorld (w : World) : List WorldOp → World
  | [] => w
  | o :: r => runWorld (w.dump o.file o.op.path o.op.name (Stream.ofBytes o.op.bytes)).1 r

end Checkpoint
end Epsie
