/-
  EpsieModel.Domain — the draw maps of the proposal families whose declared
  domain is restricted (property C12), as the code in
  `epsie/proposals/{bounded_normal,discrete,angular,bounded_eigenvector,solid_angle,birth}.py`
  computes them.  Core Lean only, executable (driven by `DriverDomain.lean`).

  * Base draws are oracle inputs: a jump takes the *stream of values returned by
    the generator* (`normal(mu, std)`, `normal(0, std)`, `random(2)`, ...), each an
    exact rational (every IEEE double is one).  The model decides the logic:
    the refusal from outside the bounds, the rejection loops (`fuel` bounds the
    number of draws one loop may examine; a finite stream may also run dry:
    both give `starved`, never a made-up value), the integer maps
    (`_floorceil`, `round` half-to-even, `int()`), the integer bounds of
    `BoundedDiscrete`, Python's float `%`, the `numpy.isclose` snapping of
    `BoundedEigenvector.__contains__`, and the branches of the solid-angle jump.
  * Arithmetic is exact over `Rat`.  IEEE rounding is *not* modelled; where the
    real code's behaviour depends on it (`log1p`/`arccos` of a rounded argument,
    `rxy > 0` at the pole) the value computed by the float code is an oracle input
    and the model branches on it explicitly (NaN outcomes).
-/
namespace Epsie.Domain

/-! ## Numbers -/

/-- `abs` on rationals. -/
def rabs (q : Rat) : Rat := if q < 0 then -q else q

/-- Python `int(x)` on a float: truncation toward zero. -/
def truncZ (q : Rat) : Int := if 0 ≤ q then q.floor else q.ceil

/-- `epsie.proposals.discrete._floorceil`: `numpy.sign(x) * numpy.ceil(abs(x))`
    — ceiling of positive values, floor of negative ones, `0` at `0`. -/
def floorceil (q : Rat) : Int :=
  if 0 < q then q.ceil else if q < 0 then q.floor else 0

/-- Python `round(x, 0)` on a float: nearest integer, ties to the even one. -/
def roundHalfEven (q : Rat) : Int :=
  let f := q.floor
  let r := q - (f : Rat)
  if r < 1/2 then f else if 1/2 < r then f + 1 else if f % 2 = 0 then f else f + 1

/-- Python's `a % m` on floats for `m > 0` (exact arithmetic): `a - m*floor(a/m)`. -/
def pyMod (a m : Rat) : Rat := a - m * ((a / m).floor : Rat)

/-- What one call of a jump can do. -/
inductive Outcome (α : Type) where
  | ok (y : α) (rest : List Rat)   -- proposed point and the draws not consumed
  | refuse                         -- `ValueError`: the start point is outside the bounds
  | starved                        -- fuel or draw stream exhausted inside a rejection loop
deriving Repr, DecidableEq

def Outcome.toOption {α} : Outcome α → Option α
  | .ok y _ => some y
  | _ => none

/-- The rejection loop `x = draw(); while not ok(x): x = draw()`: the first draw
    that passes, together with the remaining stream. -/
def firstIn (ok : Rat → Bool) : Nat → List Rat → Option (Rat × List Rat)
  | 0, _ => none
  | _, [] => none
  | f + 1, v :: vs => if ok v then some (v, vs) else firstIn ok f vs

/-- The stream of generator values of a *rejection-streak* scenario: for each loop in turn a list
    of values (meant to be rejected by that loop) followed by one more value (meant to be
    accepted), then whatever comes after (`rest`).  Used to state that the loops below never give
    up: however long the streaks, the accepted values are what a jump returns (`EpsieProps/C12`,
    `C12_rejection_streak_*`), which the harness checks on the real loops with streaks of up to
    250001 draws. -/
def streakStream : List (List Rat × Rat) → List Rat → List Rat
  | [], rest => rest
  | (pre, v) :: ps, rest => pre ++ v :: streakStream ps rest

/-! ## BoundedNormal -/

/-- `Boundaries`: a closed interval. -/
structure Box where
  lo : Rat
  hi : Rat
deriving Repr

/-- `BoundedNormal.__contains__` for one parameter: `bnds[0] <= val <= bnds[1]`. -/
def Box.contains (b : Box) (v : Rat) : Bool := decide (b.lo ≤ v) && decide (v ≤ b.hi)

/-- `fromx in self`: every parameter inside its interval. -/
def allIn : List Box → List Rat → Bool
  | [], _ => true
  | _ :: _, [] => true            -- a missing parameter is not tested ("subset allowed")
  | b :: bs, v :: vs => b.contains v && allIn bs vs

/-- The per-parameter loops of `BoundedNormal._jump`, in parameter order, on one
    shared stream of `normal(mu_p, std_p)` values. -/
def bnLoop (fuel : Nat) : List Box → List Rat → Option (List Rat × List Rat)
  | [], ds => some ([], ds)
  | b :: bs, ds =>
    match firstIn b.contains fuel ds with
    | none => none
    | some (y, ds') =>
      match bnLoop fuel bs ds' with
      | none => none
      | some (ys, r) => some (y :: ys, r)

/-- `BoundedNormal._jump`. -/
def bnJump (boxes : List Box) (x : List Rat) (fuel : Nat) (draws : List Rat) :
    Outcome (List Rat) :=
  if allIn boxes x then
    match bnLoop fuel boxes draws with
    | some (ys, r) => .ok ys r
    | none => .starved
  else .refuse

def bnJump? (boxes : List Box) (x : List Rat) (fuel : Nat) (draws : List Rat) :
    Option (List Rat) := (bnJump boxes x fuel draws).toOption

/-- The value `Generator.normal(mu, std)` returns for the standard normal `z`
    (exact arithmetic; the float code rounds twice). -/
def normalDraw (mu sd z : Rat) : Rat := mu + sd * z

/-! ## NormalDiscrete and BoundedDiscrete -/

/-- The integer step made from the real-valued draw `d = normal(0, std)`. -/
def dstep (successive : Bool) (d : Rat) : Int :=
  if successive then roundHalfEven d else floorceil d

/-- Which draws one parameter of the discrete proposals accepts as a jump: with successive
    jumps any draw, otherwise only a non-zero one (`while dx == 0: draw again`). -/
def ndOk (successive : Bool) (d : Rat) : Bool := successive || decide (d ≠ 0)

/-- `NormalDiscrete._jump`: per parameter the first acceptable draw (one draw when successive
    jumps are allowed; otherwise draws of exactly zero are drawn again), no bounds, no refusal. -/
def ndLoop (fuel : Nat) : List Bool → List Rat → List Rat → Option (List Int × List Rat)
  | [], _, ds => some ([], ds)
  | _ :: _, [], _ => none
  | s :: ss, x :: xs, ds =>
    match firstIn (ndOk s) fuel ds with
    | none => none
    | some (d, ds') =>
      match ndLoop fuel ss xs ds' with
      | none => none
      | some (ys, r) => some ((truncZ x + dstep s d) :: ys, r)

def ndJump (succ : List Bool) (x : List Rat) (fuel : Nat) (draws : List Rat) : Outcome (List Int) :=
  match ndLoop fuel succ x draws with
  | some (ys, r) => .ok ys r
  | none => .starved

def ndJump? (succ : List Bool) (x : List Rat) (fuel : Nat) (draws : List Rat) : Option (List Int) :=
  (ndJump succ x fuel draws).toOption

/-- A parameter of `BoundedDiscrete`: the bounds as given to the constructor and
    the `successive` toggle. -/
structure DBox where
  lo : Rat
  hi : Rat
  succ : Bool
deriving Repr

/-- `int(numpy.floor(b.lower))`. -/
def DBox.ilo (b : DBox) : Int := b.lo.floor
/-- `int(numpy.ceil(b.upper))`. -/
def DBox.ihi (b : DBox) : Int := b.hi.ceil

/-- The integer interval the proposal really uses. -/
def DBox.box (b : DBox) : Box := { lo := (b.ilo : Rat), hi := (b.ihi : Rat) }

def DBox.containsZ (b : DBox) (k : Int) : Bool := decide (b.ilo ≤ k) && decide (k ≤ b.ihi)

/-- The acceptance test of one draw in `BoundedDiscrete._jump`:
    `(newpt in self) and (self.successive[p] or deltax != 0)`. -/
def DBox.accepts (b : DBox) (x0 : Int) (d : Rat) : Bool :=
  b.containsZ (x0 + dstep b.succ d) && (b.succ || decide (dstep b.succ d ≠ 0))

/-- The loop of one parameter: `x0 = int(fromx[p])`; draw until `x0 + step` is inside
    (and, unless successive jumps are allowed, the step is not zero). -/
def bdFirst (b : DBox) (x0 : Int) : Nat → List Rat → Option (Int × List Rat)
  | 0, _ => none
  | _, [] => none
  | f + 1, d :: ds =>
    if b.accepts x0 d then some (x0 + dstep b.succ d, ds)
    else bdFirst b x0 f ds

def bdLoop (fuel : Nat) : List DBox → List Rat → List Rat → Option (List Int × List Rat)
  | [], _, ds => some ([], ds)
  | _ :: _, [], _ => none
  | b :: bs, x :: xs, ds =>
    match bdFirst b (truncZ x) fuel ds with
    | none => none
    | some (y, ds') =>
      match bdLoop fuel bs xs ds' with
      | none => none
      | some (ys, r) => some (y :: ys, r)

/-- `BoundedDiscrete._jump` (the start check is made on the raw start values
    against the integer bounds). -/
def bdJump (boxes : List DBox) (x : List Rat) (fuel : Nat) (draws : List Rat) :
    Outcome (List Int) :=
  if allIn (boxes.map DBox.box) x then
    match bdLoop fuel boxes x draws with
    | some (ys, r) => .ok ys r
    | none => .starved
  else .refuse

def bdJump? (boxes : List DBox) (x : List Rat) (fuel : Nat) (draws : List Rat) :
    Option (List Int) := (bdJump boxes x fuel draws).toOption

/-! ## Angular -/

/-- `_halfwidth` (= 1), `_invfactor` (= fl(1/π)), `_factor` (= fl(π)). -/
structure AngCfg where
  h : Rat
  invf : Rat
  f : Rat
deriving Repr

/-- `Angular._apply_cyclic`. -/
def wrap (c : AngCfg) (v : Rat) : Rat := pyMod v (2 * c.h)

/-- One parameter of `Angular._jump`: reject while `abs(newpt) > _halfwidth`, add the
    start value (in units of π), wrap, convert back. -/
def angOne (c : AngCfg) (x : Rat) (fuel : Nat) (draws : List Rat) : Option (Rat × List Rat) :=
  match firstIn (fun v => decide (rabs v ≤ c.h)) fuel draws with
  | none => none
  | some (v, r) => some (wrap c (v + x * c.invf) * c.f, r)

def angLoop (c : AngCfg) (fuel : Nat) : List Rat → List Rat → Option (List Rat × List Rat)
  | [], ds => some ([], ds)
  | x :: xs, ds =>
    match angOne c x fuel ds with
    | none => none
    | some (y, ds') =>
      match angLoop c fuel xs ds' with
      | none => none
      | some (ys, r) => some (y :: ys, r)

/-- `Angular._jump`: never refuses (any real start value is wrapped). -/
def angJump (c : AngCfg) (x : List Rat) (fuel : Nat) (draws : List Rat) : Outcome (List Rat) :=
  match angLoop c fuel x draws with
  | some (ys, r) => .ok ys r
  | none => .starved

def angJump? (c : AngCfg) (x : List Rat) (fuel : Nat) (draws : List Rat) : Option (List Rat) :=
  (angJump c x fuel draws).toOption

/-! ## BoundedEigenvector -/

/-- `numpy.isclose` defaults. -/
def atol : Rat := 1 / 100000000
def rtol : Rat := 1 / 100000

/-- `numpy.isclose(a, b)`: `|a - b| <= atol + rtol*|b|` (`b` is the bound). -/
def isclose (a b : Rat) : Bool := decide (rabs (a - b) ≤ atol + rtol * rabs b)

/-- The snapping of `BoundedEigenvector.__contains__`: a value within tolerance of
    the lower face is replaced by it, else one within tolerance of the upper face. -/
def Box.snap (b : Box) (v : Rat) : Rat :=
  if isclose v b.lo then b.lo else if isclose v b.hi then b.hi else v

def Box.containsTol (b : Box) (v : Rat) : Bool := b.contains (b.snap v)

def allInTol : List Box → List Rat → Bool
  | [], _ => true
  | _ :: _, [] => true
  | b :: bs, v :: vs => b.containsTol v && allInTol bs vs

/-- The candidate `fromx + dx * eigvects[:, ind]` (exact arithmetic). -/
def beCand (x e : List Rat) (dx : Rat) : List Rat :=
  List.zipWith (fun xi ei => xi + dx * ei) x e

/-- First candidate point that is inside the box up to the tolerance. -/
def beFirst (boxes : List Box) : Nat → List (List Rat) → Option (List Rat × Nat)
  | 0, _ => none
  | _, [] => none
  | f + 1, c :: cs =>
    if allInTol boxes c then some (c, 1)
    else match beFirst boxes f cs with
      | none => none
      | some (y, k) => some (y, k + 1)

/-- What `BoundedEigenvector._jump` does with a stream of candidate points. -/
inductive BEOutcome where
  | ok (y : List Rat) (used : Nat)
  | refuse
  | starved
deriving Repr, DecidableEq

def beJump (boxes : List Box) (x : List Rat) (fuel : Nat) (cands : List (List Rat)) : BEOutcome :=
  if allInTol boxes x then
    match beFirst boxes fuel cands with
    | some (y, k) => .ok y k
    | none => .starved
  else .refuse

def beJump? (boxes : List Box) (x : List Rat) (fuel : Nat) (cands : List (List Rat)) :
    Option (List Rat) :=
  match beJump boxes x fuel cands with
  | .ok y _ => some y
  | _ => none

/-- The jump as a map of the base draws `dx = normal(0, eigval)` along the chosen
    eigenvector `e`. -/
def beJumpDraws? (boxes : List Box) (x e : List Rat) (fuel : Nat) (dxs : List Rat) :
    Option (List Rat) := beJump? boxes x fuel (dxs.map (beCand x e))

/-! ## Birth distributions -/

/-- `UniformBirth.birth`: `Generator.uniform(lo, hi)` = `lo + (hi - lo)*u`. -/
def birthUniform (b : Box) (u : Rat) : Rat := b.lo + (b.hi - b.lo) * u

/-- `NormalBirth.birth`. -/
def birthNormal (mu sd z : Rat) : Rat := normalDraw mu sd z

/-- `LogNormalBirth.birth` = `exp(mu_log + std_log*z)`; the exponential is an oracle
    (`e`, the float result).  A float exponential can underflow to `0`, where the
    log-normal density is not positive: that is the explicit `none` branch. -/
def birthLogNormal (e : Rat) : Option Rat := if 0 < e then some e else none

/-! ## IsotropicSolidAngle -/

/-- An extended real as numpy produces it. -/
inductive XR where
  | fin (q : Rat)
  | nan
  | pinf
  | ninf
deriving Repr, DecidableEq, Inhabited

/-- One call of a numpy function made by the real code: the argument(s) it was
    given and the value it returned. -/
structure Site where
  arg : XR
  arg2 : XR := .fin 0
  val : XR
deriving Repr, Inhabited

/-- The float constants the code uses. -/
structure Consts where
  pi : Rat        -- numpy.pi
  d2r : Rat       -- numpy.pi / 180.
  r2d : Rat       -- 180. / numpy.pi
deriving Repr

structure SACfg where
  radec : Bool
  degs : Bool
  kappa : Rat
deriving Repr

/-- The numpy calls of one `_jump`, in the order the code makes them. -/
structure SAOracle where
  sinT0 : Site    -- _spherical2cartesian(start): sin(theta)
  cosP0 : Site
  sinP0 : Site
  cosT0 : Site
  expm1 : Site    -- _new_point: expm1(-2 kappa)
  log1p : Site    --             log1p(cdf * expm1(-2 kappa))
  clipW : Site    --             clip(1 + log1p(..)/kappa, -1, 1)
  acosW : Site    --             arccos(clipped)
  sinT1 : Site    -- _spherical2cartesian(new point)
  cosP1 : Site
  sinP1 : Site
  cosT1 : Site
  acosMz : Site   -- _rotmat: beta = arccos(mu[2])
  sqrtR : Site    --          rxy = sqrt(mu[0]**2 + mu[1]**2)
  acosG : Option Site  --     gamma = arccos(mu[0] / rxy), a call made only if rxy > 0
  sinB : Site
  sinG : Site
  cosB : Site
  cosG : Site
  atan2 : Site    -- _cartesian2spherical: arctan2(y, x)
  acosZ : Site    --                       arccos(z)
deriving Repr

inductive SAOut where
  | ok (phi theta : Rat) (dev : Rat)     -- the proposed pair; dev = largest normalised
                                         -- distance between an argument the model computed
                                         -- exactly and the one the float code passed
  | nan (site : String) (dev : Rat)      -- the code returns a NaN coordinate; where it arises
  | desync (site : String)               -- the oracle record does not fit the model
deriving Repr, DecidableEq

/-- Conversion of the start point done by `_spherical2cartesian(..., convert=True)`:
    to radians, polar angle measured from the north pole. -/
def saToColat (k : Consts) (c : SACfg) (phi theta : Rat) : Rat × Rat :=
  let theta := if c.radec then (if c.degs then theta + 90 else theta + k.pi / 2) else theta
  if c.degs then (phi * k.d2r, theta * k.d2r) else (phi, theta)

/-- Conversion of the result done by `_cartesian2spherical(..., convert=True)` from
    the values `a = arctan2(y, x)` and `t = arccos(z)`. -/
def saFromColat (k : Consts) (c : SACfg) (a t : Rat) : Rat × Rat :=
  let phi := if a < 0 then a + 2 * k.pi else a
  let phi := if c.degs then phi * k.r2d else phi
  let t := if c.degs then t * k.r2d else t
  let t := if c.radec then (if c.degs then t - 90 else t - k.pi / 2) else t
  (phi, t)

/-- `numpy.clip(x, -1, 1)` on a finite value. -/
def clip1 (q : Rat) : Rat := if q < -1 then -1 else if 1 < q then 1 else q

/-- `numpy.clip(x, -1, 1)` on what numpy may hand it: infinities are clipped, NaN stays. -/
def clipXR : XR → XR
  | .fin q => .fin (clip1 q)
  | .pinf => .fin 1
  | .ninf => .fin (-1)
  | .nan => .nan

/-- `R(beta, gamma) · v` with the entries of `_rotmat`. -/
def rotApply (sb cb sg cg : Rat) (v : Rat × Rat × Rat) : Rat × Rat × Rat :=
  let (x, y, z) := v
  (cb * cg * x - sg * y + sb * cg * z,
   cb * sg * x + cg * y + sb * sg * z,
   -sb * x + cb * z)

/-- Distance between the argument the model computed and the one recorded, in units
    of `scale` (`none`: the recorded argument is not finite). -/
def argDev (s : XR) (m scale : Rat) : Option Rat :=
  match s with
  | .fin a => some (rabs (a - m) / (if scale < 1 then 1 else scale))
  | _ => none

def maxR (a b : Rat) : Rat := if a < b then b else a

/-- A site whose argument must be finite and agree, and whose value must be finite. -/
def useFin (name : String) (s : Site) (m scale dev : Rat) : Except SAOut (Rat × Rat) :=
  match argDev s.arg m scale, s.val with
  | some d, .fin v => .ok (v, maxR dev d)
  | _, _ => .error (.desync name)

/-- An `arccos` site: value finite iff the recorded argument is in [-1, 1]; outside
    (or not finite) numpy returns NaN. -/
def useAcos (name : String) (s : Site) (m dev : Rat) : Except SAOut (Rat × Rat) :=
  match s.arg with
  | .fin a =>
    let d := maxR dev (rabs (a - m))
    if decide (-1 ≤ a) && decide (a ≤ 1) then
      match s.val with
      | .fin v => .ok (v, d)
      | _ => .error (.desync name)
    else
      match s.val with
      | .nan => .error (.nan name d)
      | _ => .error (.desync name)
  | _ =>
    match s.val with
    | .nan => .error (.nan name dev)
    | _ => .error (.desync name)

/-- `IsotropicSolidAngle._jump` from `(phi0, theta0)` with the two uniforms
    `(u1, u2) = random(size=2)`. -/
def saJumpE (k : Consts) (c : SACfg) (phi0 theta0 u1 u2 : Rat) (o : SAOracle) :
    Except SAOut SAOut := do
  let (p0, t0) := saToColat k c phi0 theta0
  -- mu = _spherical2cartesian(start)
  let (st0, dev) ← useFin "sinT0" o.sinT0 t0 (rabs t0) 0
  let (cp0, dev) ← useFin "cosP0" o.cosP0 p0 (rabs p0) dev
  let (sp0, dev) ← useFin "sinP0" o.sinP0 p0 (rabs p0) dev
  let (ct0, dev) ← useFin "cosT0" o.cosT0 t0 (rabs t0) dev
  let mu : Rat × Rat × Rat := (st0 * cp0, st0 * sp0, ct0)
  -- _new_point
  let phi1 := u1 * (2 * k.pi)
  let (em, dev) ← useFin "expm1" o.expm1 (-2 * c.kappa) (rabs (2 * c.kappa)) dev
  -- log1p: the code takes it of the float product cdf*expm1(..) (recorded argument); below -1
  -- numpy returns NaN, at -1 it returns -inf
  let Ar ← match o.log1p.arg with
    | .fin a => pure a
    | _ => throw (.desync "log1p")
  let dev := maxR dev (rabs (Ar - u2 * em))
  if Ar < -1 then
    match o.log1p.val with
    | .nan => throw (.nan "vmf-log1p" dev)
    | _ => throw (.desync "log1p")
  -- costheta = 1 + log1p(..)/kappa, then clip(costheta, -1, 1): exact on the recorded argument
  let (cosT, dev) ← match o.log1p.val with
    | .fin L =>
      match argDev o.clipW.arg (1 + L / c.kappa) 1 with
      | some d => pure (o.clipW.arg, maxR dev d)
      | none => throw (.desync "clipW")
    | .ninf => if o.clipW.arg = .ninf then pure (XR.ninf, dev) else throw (.desync "clipW")
    | _ => throw (.desync "log1p")
  let w ← match clipXR cosT with
    | .fin w => if o.clipW.val = .fin w then pure w else throw (.desync "clipW")
    | _ => throw (.desync "clipW")
  let (t1, dev) ← useAcos "vmf-arccos" o.acosW w dev
  let (st1, dev) ← useFin "sinT1" o.sinT1 t1 (rabs t1) dev
  let (cp1, dev) ← useFin "cosP1" o.cosP1 phi1 (rabs phi1) dev
  let (sp1, dev) ← useFin "sinP1" o.sinP1 phi1 (rabs phi1) dev
  let (ct1, dev) ← useFin "cosT1" o.cosT1 t1 (rabs t1) dev
  let xi : Rat × Rat × Rat := (st1 * cp1, st1 * sp1, ct1)
  -- _rotmat(mu)
  let (beta, dev) ← useAcos "rot-beta" o.acosMz mu.2.2 dev
  let r := mu.1 * mu.1 + mu.2.1 * mu.2.1
  let (sq, dev) ← useFin "sqrtR" o.sqrtR r 1 dev
  -- `if rxy > 0: gamma = arccos(mu[0]/rxy), reflected when mu[1] < 0; else: gamma = 0` (at a
  -- pole the azimuthal rotation is arbitrary and no arccos call is made)
  let (gamma, dev) ← if 0 < sq then
      match o.acosG with
      | some site => do
        let (g0, dev) ← useAcos "rot-gamma" site (mu.1 / sq) dev
        pure (if mu.2.1 < 0 then 2 * k.pi - g0 else g0, dev)
      | none => throw (.desync "acosG")
    else
      match o.acosG with
      | none => pure ((0 : Rat), dev)
      | some _ => throw (.desync "acosG")
  let (sb, dev) ← useFin "sinB" o.sinB beta 1 dev
  let (sg, dev) ← useFin "sinG" o.sinG gamma 1 dev
  let (cb, dev) ← useFin "cosB" o.cosB beta 1 dev
  let (cg, dev) ← useFin "cosG" o.cosG gamma 1 dev
  let v := rotApply sb cb sg cg xi
  -- _cartesian2spherical
  let a ← match argDev o.atan2.arg v.2.1 1, argDev o.atan2.arg2 v.1 1, o.atan2.val with
    | some d1, some d2, .fin a => pure (a, maxR (maxR dev d1) d2)
    | _, _, _ => throw (.desync "atan2")
  let (a, dev) := a
  let (t, dev) ← useAcos "out-arccos" o.acosZ v.2.2 dev
  let (phi, theta) := saFromColat k c a t
  pure (.ok phi theta dev)

def saJump (k : Consts) (c : SACfg) (phi0 theta0 u1 u2 : Rat) (o : SAOracle) : SAOut :=
  match saJumpE k c phi0 theta0 u1 u2 o with
  | .ok r => r
  | .error r => r

end Epsie.Domain
