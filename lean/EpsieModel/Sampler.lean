/-
  EpsieModel.Sampler — `BaseSampler` (samplers/base.py): a list of independent
  chains; `run` = scratch growth + `map(_evolve_chain, chains)`; `clear`;
  `state` / `set_state`.
-/
import EpsieModel.PTChain
namespace Epsie

structure Sampler where
  chains : List PTChain
deriving Inhabited

namespace Sampler

/-- `_evolve_chain`: `n` successive steps of one chain; `ins` holds the oracle
    values of each step. -/
def evolve (c : PTChain) : List PTChain.StepIn → Option PTChain
  | [] => some c
  | i :: is => do
      let c' ← c.step i
      evolve c' is

def evolveAll : List PTChain → List (List PTChain.StepIn) → Option (List PTChain)
  | [], _ => some []
  | c :: cs, i :: is => do
      let c' ← evolve c i
      let cs' ← evolveAll cs is
      pure (c' :: cs')
  | _ :: _, [] => none

/-- `Sampler.run(n)`; `ins[c]` has the `n` step inputs of chain `c`. -/
def run (s : Sampler) (n : Nat) (ins : List (List PTChain.StepIn)) : Option Sampler := do
  let cs ← evolveAll (s.chains.map (·.extendFor n)) ins
  pure { chains := cs }

def clear (s : Sampler) : Sampler := { chains := s.chains.map PTChain.clear }

def save (s : Sampler) : Option (List (List Chain.Saved)) := s.chains.mapM PTChain.save

def loadChains : List PTChain → List (List Chain.Saved) → List PTChain
  | c :: cs, s :: ss => c.load s :: loadChains cs ss
  | cs, _ => cs

def load (s : Sampler) (sv : List (List Chain.Saved)) : Sampler :=
  { chains := loadChains s.chains sv }

/-- Total number of evaluations of the user's model so far. -/
def calls (s : Sampler) : Nat :=
  (s.chains.map fun c => (c.levels.map (·.calls)).sum).sum

end Sampler
end Epsie
