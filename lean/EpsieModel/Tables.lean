/-
  EpsieModel.Tables — the shape of the facts that `harness/gen_tables.py`
  measures on the live classes of /repo on every run (the generated instance is
  `EpsieModel/Generated/Tables.lean`), and the decidable predicates that the
  general theorems take as hypotheses.
-/
import EpsieModel.Proposal
namespace Epsie

/-- An array-valued attribute of a proposal and how `_update`, `state` and
    `set_state` treat it. -/
structure Buffer where
  attr : String
  inplace : Bool          -- `_update` mutates the array object in place
  liveInState : Bool      -- `state` hands out (a view of) the live array
  aliasedByLoad : Bool    -- `set_state` keeps (a view of) the caller's array
deriving DecidableEq

/-- An entry of `_initial_proposal_params`. -/
structure ResetBuf where
  attr : String
  inplace : Bool
  resetAliases : Bool     -- after `_reset_adaptation` the live attribute *is* the stored initial array
deriving DecidableEq

structure Family where
  name : String
  known : Bool                 -- the harness knows how to build and drive it
  symmetric : Bool
  adaptive : Bool
  window : Window
  savesNsteps : Bool           -- `state` has the step counter
  savesStartStep : Bool
  restoresNsteps : Bool        -- `set_state(state)` reproduces the counter in a fresh instance
  passesJumpInterval : Bool    -- the constructor honours `jump_interval` and the configured duration (also with a later start step)
  digestRoundTrip : Bool       -- fresh.set_state(pickle(state)) reproduces every distribution field bit for bit
  snapshotStable : Bool        -- running on does not change an earlier `state` object
  loadDecoupled : Bool         -- running a proposal loaded from a state object changes neither that object nor its source
  resetRestores1 : Bool        -- first reset restores the construction-time distribution
  resetRestores2 : Bool        -- second reset does too
  resetStartStep : Bool        -- reset sets `start_step = nsteps`
  buffers : List Buffer
  resets : List ResetBuf
deriving DecidableEq

structure Site where
  file : String
  func : String
  line : Nat
  kind : String
deriving DecidableEq

/-! ### Decidable side conditions of the general theorems -/

/-- C05/C15: everything a future step reads is carried by `state` and restored. -/
def StateComplete (tbl : List Family) : Prop :=
  ∀ f ∈ tbl, f.known = true ∧ f.savesNsteps = true ∧ f.restoresNsteps = true ∧
    (f.adaptive = true → f.savesStartStep = true) ∧ f.digestRoundTrip = true

/-- C15: a requested jump interval reaches the base class. -/
def JumpIntervalHonoured (tbl : List Family) : Prop :=
  ∀ f ∈ tbl, f.passesJumpInterval = true

/-- C16: every array that an update mutates in place is copied by `state` and by `set_state`. -/
def CopyDiscipline (tbl : List Family) : Prop :=
  ∀ f ∈ tbl, ∀ b ∈ f.buffers, b.inplace = true → b.liveInState = false ∧ b.aliasedByLoad = false

/-- C16, behavioural form measured on a forced history. -/
def SnapshotIsValue (tbl : List Family) : Prop :=
  ∀ f ∈ tbl, f.snapshotStable = true ∧ f.loadDecoupled = true

/-- C19: stored initial arrays are never handed out for in-place mutation, and a
    reset restores the construction-time distribution the first and the second time. -/
def ResetDiscipline (tbl : List Family) : Prop :=
  ∀ f ∈ tbl, f.adaptive = true →
    (∀ b ∈ f.resets, b.inplace = true → b.resetAliases = false) ∧
    f.resetRestores1 = true ∧ f.resetRestores2 = true ∧ f.resetStartStep = true

instance (tbl : List Family) : Decidable (StateComplete tbl) := by unfold StateComplete; infer_instance
instance (tbl : List Family) : Decidable (JumpIntervalHonoured tbl) := by unfold JumpIntervalHonoured; infer_instance
instance (tbl : List Family) : Decidable (CopyDiscipline tbl) := by unfold CopyDiscipline; infer_instance
instance (tbl : List Family) : Decidable (SnapshotIsValue tbl) := by unfold SnapshotIsValue; infer_instance
instance (tbl : List Family) : Decidable (ResetDiscipline tbl) := by unfold ResetDiscipline; infer_instance

end Epsie
