/-
  EpsieModel.Alias — object identity of the mutable buffers of jump proposals.

  Python object identity cannot be seen in a pure model, so the two properties
  that are about it (C16: a state snapshot is a value; C19: a reset restores the
  construction-time distribution every time) get an explicit store:

  * a heap `Loc → Buf` of array objects (a buffer is a list of rationals or an
    opaque value id);
  * an attribute of a proposal that defines its distribution (`_std`, `_cov`,
    `_mean`, `_unit_cov`, `_log_lambda`, `_mu`, …) is a `Field`: the location it
    is bound to (`cur`) and its entry of `_initial_proposal_params` (`init`);
  * `_update` writes a field either in place (same location: `*=`, `+=`) or by
    re-binding (fresh location), `state` hands out the location or a copy,
    `set_state` stores the location it is given or a copy, `_reset_adaptation`
    assigns the stored location or a copy — each per `FieldSpec`, whose bits are
    *measured on the live classes* on every run (`harness/gen_alias.py` →
    `EpsieModel/Generated/Alias.lean`; the coarser `Buffer`/`ResetBuf` entries
    of `EpsieModel/Generated/Tables.lean` map into it with `ofBuffer`);
  * samplers are sets of fields over one heap; the operations (`EOp`) are
    construction, update, snapshot, load (into any number of samplers from ONE
    snapshot object, no serialisation) and reset, in any interleaving and at
    the granularity of single attributes (every sampler-level operation is a
    list of these, so every interleaving of sampler-level operations is one of
    the interleavings quantified over).

  What the code rejects: nothing any more at a reset.  `_reset_adaptation` assigns
  `self.start_step = max(self.nsteps, 1)` through the `start_step` setter, which
  still raises `ValueError` for a value `< 1` (`setStartStep`); the value it is
  given is never one (`C19_reset_always_succeeds`).  `Chain.reset_proposals`
  swallows the `AttributeError` of proposals without adaptation.  (A class deriving
  from `BaseAdaptiveSupport` that never fills `_initial_proposal_params` would raise
  `NotImplementedError`; no exported class is like that — the generator's
  `aliasProbeErrors` would show it.)

  Core Lean only; executable (`DriverAlias.lean`).
-/
import EpsieModel.Tables
namespace Epsie.Alias

/-- The content of one array object. -/
inductive Buf where
  | nums (l : List Rat)
  | opaque (id : Nat)
deriving DecidableEq, Inhabited

/-- An array object's identity. Every sampler allocates in its own region with
    its own counter (this is only a naming scheme for fresh objects: it makes
    "the same run without the others" produce literally the same names). -/
structure Loc where
  reg : Nat
  off : Nat
deriving DecidableEq, Inhabited

/-- What `_reset_adaptation` does to an attribute. -/
inductive ResetMode where
  | none        -- not touched
  | alias       -- `setattr(self, attr, stored)` : the stored object itself is installed
  | copy        -- a copy of the stored value is installed (or the value is immutable)
  | recompute   -- not stored, but re-assigned by the reset from the restored attributes
deriving DecidableEq, Inhabited

/-- How the code treats one distribution-defining attribute (all bits measured). -/
structure FieldSpec where
  attr : String
  adapted : Bool         -- some `_update` changes its value
  inplace : Bool         -- `_update` mutates the bound array object in place
  hot : Bool             -- the bound object is at some time mutated in place (through this
                         --   attribute or through another one sharing its memory)
  inState : Bool         -- `state` carries it
  liveInState : Bool     -- `state` hands out (a view of) a live array
  aliasedByLoad : Bool   -- `set_state` keeps (a view of) the caller's array
  storeAliases : Bool    -- `_initial_proposal_params[attr]` is the live array at construction
  reset : ResetMode
deriving DecidableEq, Inhabited

/-- A measured constructor variant of a proposal family. -/
structure Variant where
  name : String
  family : String
  known : Bool
  adaptive : Bool
  snapshotStable : Bool        -- running on changed no earlier `state` object (forced history)
  loadDecoupled : Bool         -- a sampler set from a state object and its source did not affect each other
  resetRestores : List Bool    -- 1st, 2nd, 3rd reset restored the construction-time distribution
  resetStartStep : Bool        -- each reset set `start_step = max(nsteps, 1)`
  staleAfterReset : List String -- attributes that differ from construction right after the first reset
  fields : List FieldSpec
deriving DecidableEq, Inhabited

/-! ### Decidable side conditions on measured specs -/

/-- C16: an array that is ever mutated in place is copied by `state`; one that the
    attribute itself mutates in place is also copied by `set_state`. -/
def FieldSpec.copyOK (f : FieldSpec) : Prop :=
  (f.inplace = true → f.hot = true ∧ f.aliasedByLoad = false) ∧ (f.hot = true → f.liveInState = false)

/-- C19: the stored initial array is never handed out for in-place mutation. -/
def FieldSpec.resetSafe (f : FieldSpec) : Prop :=
  (f.inplace = true → f.reset ≠ .alias ∧ f.storeAliases = false) ∧ (f.hot = true → f.storeAliases = false)

/-- C19: whatever an update can change, a reset restores or recomputes. -/
def FieldSpec.resetComplete (f : FieldSpec) : Prop := f.adapted = true → f.reset ≠ .none

instance (f : FieldSpec) : Decidable f.copyOK := by unfold FieldSpec.copyOK; infer_instance
instance (f : FieldSpec) : Decidable f.resetSafe := by unfold FieldSpec.resetSafe; infer_instance
instance (f : FieldSpec) : Decidable f.resetComplete := by unfold FieldSpec.resetComplete; infer_instance

def CopyOK (tbl : List Variant) : Prop :=
  ∀ v ∈ tbl, v.known = true ∧ ∀ f ∈ v.fields, f.copyOK

def ResetOK (tbl : List Variant) : Prop :=
  ∀ v ∈ tbl, v.known = true ∧ (v.adaptive = true → ∀ f ∈ v.fields, f.resetSafe ∧ f.resetComplete)

/-- The behaviour measured on the forced history is what the discipline predicts. -/
def BehavesAsValue (tbl : List Variant) : Prop :=
  ∀ v ∈ tbl, v.snapshotStable = true ∧ v.loadDecoupled = true

def BehavesRestored (tbl : List Variant) : Prop :=
  ∀ v ∈ tbl, v.adaptive = true →
    v.resetRestores.length = 3 ∧ (∀ b ∈ v.resetRestores, b = true) ∧ v.resetStartStep = true ∧
    v.staleAfterReset = []

/-- Soundness of the model against the measured behaviour: wherever the measured
    discipline holds, the measured behaviour is the one the theorems predict. -/
def ModelSoundC16 (tbl : List Variant) : Prop :=
  ∀ v ∈ tbl, (∀ f ∈ v.fields, f.copyOK) → v.snapshotStable = true ∧ v.loadDecoupled = true

def ModelSoundC19 (tbl : List Variant) : Prop :=
  ∀ v ∈ tbl, v.adaptive = true → (∀ f ∈ v.fields, f.resetSafe ∧ f.resetComplete) →
    (∀ b ∈ v.resetRestores, b = true) ∧ v.staleAfterReset = []

instance (tbl : List Variant) : Decidable (CopyOK tbl) := by unfold CopyOK; infer_instance
instance (tbl : List Variant) : Decidable (ResetOK tbl) := by unfold ResetOK; infer_instance
instance (tbl : List Variant) : Decidable (BehavesAsValue tbl) := by unfold BehavesAsValue; infer_instance
instance (tbl : List Variant) : Decidable (BehavesRestored tbl) := by unfold BehavesRestored; infer_instance
instance (tbl : List Variant) : Decidable (ModelSoundC16 tbl) := by unfold ModelSoundC16; infer_instance
instance (tbl : List Variant) : Decidable (ModelSoundC19 tbl) := by unfold ModelSoundC19; infer_instance

/-! ### The coarser entries of `Generated/Tables.lean` as specs -/

/-- A `buffers` entry of the family table. That table measures in-place mutation
    through the attribute itself, so `hot = inplace`; it does not see the
    construction-time store (taken as a copy; `Generated/Alias.lean` measures it). -/
def ofBuffer (b : Buffer) (r : Option ResetBuf) : FieldSpec :=
  { attr := b.attr, adapted := true, inplace := b.inplace, hot := b.inplace, inState := true
    liveInState := b.liveInState, aliasedByLoad := b.aliasedByLoad, storeAliases := false
    reset := match r with
      | none => .none
      | some r => if r.resetAliases then .alias else .copy }

/-- A `resets` entry of the family table that has no `buffers` entry. -/
def ofReset (r : ResetBuf) : FieldSpec :=
  { attr := r.attr, adapted := true, inplace := r.inplace, hot := r.inplace, inState := false
    liveInState := false, aliasedByLoad := false, storeAliases := false
    reset := if r.resetAliases then .alias else .copy }

/-- An attribute the family table does not list: never mutated in place. -/
def plainSpec (attr : String) (inState : Bool) (live aliased : Bool) (r : ResetMode) : FieldSpec :=
  { attr := attr, adapted := true, inplace := false, hot := false, inState := inState
    liveInState := live, aliasedByLoad := aliased, storeAliases := false, reset := r }

/-- The specs a family of the table gives rise to. -/
def specsOf (f : Family) : List FieldSpec :=
  f.buffers.map (fun b => ofBuffer b (f.resets.find? (·.attr = b.attr))) ++
  (f.resets.filter (fun r => !f.buffers.any (·.attr = r.attr))).map ofReset

/-! ### The store -/

structure Field where
  spec : FieldSpec
  cur : Loc                -- the array object the attribute is bound to
  init : Option Loc        -- its entry of `_initial_proposal_params`
  v0 : Buf                 -- (ghost) the attribute's content at construction
deriving DecidableEq, Inhabited

structure World where
  heap : Loc → Buf
  next : Nat → Nat                        -- per region: first unused offset
  fld : Nat → Nat → Option Field          -- sampler, slot
  snap : Nat → Nat → Nat → Option Loc     -- source sampler, snapshot object, slot

instance : Inhabited World := ⟨⟨fun _ => default, fun _ => 0, fun _ _ => none, fun _ _ _ => none⟩⟩

namespace World

def empty : World := default

/-- A fresh array object in region `r` with content `v`. -/
def alloc (w : World) (r : Nat) (v : Buf) : World × Loc :=
  let l : Loc := ⟨r, w.next r⟩
  ({ w with heap := fun x => if x = l then v else w.heap x
            next := fun r' => if r' = r then w.next r + 1 else w.next r' }, l)

/-- In-place mutation of the object at `l`. -/
def store (w : World) (l : Loc) (v : Buf) : World :=
  { w with heap := fun x => if x = l then v else w.heap x }

def setFld (w : World) (s j : Nat) (f : Field) : World :=
  { w with fld := fun s' j' => if s' = s ∧ j' = j then some f else w.fld s' j' }

def setSnap (w : World) (s k j : Nat) (l : Loc) : World :=
  { w with snap := fun s' k' j' => if s' = s ∧ k' = k ∧ j' = j then some l else w.snap s' k' j' }

/-- Re-bind field `(s, j)` to a fresh object with content `v`. -/
def rebind (w : World) (s j : Nat) (f : Field) (v : Buf) : World :=
  (w.alloc s v).1.setFld s j { f with cur := (w.alloc s v).2 }

end World

/-- Elementary operations (one attribute at a time). -/
inductive EOp where
  | construct (s j : Nat) (spec : FieldSpec) (v : Buf) (share : Option Nat)
      -- `__init__`/`setup_adaptation` binds attribute `j` of sampler `s` (to the array of
      -- attribute `share` of the same proposal when given: `self._cov = self._unit_cov`)
  | write (s j : Nat) (v : Buf)          -- `_update` gives the attribute the content `v`
  | snap (s j k : Nat)                   -- `state`: entry `j` of snapshot object `k` of sampler `s`
  | load (s j src k : Nat)               -- `set_state`: attribute `j` of `s` from snapshot `(src, k)`
  | reset (s j : Nat)                    -- `_reset_adaptation` on the attribute
deriving Inhabited

/-- The sampler an operation acts on. -/
def EOp.owner : EOp → Nat
  | .construct s .. => s
  | .write s .. => s
  | .snap s .. => s
  | .load s .. => s
  | .reset s .. => s

/-- Anything but `set_state`. -/
def EOp.noLoad : EOp → Bool
  | .load .. => false
  | _ => true

/-- Running: updates, resets (`reset_after_swap`, `reset_proposals`), reading `state`. -/
def EOp.isRun : EOp → Bool
  | .write .. => true
  | .snap .. => true
  | .reset .. => true
  | _ => false

/-- A construction is admissible for a discipline `P` when its spec satisfies it. -/
def EOp.specs (P : FieldSpec → Prop) : EOp → Prop
  | .construct _ _ spec _ _ => P spec
  | _ => True

namespace World

/-- The entry of `_initial_proposal_params` made at construction. -/
def mkInit (w : World) (s : Nat) (spec : FieldSpec) (cur : Loc) : World × Option Loc :=
  match spec.reset with
  | .none => (w, none)
  | _ =>
    if spec.storeAliases then (w, some cur)
    else ((w.alloc s (w.heap cur)).1, some (w.alloc s (w.heap cur)).2)

/-- The attribute whose array a new attribute is bound to at construction
    (`self._cov = self._unit_cov`): only an in-place one, and the new one is then `hot`. -/
def shareTarget (w : World) (s : Nat) (spec : FieldSpec) : Option Nat → Option Field
  | none => none
  | some j0 =>
    match w.fld s j0 with
    | some g => if g.spec.inplace = true ∧ spec.hot = true then some g else none
    | none => none

/-- Bind attribute `(s, j)` to the object `c` and make its `_initial_proposal_params` entry. -/
def install (w : World) (s j : Nat) (spec : FieldSpec) (c : Loc) (v0 : Buf) : World :=
  (w.mkInit s spec c).1.setFld s j { spec := spec, cur := c, init := (w.mkInit s spec c).2, v0 := v0 }

def construct (w : World) (s j : Nat) (spec : FieldSpec) (v : Buf) (share : Option Nat) : World :=
  match w.fld s j with
  | some _ => w                                   -- already bound
  | none =>
    match w.shareTarget s spec share with
    | some g => w.install s j spec g.cur (w.heap g.cur)
    | none => (w.alloc s v).1.install s j spec (w.alloc s v).2 v

def write (w : World) (s j : Nat) (v : Buf) : World :=
  match w.fld s j with
  | none => w
  | some f =>
    if !f.spec.adapted then w
    else if f.spec.inplace then w.store f.cur v
    else w.rebind s j f v

def takeSnap (w : World) (s j k : Nat) : World :=
  match w.fld s j with
  | none => w
  | some f =>
    if !f.spec.inState then w
    else match w.snap s k j with
      | some _ => w                                -- a state dictionary is never re-assigned
      | none =>
        if f.spec.liveInState then w.setSnap s k j f.cur
        else (w.alloc s (w.heap f.cur)).1.setSnap s k j (w.alloc s (w.heap f.cur)).2

def load (w : World) (s j src k : Nat) : World :=
  match w.fld s j, w.snap src k j with
  | some f, some l =>
    if f.spec.aliasedByLoad then w.setFld s j { f with cur := l }
    else w.rebind s j f (w.heap l)
  | _, _ => w

def reset (w : World) (s j : Nat) : World :=
  match w.fld s j with
  | none => w
  | some f =>
    match f.init with
    | none => w
    | some i =>
      match f.spec.reset with
      | .none => w
      | .alias => w.setFld s j { f with cur := i }
      | _ => w.rebind s j f (w.heap i)

def step (w : World) : EOp → World
  | .construct s j spec v share => w.construct s j spec v share
  | .write s j v => w.write s j v
  | .snap s j k => w.takeSnap s j k
  | .load s j src k => w.load s j src k
  | .reset s j => w.reset s j

def run (w : World) (ops : List EOp) : World := ops.foldl step w

/-! ### What can be observed -/

/-- The content of attribute `(s, j)`. -/
def deref (w : World) (s j : Nat) : Option Buf := (w.fld s j).map fun f => w.heap f.cur

/-- The content of entry `j` of snapshot object `(s, k)`. -/
def snapVal (w : World) (s k j : Nat) : Option Buf := (w.snap s k j).map w.heap

end World

/-- Everything a sampler can see of one of its attributes (no identities). -/
structure FieldView where
  spec : FieldSpec
  cur : Buf
  init : Option Buf
deriving DecidableEq, Inhabited

/-- A sampler's own view of its proposals' distributions. -/
def World.view (w : World) (s : Nat) : Nat → Option FieldView :=
  fun j => (w.fld s j).map fun f => ⟨f.spec, w.heap f.cur, f.init.map w.heap⟩

/-! ### Sampler-level runs: what a sampler does next is a function of its own view -/

inductive Act where
  | write (j : Nat) (v : Buf)
  | reset (j : Nat)
  | snap (j k : Nat)
deriving Inhabited

def Act.toEOp (s : Nat) : Act → EOp
  | .write j v => .write s j v
  | .reset j => .reset s j
  | .snap j k => .snap s j k

/-- One burst of sampler `s`: steps (whose adaptive updates are computed from the
    sampler's own current distribution), resets, reads of `state`. -/
structure SOp where
  s : Nat
  acts : (Nat → Option FieldView) → List Act

def World.sstep (w : World) (o : SOp) : World :=
  w.run ((o.acts (w.view o.s)).map (Act.toEOp o.s))

def World.srun (w : World) (ops : List SOp) : World := ops.foldl World.sstep w

/-! ### Whole-proposal operations (lists of elementary ones) -/

def constructAll (s : Nat) (specs : List (FieldSpec × Buf × Option Nat)) : List EOp :=
  (specs.zip (List.range specs.length)).map fun ((sp, v, sh), j) => .construct s j sp v sh

/-- One `_update`: `ws[j] = some v` when it gives attribute `j` the content `v`. -/
def updateAll (s : Nat) (ws : List (Option Buf)) : List EOp :=
  (ws.zip (List.range ws.length)).filterMap fun (w, j) => w.map (EOp.write s j)

def snapshotAll (s n k : Nat) : List EOp := (List.range n).map fun j => .snap s j k
def loadAll (s n src k : Nat) : List EOp := (List.range n).map fun j => .load s j src k
def resetAll (s : Nat) (slots : List Nat) : List EOp := slots.map (EOp.reset s)

/-! ### A proposal: the clock of `EpsieModel.Proposal` plus its attributes -/

structure AProp where
  st : PropSt
  s : Nat
  slots : List Nat
deriving Inhabited

/-- The `start_step` setter: `ValueError("start_step must be >= 1")` for a value `< 1`. -/
def setStartStep (st : PropSt) (v : Nat) : Option PropSt :=
  if v < 1 then none else some { st with startStep := v }

/-- `_reset_adaptation` as `Chain.reset_proposals` calls it: `start_step ← max(nsteps, 1)`
    through the setter (`none` = the setter raised; it never does, `C19_reset_always_succeeds`),
    then every entry of `_initial_proposal_params` is re-installed.
    A proposal without adaptation has no such method: `AttributeError`, swallowed, untouched. -/
def AProp.reset (p : AProp) (w : World) : Option (AProp × World) :=
  if p.st.cfg.adaptive then
    match setStartStep p.st (max p.st.nsteps 1) with
    | none => none
    | some st' => some ({ p with st := { st' with events := [] } }, w.run (resetAll p.s p.slots))
  else some (p, w)

/-- `BaseProposal.update`: the clock always advances; `_update` (the writes `ws`)
    runs only when the proposal jumped at this iteration and the window is open. -/
def AProp.update (p : AProp) (w : World) (accepted : Bool) (ar : AR) (pos : List Val)
    (ws : List (Option Buf)) : AProp × World :=
  ({ p with st := p.st.update accepted ar pos },
   if p.st.callJump && p.st.inWindow then
     w.run ((ws.zip p.slots).filterMap fun (v, j) => v.map (EOp.write p.s j))
   else w)

/-- `Chain.reset_proposals`: in order; an exception leaves the earlier ones reset. -/
def resetProposals : List AProp → World → Option (List AProp × World)
  | [], w => some ([], w)
  | p :: ps, w =>
    match p.reset w with
    | none => none
    | some (p', w') =>
      match resetProposals ps w' with
      | none => none
      | some (ps', w'') => some (p' :: ps', w'')

end Epsie.Alias
