/-
  EpsieModel.Proposal — the bookkeeping every jump proposal shares
  (epsie/proposals/base.py): the private counter `_nsteps`, the jump-interval
  schedule `_call_jump`, the adaptation clock and window, `state`/`set_state`
  field flow and `_reset_adaptation`'s clock part.

  The numerical content of an adaptive proposal is abstracted to the list of
  updates it has absorbed (`events`); the recursions themselves live in
  `EpsieModel.Adapt`.
-/
import EpsieModel.Basic
namespace Epsie

/-- Which adaptation window guard the class's `_update` uses. -/
inductive Window where
  | none      -- no adaptation
  | veitch    -- `1 ≤ dk < T`            (AdaptiveSupport)
  | at        -- `1 <  dk < T`            (ATAdaptiveSupport, eigenvector, solid angle)
  | ss        -- every update             (SSAdaptiveSupport)
deriving DecidableEq, Inhabited

/-- Static configuration of one constituent proposal of a chain. -/
structure PropCfg where
  params : List Nat            -- indices of its parameters in the chain's list
  symmetric : Bool
  adaptive : Bool              -- has a `start_step` (BaseAdaptiveSupport)
  k : Nat                      -- jump_interval
  dur : Nat                    -- jump_interval_duration (0 when k = 1)
  window : Window
  T : Nat                      -- adaptation_duration
  start0 : Nat                 -- constructor's start_step
  comp : Bool                  -- componentwise Andrieu–Thoms scaling
  savesNsteps : Bool           -- `state` carries `_nsteps`
deriving DecidableEq, Inhabited

/-- One absorbed adaptive update: the clock value and what it read from the chain. -/
structure AdaptEvent where
  dk : Int
  accepted : Bool
  ar : AR
  pos : List Val
deriving DecidableEq, Inhabited

structure PropSt where
  cfg : PropCfg
  raw : Nat                    -- `_nsteps`
  startStep : Nat              -- `start_step` (meaningful iff cfg.adaptive)
  events : List AdaptEvent     -- updates absorbed since construction / last reset
deriving DecidableEq, Inhabited

def PropSt.fresh (cfg : PropCfg) : PropSt :=
  { cfg := cfg, raw := 0, startStep := cfg.start0, events := [] }

/-- `nsteps = _nsteps // jump_interval`. -/
def PropSt.nsteps (p : PropSt) : Nat := p.raw / p.cfg.k

/-- The clock used by `_call_jump`: `nsteps - start_step + 1` for adaptive
    classes (the `try` succeeds), plain `nsteps` otherwise. -/
def PropSt.dkJump (p : PropSt) : Int :=
  if p.cfg.adaptive then (p.nsteps : Int) - (p.startStep : Int) + 1 else (p.nsteps : Int)

/-- `BaseProposal._call_jump`. -/
def PropSt.callJump (p : PropSt) : Bool :=
  if p.cfg.k = 1 ∨ p.dkJump ≥ (p.cfg.dur : Int) then true
  else if p.raw % p.cfg.k ≠ 0 then false
  else true

/-- The clock used inside `_update`: always `nsteps - start_step + 1`. -/
def PropSt.dkUpdate (p : PropSt) : Int :=
  (p.nsteps : Int) - (p.startStep : Int) + 1

/-- Does `_update` change the proposal distribution at this clock value? -/
def PropSt.inWindow (p : PropSt) : Bool :=
  match p.cfg.window with
  | .none => false
  | .veitch => decide (1 ≤ p.dkUpdate ∧ p.dkUpdate < (p.cfg.T : Int))
  | .at => decide (1 < p.dkUpdate ∧ p.dkUpdate < (p.cfg.T : Int))
  | .ss => true

/-- `BaseProposal.update`: `_update` only when the proposal jumped at this
    iteration; the counter always advances. `ev` is what `_update` reads. -/
def PropSt.update (p : PropSt) (accepted : Bool) (ar : AR) (pos : List Val) : PropSt :=
  let evs := if p.callJump && p.inWindow
             then p.events ++ [{ dk := p.dkUpdate, accepted := accepted, ar := ar, pos := pos }]
             else p.events
  { p with events := evs, raw := p.raw + 1 }

/-- `_reset_adaptation`: `start_step ← max(nsteps, 1)`, distribution fields restored. -/
def PropSt.reset (p : PropSt) : PropSt :=
  if p.cfg.adaptive then { p with startStep := max p.nsteps 1, events := [] } else p

/-! ### `state` / `set_state` -/

structure SavedProp where
  raw : Option Nat
  startStep : Option Nat
  events : Option (List AdaptEvent)
deriving DecidableEq, Inhabited

def PropSt.save (p : PropSt) : SavedProp :=
  { raw := if p.cfg.savesNsteps then some p.raw else none
    startStep := if p.cfg.adaptive then some p.startStep else none
    events := if p.cfg.adaptive then some p.events else none }

/-- `set_state` on an existing proposal object: fields absent from the saved
    dictionary keep whatever the target had. -/
def PropSt.load (p : PropSt) (s : SavedProp) : PropSt :=
  { p with raw := s.raw.getD p.raw
           startStep := s.startStep.getD p.startStep
           events := s.events.getD p.events }

end Epsie
