/-
  EpsieModel.Density — what every proposal / birth family of
  `epsie/proposals/*.py` computes when asked for its density, and how it turns
  base draws into a proposed point, *as the code does it* (core Lean only,
  executable; driven by `DriverDensity.lean`).

  Numerical library calls are not re-implemented:

  * continuous families answer with a list of `Term`s — the scipy / numpy calls
    whose values are summed, with exactly the arguments the code hands over
    (truncation points `a, b`, `loc`, per-parameter `scale`, the wrapped shift
    of `Angular`, the solid-angle conversions).  The harness evaluates the
    terms with scipy and compares the sum with the real `logpdf`;
  * the discrete families need library *values* inside the model (they are
    cached, and `dp == 0` returns early), so their functions take the library
    as an oracle `G : Key → Rat → Rat` (`G key std` = what `_cdf` computes on a
    cache miss).  The caches are modelled literally: a store of dict objects,
    a pointer per parameter (`[{}]*n` makes every pointer the same object) and
    `_cachedstd`.

  Every Python float is an exact rational, so positions, scales and bounds are
  `Rat`; `numpy.floor/ceil/round`, `%` and `int()` are the exact functions
  below (float rounding of `*`, `/`, `%` is not modelled: the harness compares
  arguments to 1e-12 and stays away from the discontinuities).
-/
namespace Epsie.Density

/-! ## Python / numpy number helpers -/

/-- `numpy.sign(x)*numpy.ceil(abs(x))`: floor of negatives, ceil of positives. -/
def floorceil (x : Rat) : Int := if x < 0 then x.floor else x.ceil

/-- `numpy.sign(x)*numpy.floor(abs(x))` and Python's `int(x)`: towards zero. -/
def ceilfloor (x : Rat) : Int := if x < 0 then x.ceil else x.floor

/-- `numpy.round(x, 0)` / `round(numpy.float64, 0)`: to nearest, ties to even. -/
def roundHalfEven (x : Rat) : Int :=
  let f := x.floor
  let r := x - (f : Rat)
  if r < 1/2 then f else if 1/2 < r then f + 1 else if f % 2 = 0 then f else f + 1

/-- float `%` with a positive modulus: result in `[0, m)`. -/
def pyMod (x m : Rat) : Rat := x - m * ((x / m).floor : Rat)

def absInt (i : Int) : Int := (i.natAbs : Int)

/-! ## Library calls -/

/-- A summand of a reported log-density that the numerical library evaluates. -/
inductive Term where
  /-- `stats.norm(scale=scale).logpdf(x)` — the frozen `_proposal` of `Normal`. -/
  | normLogpdf (x loc scale : Rat)
  /-- frozen `stats.multivariate_normal(cov=_cov).logpdf(dx)` (non-diagonal `Normal`). -/
  | mvnLogpdf (dx : List Rat)
  /-- `stats.truncnorm.logpdf(x, a, b, loc=loc, scale=scale)`; `a, b` standardised. -/
  | truncLogpdf (x a b loc scale : Rat)
  /-- `stats.uniform.logpdf(x, loc=loc, scale=scale)`. -/
  | uniformLogpdf (x loc scale : Rat)
  /-- `stats.lognorm.logpdf(x, s=s, scale=numpy.exp(mu))`. -/
  | lognormLogpdf (x s mu : Rat)
  /-- `numpy.log(norm) + kappa * dot(cart(phiMu, thetaMu), cart(phiX, thetaX))`
      with `cart(φ, θ) = (sin θ cos φ, sin θ sin φ, cos θ)`. -/
  | vmf (norm kappa phiMu thetaMu phiX thetaX : Rat)
  /-- a constant added to the sum (e.g. `- _logfactor`). -/
  | const (c : Rat)
deriving DecidableEq, Repr, Inhabited

/-! ## Continuous families: the terms of `_logpdf(xi, givenx)` -/

/-- `Normal._logpdf`, diagonal case: `dx = givenx - xi` through the frozen
    `_proposal`, whose scale is the `_std` of the last `_update_proposal()`
    (`propScale`; the harness reads it off the frozen object). -/
def normalTerms : (propScale xi given : List Rat) → List Term
  | s :: ss, x :: xs, g :: gs => Term.normLogpdf (g - x) 0 s :: normalTerms ss xs gs
  | _, _, _ => []

/-- `Normal._logpdf`, full covariance: one multivariate call on `dx`. -/
def subVec : List Rat → List Rat → List Rat
  | g :: gs, x :: xs => (g - x) :: subVec gs xs
  | _, _ => []

def normalFullTerms (xi given : List Rat) : List Term := [Term.mvnLogpdf (subVec given xi)]

/-- One parameter of a bounded family. -/
structure Bnd where
  lo : Rat
  hi : Rat
  std : Rat
deriving DecidableEq, Repr, Inhabited

/-- `BoundedNormal._logpdf`: `a = (lower - mu)/std`, `b = (upper - mu)/std`,
    `truncnorm.logpdf(xi, a, b, loc=mu, scale=std)` per parameter. -/
def bnTerm (p : Bnd) (xi given : Rat) : Term :=
  Term.truncLogpdf xi ((p.lo - given) / p.std) ((p.hi - given) / p.std) given p.std

def bnTerms : List Bnd → List Rat → List Rat → List Term
  | p :: ps, x :: xs, g :: gs => bnTerm p x g :: bnTerms ps xs gs
  | _, _, _ => []

/-- Constants of an `Angular` instance (`_halfwidth`, `_factor`, `_invfactor`, `_logfactor`). -/
structure AngCfg where
  half : Rat
  factor : Rat
  inv : Rat
  logfactor : Rat
deriving DecidableEq, Repr, Inhabited

/-- The wrapped shift of `Angular._logpdf`, in units of `factor`:
    `xi ← cyc(cyc(xi) + (half - cyc(given)))`, a point of `[0, 2·half)` whose distance
    from `half` is the circular difference `xi - given`. -/
def angShift (c : AngCfg) (xi given : Rat) : Rat :=
  let m := 2 * c.half
  pyMod (pyMod (xi * c.inv) m + (c.half - pyMod (given * c.inv) m)) m

/-- `Angular._logpdf` for one parameter: `std' = std·inv`, `b = half/std'`, `a = -b`,
    `truncnorm.logpdf(shift, a, b, loc=half, scale=std')`. -/
def angTerm (c : AngCfg) (std xi given : Rat) : Term :=
  let s := std * c.inv
  Term.truncLogpdf (angShift c xi given) (-(c.half / s)) (c.half / s) c.half s

def angParamTerms (c : AngCfg) : List Rat → List Rat → List Rat → List Term
  | s :: ss, x :: xs, g :: gs => angTerm c s x g :: angParamTerms c ss xs gs
  | _, _, _ => []

/-- the whole of `Angular._logpdf`: the sum over parameters minus `_logfactor` (once). -/
def angTerms (c : AngCfg) (std xi given : List Rat) : List Term :=
  angParamTerms c std xi given ++ [Term.const (-c.logfactor)]

/-- `Eigenvector._logpdf`: ignores both points; `norm.logpdf(_dx, loc=0, scale=eigvals[_ind])`
    of the most recent jump. -/
def eigenTerms (dx scale : Rat) (_xi _given : List Rat) : List Term := [Term.normLogpdf dx 0 scale]

/-- `BoundedEigenvector._logpdf` after the chord (`in1`, `width`) is known:
    `mu = ‖given - in1‖`, `xi = ‖xi - in1‖` (library norms, supplied),
    `a = -mu/s`, `b = (width - mu)/s`, `truncnorm.logpdf(xi, a, b, loc=mu, scale=s)`. -/
def beigenTerms (s width muDist xiDist : Rat) : List Term :=
  [Term.truncLogpdf xiDist (-muDist / s) ((width - muDist) / s) muDist s]

/-- The cache test of `BoundedEigenvector._logpdf`: it compares `xi ++ given` with a key that
    was stored as `given ++ xi`, so it hits on the *reverse* of the stored query. -/
def beigenCacheHit (stored : Option (List Rat)) (xi given : List Rat) : Bool :=
  stored = some (xi ++ given)

def beigenCacheStore (xi given : List Rat) : List Rat := given ++ xi

/-- Angle conventions of `IsotropicSolidAngle._spherical2cartesian(convert=True)`:
    `radec`: `theta += 90` (degrees) or `pi/2`; `degs`: both times `pi/180`. -/
structure SphCfg where
  radec : Bool
  degs : Bool
  halfpi : Rat      -- numpy.pi / 2
  deg2rad : Rat     -- numpy.pi / 180.
deriving DecidableEq, Repr, Inhabited

def sphConvert (c : SphCfg) (phi theta : Rat) : Rat × Rat :=
  let theta := if c.radec then (if c.degs then theta + 90 else theta + c.halfpi) else theta
  if c.degs then (phi * c.deg2rad, theta * c.deg2rad) else (phi, theta)

/-- `IsotropicSolidAngle._logpdf`: `log(norm) + kappa·(mu · x)` on the converted angles. -/
def vmfTerms (c : SphCfg) (norm kappa : Rat) (xi given : List Rat) : List Term :=
  match xi, given with
  | [px, tx], [pm, tm] =>
      let x := sphConvert c px tx
      let m := sphConvert c pm tm
      [Term.vmf norm kappa m.1 m.2 x.1 x.2]
  | _, _ => []

/-- `IsotropicSolidAngle._new_point` for the two uniforms `(u₁, u₂) = random(size=2)`:
    `phi = u₁·2π`, and the argument of `numpy.log` in the inverse CDF,
    `exp(κ) − κ·u₂/(2π·norm)` (`expk` is the library's `numpy.exp(kappa)`);
    then `theta = arccos(log(arg)/κ)`. -/
def vmfNewPoint (kappa norm expk twopi u1 u2 : Rat) : Rat × Rat :=
  (u1 * twopi, expk - kappa * u2 / (twopi * norm))

/-- `_rotmat`'s azimuth `gamma`: `arccos` lies in `[0, π]`; mirrored when `mu[1] < 0`. -/
def vmfGamma (mu1 acosv twopi : Rat) : Rat := if mu1 < 0 then twopi - acosv else acosv

/-- `_rotmat(mu)` applied to a vector, for `cb, sb, cg, sg = cos β, sin β, cos γ, sin γ`. -/
def rot (cb sb cg sg : Rat) (v : Rat × Rat × Rat) : Rat × Rat × Rat :=
  (cb * cg * v.1 - sg * v.2.1 + sb * cg * v.2.2,
   cb * sg * v.1 + cg * v.2.1 + sb * sg * v.2.2,
   -sb * v.1 + cb * v.2.2)

def dot3 (v w : Rat × Rat × Rat) : Rat := v.1 * w.1 + v.2.1 * w.2.1 + v.2.2 * w.2.2

/-! ## Births: `logpdf(xi)` -/

/-- `UniformBirth.logpdf`: `stats.uniform.logpdf(x, loc=lower, scale=abs(upper - lower))`. -/
def ubirthTerms : List (Rat × Rat) → List Rat → List Term
  | (lo, hi) :: bs, x :: xs => Term.uniformLogpdf x lo (hi - lo).abs :: ubirthTerms bs xs
  | _, _ => []

/-- `NormalBirth.logpdf`: `stats.norm.logpdf(x, loc=mu, scale=std)`. -/
def nbirthTerms : List (Rat × Rat) → List Rat → List Term
  | (mu, sd) :: bs, x :: xs => Term.normLogpdf x mu sd :: nbirthTerms bs xs
  | _, _ => []

/-- `LogNormalBirth.logpdf`: `stats.lognorm.logpdf(x, s=std_log, scale=exp(mu_log))`. -/
def lbirthTerms : List (Rat × Rat) → List Rat → List Term
  | (mu, sd) :: bs, x :: xs => Term.lognormLogpdf x sd mu :: lbirthTerms bs xs
  | _, _ => []

/-- Arguments of the generator call of each birth (`uniform(lower, upper)`,
    `normal(loc, scale)`, `lognormal(mean, sigma)`): the stored pair, unchanged. -/
def birthGenArgs (ps : List (Rat × Rat)) : List (Rat × Rat) := ps

/-! ## Discrete families: the CDF caches, literally -/

/-- Key of a cache entry: `[dx]` for `NormalDiscrete`, `[x, a, b, mu]` for `BoundedDiscrete`. -/
abbrev Key := List Rat

def upd {α : Type} (f : Nat → α) (i : Nat) (v : α) : Nat → α := fun j => if j = i then v else f j

/-- `_cdfcache` and `_cachedstd`.  `_cdfcache[pi]` is the dict object `slots (ptr pi)`. -/
structure Caches where
  slots : Nat → List (Key × Rat)
  ptr : Nat → Nat
  cachedstd : Nat → Option Rat
  /-- library calls made so far (cache misses), newest first. -/
  calls : List (Key × Rat)

/-- `[{}]*n` (one object, `shared = true`) or `[{} for _ in range(n)]`. -/
def Caches.fresh (shared : Bool) : Caches :=
  { slots := fun _ => [], ptr := if shared then fun _ => 0 else fun i => i,
    cachedstd := fun _ => none, calls := [] }

def lookup (k : Key) : List (Key × Rat) → Option Rat
  | [] => none
  | (k', v) :: rest => if k' = k then some v else lookup k rest

/-- `_cdf(pi, key…, std)`: clear this parameter's dict when `std != _cachedstd[pi]`; return the
    stored value on a hit; on a miss ask the library, store, and set `_cachedstd[pi] = std`. -/
def Caches.cdf (G : Key → Rat → Rat) (c : Caches) (pi : Nat) (key : Key) (std : Rat) : Rat × Caches :=
  let s := c.ptr pi
  let c1 : Caches := if c.cachedstd pi = some std then c else { c with slots := upd c.slots s [] }
  match lookup key (c1.slots s) with
  | some v => (v, c1)
  | none =>
      let v := G key std
      (v, { c1 with slots := upd c1.slots s ((key, v) :: c1.slots s),
                    cachedstd := upd c1.cachedstd pi (some std),
                    calls := (key, std) :: c1.calls })

/-- One parameter of a density query of a discrete family. -/
structure DQ where
  succ : Bool       -- `successive[p]`
  std : Rat         -- `_std[ii]` at the time of the query
  lo : Int := 0     -- `_lowerbnd[ii]`, `_upperbnd[ii]` (bounded family only)
  hi : Int := 0
  xi : Rat
  given : Rat
deriving DecidableEq, Repr, Inhabited

/-- The two cells of `NormalDiscrete._logpdf` for one parameter, or `none` where the code
    returns `-inf` at once (`dx == 0` without `successive`). -/
def ndCells (q : DQ) : Option (Rat × Rat) :=
  if q.succ then
    let dx : Rat := (absInt (roundHalfEven (q.xi - q.given)) : Int)
    some (dx - 1/2, dx + 1/2)
  else
    let d := (q.xi - q.given).floor
    if d = 0 then none
    else
      let dx : Rat := (absInt d : Int)
      some (dx - 1, dx)

/-- `NormalDiscrete._logpdf`: the loop over parameters.  Result `none` = `-inf` returned early
    (later parameters are then not evaluated and their caches stay untouched); `some dps` =
    `logp = Σ numpy.log(dp)`. -/
def ndLoop (G : Key → Rat → Rat) : Nat → List DQ → Caches → List Rat → Option (List Rat) × Caches
  | _, [], c, acc => (some acc.reverse, c)
  | pi, q :: qs, c, acc =>
      match ndCells q with
      | none => (none, c)
      | some (k0, k1) =>
          let r0 := c.cdf G pi [k0] q.std
          let r1 := r0.2.cdf G pi [k1] q.std
          let dp := r1.1 - r0.1
          if !q.succ && dp == 0 then (none, r1.2) else ndLoop G (pi + 1) qs r1.2 (dp :: acc)

def ndLogpdf (G : Key → Rat → Rat) (qs : List DQ) (c : Caches) : Option (List Rat) × Caches :=
  ndLoop G 0 qs c []

/-- The two cache keys `(x, a, b, mu)` of `BoundedDiscrete._logpdf` for one parameter, or `none`
    where the code returns `-inf` at once (`x == mu` without `successive`). -/
def bdKeys (q : DQ) : Option (Key × Key) :=
  if q.succ then
    let mu : Rat := (roundHalfEven q.given : Int)
    let x : Rat := (roundHalfEven q.xi : Int)
    let a : Rat := (q.lo : Rat) - 1/2 - mu
    let b : Rat := (q.hi : Rat) + 1/2 - mu
    some ([x - 1/2, a, b, mu], [x + 1/2, a, b, mu])
  else
    let mui := floorceil q.given
    let xint := ceilfloor q.xi
    if xint = mui then none
    else
      let mu : Rat := (mui : Int)
      let x : Rat := (xint : Int)
      let a : Rat := (q.lo : Rat) - mu
      let b : Rat := (q.hi : Rat) - mu
      if mui < xint then some ([x - 1, a, b, mu], [x, a, b, mu])
      else some ([x, a, b, mu], [x + 1, a, b, mu])

/-- `BoundedDiscrete._logpdf`.  There is no `dp == 0` exit here: `numpy.log(0) = -inf`
    is added and the loop goes on. -/
def bdLoop (G : Key → Rat → Rat) : Nat → List DQ → Caches → List Rat → Option (List Rat) × Caches
  | _, [], c, acc => (some acc.reverse, c)
  | pi, q :: qs, c, acc =>
      match bdKeys q with
      | none => (none, c)
      | some (k0, k1) =>
          let r0 := c.cdf G pi k0 q.std
          let r1 := r0.2.cdf G pi k1 q.std
          bdLoop G (pi + 1) qs r1.2 ((r1.1 - r0.1) :: acc)

def bdLogpdf (G : Key → Rat → Rat) (qs : List DQ) (c : Caches) : Option (List Rat) × Caches :=
  bdLoop G 0 qs c []

/-- What the library computes on a miss, in terms of a base CDF `F` of the standard draw:
    `stats.norm.cdf(dx, scale=std) = F(dx/std)`. -/
def ndG (F : Rat → Rat) : Key → Rat → Rat
  | [dx], std => F (dx / std)
  | _, _ => 0

/-- `stats.truncnorm.cdf(x, a/std, b/std, loc=mu, scale=std)` in terms of the base CDF:
    `0` below the support, `1` above, `(F(z) - F(α)) / (F(β) - F(α))` inside. -/
def truncCdf (F : Rat → Rat) (x a b mu std : Rat) : Rat :=
  let z := (x - mu) / std
  let al := a / std
  let be := b / std
  if z < al then 0 else if be < z then 1 else (F z - F al) / (F be - F al)

def bdG (F : Rat → Rat) : Key → Rat → Rat
  | [x, a, b, mu], std => truncCdf F x a b mu std
  | _, _ => 0

/-! ## Draw maps: from the generator's return values to the proposed point -/

/-- A request to the (stand-in) `numpy.random.Generator`. -/
inductive GenCall where
  | normal (loc scale : Rat)
  | uniform01
  | uniform (lo hi : Rat)
  | lognormal (mean sigma : Rat)
  | random2
deriving DecidableEq, Repr, Inhabited

/-- First element satisfying `acc`, with the number of elements consumed (a `while` loop that
    draws until accepted); `none` if the supplied draws run out first. -/
def firstAccepted {α : Type} (acc : α → Bool) : List α → Option (α × Nat)
  | [] => none
  | d :: ds => if acc d then some (d, 1) else (firstAccepted acc ds).map fun r => (r.1, r.2 + 1)

/-- `Normal._jump` (diagonal): one vector call `normal(loc=fromx, scale=_std)`, returned as is. -/
def normalJumpCalls : List Rat → List Rat → List GenCall
  | s :: ss, x :: xs => GenCall.normal x s :: normalJumpCalls ss xs
  | _, _ => []

/-- `BoundedNormal._jump`, one parameter: `normal(mu, std)` until `lower <= v <= upper`. -/
def bnJumpParam (p : Bnd) (from_ : Rat) (draws : List Rat) : GenCall × Option (Rat × Nat) :=
  (GenCall.normal from_ p.std, firstAccepted (fun v => decide (p.lo ≤ v) && decide (v ≤ p.hi)) draws)

/-- `Angular._jump`, one parameter: `normal(scale=std·inv)` until `|v| <= half`; then
    `((v + from·inv) % (2·half))·factor`. -/
def angJumpParam (c : AngCfg) (std from_ : Rat) (draws : List Rat) : GenCall × Option (Rat × Nat) :=
  (GenCall.normal 0 (std * c.inv),
   (firstAccepted (fun v => decide (v.abs ≤ c.half)) draws).map fun r =>
     (pyMod (r.1 + from_ * c.inv) (2 * c.half) * c.factor, r.2))

/-- The integer step of the discrete families from a normal draw. -/
def discStep (succ : Bool) (d : Rat) : Int := if succ then roundHalfEven d else floorceil d

/-- `NormalDiscrete._jump`, one parameter: `normal(0, std)`, `int(from) + step`. -/
def ndJumpParam (succ : Bool) (std from_ : Rat) (draw : Rat) : GenCall × Int :=
  (GenCall.normal 0 std, ceilfloor from_ + discStep succ draw)

/-- `BoundedDiscrete._jump`, one parameter: the same inside `while not inbnds`. -/
def bdJumpParam (succ : Bool) (std : Rat) (lo hi : Int) (from_ : Rat) (draws : List Rat) :
    GenCall × Option (Int × Nat) :=
  (GenCall.normal 0 std,
   (firstAccepted (fun d => let v := ceilfloor from_ + discStep succ d; decide (lo ≤ v) && decide (v ≤ hi))
      draws).map fun r => (ceilfloor from_ + discStep succ r.1, r.2))

/-- `Eigenvector._jump` once the direction is chosen: `normal(scale=eigvals[ind])`,
    `from + dx·eigvects[:, ind]`. -/
def eigenJump : List Rat → List Rat → Rat → List Rat
  | x :: xs, v :: vs, dx => (x + dx * v) :: eigenJump xs vs dx
  | _, _, _ => []

/-- `numpy.isclose(v, b)` with the default tolerances `rtol = 1e-5`, `atol = 1e-8`. -/
def isClose (v b : Rat) : Bool := decide ((v - b).abs ≤ 1/100000000 + (1/100000) * b.abs)

/-- `BoundedEigenvector.__contains__` for one coordinate: values within `isclose` of a bound
    are moved onto it first. -/
def beContains1 (lo hi v : Rat) : Bool :=
  let v := if isClose v lo then lo else if isClose v hi then hi else v
  decide (lo ≤ v) && decide (v ≤ hi)

def beContains : List (Rat × Rat) → List Rat → Bool
  | (lo, hi) :: bs, v :: vs => beContains1 lo hi v && beContains bs vs
  | _, _ => true

/-- `BoundedEigenvector._jump`: draw `dx` until `from + dx·v` is inside the box. -/
def beigenJump (box : List (Rat × Rat)) (from_ vec : List Rat) (scale : Rat) (draws : List Rat) :
    GenCall × Option (List Rat × Rat × Nat) :=
  (GenCall.normal 0 scale,
   (firstAccepted (fun dx => beContains box (eigenJump from_ vec dx)) draws).map fun r =>
     (eigenJump from_ vec r.1, r.1, r.2))

/-! ## Which families declare themselves symmetric (class attribute `symmetric`) -/

def symmetricOf (name : String) : Option Bool :=
  if name ∈ ["normal", "adaptive_normal", "ss_adaptive_normal", "at_adaptive_normal",
             "angular", "adaptive_angular", "ss_adaptive_angular", "at_adaptive_angular",
             "discrete", "adaptive_discrete", "ss_adaptive_discrete",
             "eigenvector", "adaptive_eigenvector",
             "isotropic_solid_angle", "adaptive_isotropic_solid_angle"] then some true
  else if name ∈ ["bounded_normal", "adaptive_bounded_normal", "ss_adaptive_bounded_normal",
                  "at_adaptive_bounded_normal",
                  "bounded_discrete", "adaptive_bounded_discrete", "ss_adaptive_bounded_discrete",
                  "bounded_eigenvector", "adaptive_bounded_eigenvector"] then some false
  else none

end Epsie.Density
