/-
  EpsieModel.Transdim — executable model of the nested transdimensional machinery
  (core Lean only):

    proposals/nested_transdimensional.py   `_jump`, `_logpdf`, `_update`, `symmetric`
    chain/chain.py                         `_activate_proposals`, `_active_props`, the `_state`
                                           entry in `step`, `clear`, `state`/`set_state`
    chain/ptchain.py                       `swap_temperatures` moving `_active_props`
    proposals/joint.py                     symmetric-flag handling of the Hastings term

  A point is the model index `k` plus one slot per in-model proposal ("component");
  a slot is `none` when all of the component's parameters are NaN and `some vs` when
  they hold the finite values `vs`.  (A slot of which only some parameters are NaN
  cannot be written down here.  The real code treats it as active; such a start value
  is outside C10's well-formed start patterns and is probed on the real code by the
  harness.)  Every number produced by numpy/scipy is an oracle input: the new index
  returned by the model proposal's jump, the subset returned by
  `Generator.choice(indx, size=|dk|, replace=False)`, the values drawn by the birth
  distributions and by the in-model jumps, the accept/reject decision of the step,
  the `swap_index` of a sweep, and all reported log-densities.
-/
import EpsieModel.Basic
namespace Epsie
namespace Transdim

/-! ## points -/

/-- One component: `none` = all parameters NaN, `some vs` = finite values. -/
abbrev Comp := Option (List Rat)

structure Point where
  k : Int
  comps : List Comp
deriving DecidableEq, Inhabited

/-- The NaN pattern of a point, as `_activate_proposals` reads it:
    component `i` is active iff not all of its parameters are NaN. -/
def Point.pattern (p : Point) : List Bool := p.comps.map Option.isSome

/-- Number of `True` entries of a mask. -/
def countTrue (m : List Bool) : Nat := m.count true

/-- A point carrying a `'_state'` entry (what `Chain.step` passes to `jump`,
    what `jump` returns, and what is kept as `proposed_position`). -/
structure SPoint where
  pt : Point
  state : List Bool
deriving DecidableEq, Inhabited

/-- What the constructor of `NestedTransdimensional` fixes: the number `K` of in-model
    proposals, the integer bounds of the model proposal (`BoundedDiscrete.boundaries`,
    already floored/ceiled), and the `symmetric` flags (class attributes) of the model
    proposal and of the in-model proposals.  Nothing relates `kmin`, `kmax` and `K`:
    the constructor does not check it. -/
structure Cfg where
  K : Nat
  kmin : Int
  kmax : Int
  modelSym : Bool := false
  innerSym : List Bool := []
deriving DecidableEq, Inhabited

/-! ## `NestedTransdimensional._jump` -/

/-- `numpy.where(numpy.logical_not(current_state))[0]` (`up`) or
    `numpy.where(current_state)[0]` (`¬up`). -/
def candidates (up : Bool) (cur : List Bool) : List Nat :=
  (List.range cur.length).filter fun i => if up then !(cur.getD i false) else cur.getD i false

/-- `proposed_state = current_state.copy();
     proposed_state[mask] = numpy.logical_not(proposed_state[mask])`. -/
def flip (cur : List Bool) (chosen : List Nat) : List Bool :=
  (List.range cur.length).map fun i =>
    if i ∈ chosen then !(cur.getD i false) else cur.getD i false

/-- All entries pairwise different (what `replace=False` guarantees). -/
def nodupB : List Nat → Bool
  | [] => true
  | a :: l => !(l.contains a) && nodupB l

/-- Oracle inputs of one composite jump. `birth` and `move` are indexed by component;
    only the entries of components that are born / that are active on both sides are read. -/
structure JumpIn where
  newk : Int                 -- `model_proposal.jump({k: fromx[k]})[k]`
  chosen : List Nat          -- what `random_generator.choice(indx, size=abs(dk), replace=False)` returned
  birth : List (List Rat)    -- `prop.birth_distribution.birth` of component i
  move : List (List Rat)     -- `prop.jump({p: fromx[p]})` of component i
deriving DecidableEq, Inhabited

inductive JumpRes where
  | ok (y : SPoint)
  /-- `BoundedDiscrete._jump`: "Given point is not in bounds; I don't know how to jump from there." -/
  | raiseBounds
  /-- numpy: "Cannot take a larger sample than population when 'replace=False'" /
      "a cannot be empty unless no samples are taken". -/
  | raiseChoice
  /-- The oracle values are not something the real code can have produced (new index outside
      the model proposal's bounds, or a chosen list that is not `|dk|` distinct candidates). -/
  | badOracle
deriving DecidableEq, Inhabited

/-- The slot of one component after the jump. `c`, `p`: its entries in the current and
    the proposed mask; `up`: `dk > 0`; `old`: its slot in `fromx` (the output starts as a
    copy of `fromx`); `b`, `m`: birth / in-model oracle values. -/
def newComp (dk : Int) (c p : Bool) (old : Comp) (b m : List Rat) : Comp :=
  let bd := if dk > 0 then (!c && p) else (c && !p)      -- `bd_mask` (only built when dk ≠ 0)
  if dk ≠ 0 ∧ bd then (if dk > 0 then some b else none)  -- birth / NaN-out
  else if c && p then some m                              -- `update_mask`: in-model jump
  else old

/-- Assemble the output point from the proposed mask. -/
def assemble (x : SPoint) (i : JumpIn) (dk : Int) (prop : List Bool) : SPoint :=
  { pt := { k := i.newk
            comps := (List.range x.pt.comps.length).map fun j =>
              newComp dk (x.state.getD j false) (prop.getD j false) (x.pt.comps.getD j none)
                (i.birth.getD j []) (i.move.getD j []) }
    state := prop }

/-- `NestedTransdimensional._jump(fromx)` with `fromx = x.pt ∪ {'_state': x.state}`. -/
def jump (cfg : Cfg) (x : SPoint) (i : JumpIn) : JumpRes :=
  if ¬ (cfg.kmin ≤ x.pt.k ∧ x.pt.k ≤ cfg.kmax) then .raiseBounds
  else if ¬ (cfg.kmin ≤ i.newk ∧ i.newk ≤ cfg.kmax) then .badOracle
  else
    let dk := i.newk - x.pt.k
    if dk = 0 then .ok (assemble x i dk x.state)
    else
      let cand := candidates (decide (dk > 0)) x.state
      if cand.length < dk.natAbs then .raiseChoice
      else if ¬ (i.chosen.length = dk.natAbs ∧ nodupB i.chosen = true ∧ ∀ c ∈ i.chosen, c ∈ cand)
        then .badOracle
      else .ok (assemble x i dk (flip x.state i.chosen))

/-- Which components drew a birth value / were NaN-ed out / made an in-model jump in
    `jump cfg x i` (for the correspondence: "which components moved"). -/
def bornSet (x y : SPoint) : List Nat :=
  (List.range x.state.length).filter fun j => y.pt.k > x.pt.k && !(x.state.getD j false) && y.state.getD j false
def killedSet (x y : SPoint) : List Nat :=
  (List.range x.state.length).filter fun j => y.pt.k < x.pt.k && x.state.getD j false && !(y.state.getD j false)
def movedSet (x y : SPoint) : List Nat :=
  (List.range x.state.length).filter fun j => x.state.getD j false && y.state.getD j false

/-! ## one temperature level: `Chain` -/

structure Level where
  start : Option Point := none     -- `_start`
  recs : List Point := []          -- `positions` (records retained since the last clear)
  active : List Bool := []         -- `_active_props`
  proposed : Option SPoint := none -- `proposed_position` (keeps its `'_state'` entry)
  iteration : Nat := 0
deriving DecidableEq, Inhabited

/-- `current_position`: the last retained record, or the start position. -/
def Level.current (l : Level) : Option Point :=
  match l.recs.getLast? with
  | some p => some p
  | none => l.start

/-- The `start_position` setter: stores the point and runs `_activate_proposals`, which
    derives `_active_props` from the NaN pattern of `_start`.  (It neither clears the
    retained records nor checks the index against the pattern or the bounds.) -/
def Level.setStart (l : Level) (p : Point) : Level :=
  { l with start := some p, active := p.pattern }

structure StepIn where
  jump : JumpIn
  accept : Bool        -- the accept/reject outcome of `Chain.step` (decided by the Chain model)
deriving DecidableEq, Inhabited

/-- `Chain.step`, transdimensional bookkeeping only:
    `current_pos.update({'_state': self._active_props})`, the jump, `proposed_position =
    proposal.copy()`, on accept `_active_props = proposal.pop('_state')` and the proposed
    point is recorded, on reject the current point is recorded again.
    `none` = the step raised (no start position, or the jump raised). -/
def Level.step (cfg : Cfg) (l : Level) (i : StepIn) : Option Level :=
  match l.current with
  | none => none
  | some cur =>
    match jump cfg { pt := cur, state := l.active } i.jump with
    | .ok y =>
      some { l with proposed := some y
                    recs := l.recs ++ [if i.accept then y.pt else cur]
                    active := if i.accept then y.state else l.active
                    iteration := l.iteration + 1 }
    | _ => none

/-- `Chain.clear`. -/
def Level.clear (l : Level) : Level :=
  if l.iteration > 0 then { l with start := l.current, recs := [] } else l

/-- The transdimensional content of `Chain.state`. -/
structure Saved where
  cur : Point
  proposed : Option SPoint
  iteration : Nat
deriving DecidableEq, Inhabited

/-- `Chain.state`; raises before the first step (`proposed_position` is unset). -/
def Level.save (l : Level) : Option Saved :=
  if l.iteration = 0 then none
  else match l.current with
    | none => none
    | some cur => some { cur := cur, proposed := l.proposed, iteration := l.iteration }

/-- `Chain.set_state`: clear, take over the saved current and proposed positions, and
    re-derive `_active_props` from the NaN pattern (`_activate_proposals`). -/
def Level.load (l : Level) (s : Saved) : Level :=
  { l.clear with iteration := s.iteration, start := some s.cur, recs := [],
                 proposed := s.proposed, active := s.cur.pattern }

/-- `NestedTransdimensional._update`: which in-model proposals get `prop.update(chain)`
    after a step: none while `chain.iteration ≤ 1`; afterwards those whose parameters are
    not all NaN both in `positions[-1]` and in the record before it (`start_position`
    when only one record is retained). -/
def Level.updated (l : Level) : List Bool :=
  match l.recs.getLast? with
  | none => []
  | some cur =>
    let prev : Option Point :=
      if l.recs.length = 1 then l.start else l.recs.dropLast.getLast?
    match prev with
    | none => []
    | some prev =>
      if l.iteration > 1 then
        (List.range cur.comps.length).map fun j =>
          (prev.pattern.getD j false) && (cur.pattern.getD j false)
      else (List.range cur.comps.length).map fun _ => false

/-! ## the ladder: `ParallelTemperedChain` -/

/-- What `swap_temperatures` needs: `swap_index` lists `n` valid levels and every level
    has a record (a sweep runs right after every level stepped). -/
def sweepOk (levels : List Level) (swapIndex : List Nat) : Bool :=
  swapIndex.length == levels.length && swapIndex.all (· < levels.length)
    && levels.all (fun l => !l.recs.isEmpty)

/-- `swap_temperatures`, transdimensional content: level `t` receives the current
    position and the `_active_props` of level `swap_index[t]`; the position overwrites
    the last retained record.  `none` = the real code raises (`sweepOk` fails). -/
def sweep (levels : List Level) (swapIndex : List Nat) : Option (List Level) :=
  if sweepOk levels swapIndex then
    some ((List.range levels.length).map fun t =>
      let tgt := levels.getD t default
      let src := levels.getD (swapIndex.getD t 0) default
      { tgt with recs := tgt.recs.dropLast ++ [src.recs.getLast?.getD default]
                 active := src.active })
  else none

structure PT where
  levels : List Level
  saved : Option (List Saved) := none    -- a checkpoint taken earlier
deriving Inhabited

inductive Op where
  | start (pts : List Point)
  | step (ins : List StepIn) (swapIndex : Option (List Nat))
  | clear
  | save
  | load
deriving Inhabited

def zipStep (cfg : Cfg) : List Level → List StepIn → Option (List Level)
  | [], [] => some []
  | l :: ls, i :: is => do
      let l' ← l.step cfg i
      let ls' ← zipStep cfg ls is
      pure (l' :: ls')
  | _, _ => none

def zipStart : List Level → List Point → Option (List Level)
  | [], [] => some []
  | l :: ls, p :: ps => do
      let ls' ← zipStart ls ps
      pure (l.setStart p :: ls')
  | _, _ => none

def zipLoad : List Level → List Saved → Option (List Level)
  | [], [] => some []
  | l :: ls, s :: ss => do
      let ls' ← zipLoad ls ss
      pure (l.load s :: ls')
  | _, _ => none

def PT.apply (cfg : Cfg) (c : PT) : Op → Option PT
  | .start pts => do
      let ls ← zipStart c.levels pts
      pure { c with levels := ls }
  | .step ins sw => do
      let ls ← zipStep cfg c.levels ins
      match sw with
      | none => pure { c with levels := ls }
      | some idx => do
          let ls' ← sweep ls idx
          pure { c with levels := ls' }
  | .clear => some { c with levels := c.levels.map Level.clear }
  | .save =>
      if c.levels.all (fun l => l.save.isSome) then
        some { c with saved := some (c.levels.filterMap Level.save) }
      else none
  | .load => do
      let sv ← c.saved
      let ls ← zipLoad c.levels sv
      pure { c with levels := ls }

def PT.run (cfg : Cfg) (c : PT) : List Op → Option PT
  | [] => some c
  | op :: ops => match c.apply cfg op with
    | some c' => c'.run cfg ops
    | none => none

def PT.fresh (ntemps : Nat) : PT := { levels := List.replicate ntemps {} }

/-! ## `NestedTransdimensional._logpdf` and the acceptance ratio -/

/-- The model's own binomial coefficient (Pascal's rule); equal to `Nat.choose`
    (`EpsieProofs.TransdimLemmas.choose_eq`). -/
def choose : Nat → Nat → Nat
  | _, 0 => 1
  | 0, _ + 1 => 0
  | n + 1, k + 1 => choose n k + choose n (k + 1)

/-- Oracle log-densities reported by the real objects for one ordered pair (xi | givenx). -/
structure Dens where
  index : Rat            -- `model_proposal.logpdf({k: xi[k]}, {k: givenx[k]})`
  birth : List Rat       -- `prop.birth_distribution.logpdf({p: xi[p]})`, by component
  inModel : List Rat     -- `prop.logpdf({p: xi[p]}, {p: givenx[p]})`, by component
deriving DecidableEq, Inhabited

/-- Sum of `vals[j]` over the `j < n` selected by `sel`. -/
def sumSel (n : Nat) (sel : Nat → Bool) (vals : List Rat) : Rat :=
  ((List.range n).filter sel).foldl (fun acc j => acc + vals.getD j 0) 0

/-- `NestedTransdimensional._logpdf(xi, givenx)`: index density, plus the birth densities of
    the components switched on iff `dk > 0`, plus the in-model densities of the components
    active on both sides (whatever their `symmetric` flag).  Nothing is added for the
    choice of the components and nothing for a death. -/
def logqCode (xi givenx : SPoint) (d : Dens) : Rat :=
  let cur := givenx.state
  let prop := xi.state
  let n := cur.length
  let dk := xi.pt.k - givenx.pt.k
  d.index
    + (if dk > 0 then sumSel n (fun j => !(cur.getD j false) && prop.getD j false) d.birth else 0)
    + sumSel n (fun j => cur.getD j false && prop.getD j false) d.inModel

/-- Number of equally likely outcomes of the `choice` call in a jump `givenx → xi`:
    `C(#candidates, |dk|)`; 1 when `dk = 0` (no call). -/
def nWays (xi givenx : SPoint) : Nat :=
  let dk := xi.pt.k - givenx.pt.k
  if dk = 0 then 1
  else choose (candidates (decide (dk > 0)) givenx.state).length dk.natAbs

/-- The log-density of the true law of the composite jump, kept exact:
    `q_true = exp(log) / ways`. -/
structure LogQ where
  log : Rat
  ways : Nat
deriving DecidableEq, Inhabited

def logqTrue (xi givenx : SPoint) (d : Dens) : LogQ :=
  { log := logqCode xi givenx d, ways := nWays xi givenx }

/-- `NestedTransdimensional.symmetric`. -/
def Cfg.tdSymmetric (cfg : Cfg) : Bool := cfg.innerSym.all id && cfg.modelSym

/-- What `JointProposal.logpdf(cur, prop) − JointProposal.logpdf(prop, cur)` contributes to
    `logar` in `Chain._acceptance_ratio`.  `others`: the other constituents of the joint
    proposal as (symmetric flag, reverse log-density, forward log-density).  The term is
    skipped when every constituent is symmetric; otherwise only the non-symmetric
    constituents are summed. -/
def hastings (tdSym : Bool) (qrev qfwd : Rat) (others : List (Bool × Rat × Rat)) : Rat :=
  if tdSym && others.all (·.1) then 0
  else (if tdSym then 0 else qrev - qfwd)
       + (others.filter (fun o => !o.1)).foldl (fun acc o => acc + (o.2.1 - o.2.2)) 0

/-- `logar` of `Chain._acceptance_ratio`. -/
def logAR (beta logl logp logl' logp' h : Rat) : Rat :=
  logp' + logl' * beta - logp - logl * beta + h

/-- The recorded `acceptance_ratio`: 1 when `logar > 0`, else `exp(logar)`. -/
def arOf (logar : Rat) : AR := if logar > 0 then .one else .exp logar

end Transdim
end Epsie
