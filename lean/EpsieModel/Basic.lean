/-
  EpsieModel.Basic — shared vocabulary of the epsie model (core Lean only).

  Numbers that the real code produces with numpy/scipy enter the model as
  exact rationals (every IEEE double is one); NaN is an explicit constructor.
-/
namespace Epsie

/-- A stored number: a finite value or NaN (inactive transdimensional slot). -/
inductive Val where
  | num (q : Rat)
  | nan
deriving DecidableEq, Inhabited

def Val.isNan : Val → Bool
  | .nan => true
  | .num _ => false

/-- The acceptance probability recorded by a step, kept symbolic:
    `zero` = forced reject (log-prior −∞), `one` = `logar > 0`,
    `exp l` = `numpy.exp(logar)` with `logar = l ≤ 0`. -/
inductive AR where
  | zero
  | one
  | exp (l : Rat)
deriving DecidableEq, Inhabited

/-- The part of a record that a temperature swap moves: position, stats, blob. -/
structure St where
  pos : List Val
  logl : Rat
  logp : Rat
  blob : List Val
deriving DecidableEq, Inhabited

/-- The part of a record that a temperature swap does not move. -/
structure Acc where
  ar : AR
  accepted : Bool
deriving DecidableEq, Inhabited

structure Rec where
  st : St
  acc : Acc
deriving DecidableEq, Inhabited

/-- What one call of the user's model returns. `logp = none` is −∞. -/
structure Eval where
  logl : Rat
  logp : Option Rat
  blob : List Val
deriving DecidableEq, Inhabited

/-! ### Scratch space (`ChainData`) -/

/-- `ChainData.extend`/`set_len`: grow to at least `n` rows of NaN. -/
def growTo {α} (l : List (Option α)) (n : Nat) : List (Option α) :=
  l ++ List.replicate (n - l.length) none

/-- `ChainData.__setitem__` at an integer index: extend if needed, then write. -/
def setAt {α} (l : List (Option α)) (i : Nat) (r : α) : List (Option α) :=
  (growTo l (i + 1)).set i (some r)

/-- Read row `i` of the scratch (none = beyond the end or never written). -/
def rowAt {α} (l : List (Option α)) (i : Nat) : Option α :=
  (l[i]?).join

/-- Python's `i % n` for `n > 0` on a possibly negative `i`. -/
def pyModNat (i : Int) (n : Nat) : Nat := (i % (n : Int)).toNat

end Epsie
