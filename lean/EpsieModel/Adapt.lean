/-
  EpsieModel.Adapt — the numerical recursions of the adaptive proposals
  (epsie/proposals/normal.py `AdaptiveSupport`, `SSAdaptiveSupport`,
  `ATAdaptiveSupport`; eigenvector.py `AdaptiveEigenvectorSupport`;
  solid_angle.py `AdaptiveIsotropicSolidAngleSupport`) on top of the clock of
  `EpsieModel.Proposal` (`PropSt.update`, `callJump`, `inWindow`, `dkUpdate`).

  Core Lean only.  Everything is written once, over an arbitrary number type
  `α` carrying the core arithmetic classes:
    * at `α = Rat` the definitions are executable (DriverAdapt.lean) and are
      compared with the real objects step by step; every value that numpy
      obtains from a transcendental function (the gains `dk^-0.6 - T^-0.6`,
      `dk^-decay - 0.1`, `exp(±1/n)`, `exp(log λ)`, `exp(log κ)`, the von
      Mises–Fisher normalisation, `eigh`) is an *oracle input*: a field of the
      configuration (`gain`, `alphaUp`, `alphaDown`: tables keyed by the
      integer clock) or of the step input (`ek`, `nm`, `w`);
    * at `α = ℝ` (EpsieProps/C13.lean, C14.lean) the same definitions are
      instantiated with the defining formulas themselves.
  The theorems are proved for every linearly ordered field.

  What the real code rejects is modelled as `none`:
    * `IsotropicSolidAngle.kappa` setter raises unless `> 0`, the `norm` setter unless `>= 0`;
    * `Eigenvector.eigvals` setter raises on an eigenvalue `< 0` whose size
      relative to the largest is `≥ 1e-12` (smaller ones are replaced by 0);
    * Sivia–Skilling `rate = n_accepted / n_iter` raises ZeroDivisionError for
      `n_iter = 0`; `n_iter < 0` cannot arise from the constructor
      (`start_step = 1`), `_reset_adaptation` (`start_step = nsteps`) or
      `update` and is also mapped to `none` (`C14_ss_never_raises` in
      EpsieProps/C14.lean shows that neither is reachable).
-/
import EpsieModel.Proposal
namespace Epsie.Adapt

/-! ## The clocked wrapper: `BaseProposal.update` around a class's `_update` -/

/-- An adaptive proposal: the shared clock plus the class's numerical state. -/
structure Ad (σ : Type) where
  clock : PropSt
  num : σ

/-- The record `PropSt.update` logs (the numerical model keeps the values itself). -/
def arTag (accepted : Bool) : AR := if accepted then .one else .zero

/-- `BaseProposal.update(chain)`: run the body of the class's `_update` (what is inside
    its window guard; it sees `dk = nsteps - start_step + 1` and `nsteps`) iff the
    proposal jumped at this iteration and the clock is inside the window; then
    `_nsteps += 1`.  `none`: the body raised (the counter is then not advanced and the
    exception leaves `Chain.step`). -/
def Ad.update {σ : Type} (body : Int → Nat → σ → Option σ) (a : Ad σ) (accepted : Bool) :
    Option (Ad σ) :=
  if a.clock.callJump && a.clock.inWindow then
    (body a.clock.dkUpdate a.clock.nsteps a.num).map fun s =>
      { clock := a.clock.update accepted (arTag accepted) [], num := s }
  else
    some { clock := a.clock.update accepted (arTag accepted) [], num := a.num }

/-- `_reset_adaptation` (`Chain.reset_proposals()`, `reset_after_swap`): the clock restarts at the
    current proposal step (`start_step ← max(nsteps, 1)`, `PropSt.reset`: the window, and the
    Sivia–Skilling count `n_iter`, are measured from there) and every adapted quantity goes back
    to the stored initial value `init` (widths / covariance, `n_accepted = 0`, `log λ`, mean,
    unit covariance, `κ`). -/
def Ad.reset {σ : Type} (init : σ) (a : Ad σ) : Ad σ := { clock := a.clock.reset, num := init }

/-- A whole history: `body i` is the `_update` body fed with the chain's record `i`
    (the only thing `update(chain)` reads), `acc i` its accepted flag. -/
def Ad.run {σ ι : Type} (body : ι → Int → Nat → σ → Option σ) (acc : ι → Bool) :
    Ad σ → List ι → Option (Ad σ)
  | a, [] => some a
  | a, i :: is => (a.update (body i) (acc i)).bind fun a' => Ad.run body acc a' is

/-- A sampler's chains each own their proposal object (deep copies): chain `j` is
    driven by its own history only. -/
def runAll {σ ι : Type} (body : ι → Int → Nat → σ → Option σ) (acc : ι → Bool)
    (chains : List (Ad σ)) (histories : List (List ι)) : List (Option (Ad σ)) :=
  List.zipWith (Ad.run body acc) chains histories

section Numeric
variable {α : Type} [Add α] [Sub α] [Mul α] [Div α] [Neg α] [LT α] [LE α]
  [DecidableLT α] [DecidableLE α] [OfNat α 0] [OfNat α 1] [OfNat α 10] [NatCast α]

abbrev Mat (α : Type) (n : Nat) := Vector (Vector α n) n

/-! ## Veitch et al. (`AdaptiveSupport._update`, window `1 ≤ dk < T`) -/

structure VeitchCfg (α : Type) (n : Nat) where
  xi : α                  -- target_rate
  deltas : Vector α n     -- prior widths
  gain : Int → α          -- dk ↦ dk ** (-adaptation_decay) - 0.1

/-- `alpha = 1 - target_rate` if the last step was accepted, `-target_rate` otherwise. -/
def veitchAlpha (xi : α) (accepted : Bool) : α := if accepted then 1 - xi else -xi

/-- One component: `newsigma = sigma + alpha*g*delta/10`, installed only if it is `> 0`
    (`lzidx = newsigmas <= 0; newsigmas[lzidx] = sigmas[lzidx]`): a step that would make the
    width negative OR ZERO leaves that width unchanged. -/
def veitchComp (alpha g d s : α) : α :=
  let n := s + alpha * g * d / 10
  if n ≤ 0 then s else n

def veitchBody {n : Nat} (c : VeitchCfg α n) (accepted : Bool) (dk : Int) (std : Vector α n) :
    Vector α n :=
  Vector.ofFn fun i : Fin n => veitchComp (veitchAlpha c.xi accepted) (c.gain dk) c.deltas[i] std[i]

/-- `setup_adaptation(initial_std=None)`: the documented default initial widths
    `(1 - target_rate) * 0.09 * prior_width`.  A user-supplied `initial_std` is a free initial
    condition: any vector, one entry per parameter, in no fixed proportion to the prior widths
    (the guard of `veitchComp` is therefore decided for every parameter separately). -/
def veitchDefaultStd {n : Nat} (xi : α) (deltas : Vector α n) : Vector α n :=
  Vector.ofFn fun i : Fin n => (1 - xi) * ((10 - 1) / (10 * 10)) * deltas[i]

/-! ## Sivia–Skilling (`SSAdaptiveSupport._update`, no window) -/

structure SSCfg (α : Type) where
  xi : α
  /-- `max_std` for a diagonal proposal, `max_std**2` for a full covariance; `none` = inf. -/
  cap : Option α
  /-- `n_accepted ↦ exp(1/n_accepted)` (full covariance) or its square root (diagonal). -/
  alphaUp : Nat → α
  /-- `n_rejected ↦ exp(-1/n_rejected)` (full covariance) or its square root (diagonal). -/
  alphaDown : Nat → α

/-- `vals`: the entries of `_std` (diagonal) or of `_cov` (otherwise), flattened. -/
structure SSSt (α : Type) (m : Nat) where
  nAcc : Nat
  vals : Vector α m

/-- `numpy.ndarray.max()`. -/
def vmax {m : Nat} (v : Vector α m) : Option α :=
  v.toList.foldl (fun acc x => match acc with
    | none => some x
    | some a => some (if a < x then x else a)) none

inductive SSBranch where
  | up | down | same
deriving DecidableEq, Inhabited

/-- Which way the acceptance rate so far points. -/
def ssBranch (xi rate : α) : SSBranch :=
  if xi < rate then .up else if rate < xi then .down else .same

/-- The factor applied at this update. -/
def ssAlpha (c : SSCfg α) (n : Nat) (nIter : Nat) : α :=
  match ssBranch c.xi ((n : α) / (nIter : α)) with
  | .up => c.alphaUp n
  | .down => c.alphaDown (nIter - n)
  | .same => 1

/-- Is the rescaling applied?  `alpha <= 1 or alpha * max <= cap`: a factor that does not
    widen is always applied, the cap only limits widening. -/
def ssAllowed {m : Nat} (c : SSCfg α) (a : α) (vals : Vector α m) : Bool :=
  decide (a ≤ 1) ||
  match c.cap, vmax vals with
  | some cap, some mx => decide (a * mx ≤ cap)
  | _, _ => true

/-- `n_iter = nsteps - (start_step - 1) + 1 = dk + 1`. -/
def ssBody {m : Nat} (c : SSCfg α) (accepted : Bool) (dk : Int) (s : SSSt α m) :
    Option (SSSt α m) :=
  let nIter : Int := dk + 1
  if nIter ≤ 0 then none else
  let n := s.nAcc + (if accepted then 1 else 0)
  let a := ssAlpha c n nIter.toNat
  some { nAcc := n
         vals := if ssAllowed c a s.vals then s.vals.map (fun v => v * a) else s.vals }

/-! ## Andrieu–Thoms (`ATAdaptiveSupport._update`, window `1 < dk < T`) -/

structure ATCfg (α : Type) where
  xi : α
  gain : Int → α          -- dk ↦ dk ** (-0.6) - T ** (-0.6)

/-- `_log_lambda`: a scalar (global scaling) or one entry per parameter (componentwise). -/
inductive Lam (α : Type) (n : Nat) where
  | glob (l : α)
  | comp (l : Vector α n)

/-- `_unit_cov`: a vector (diagonal) or a matrix. -/
inductive Shape (α : Type) (n : Nat) where
  | diag (v : Vector α n)
  | full (m : Mat α n)

structure ATSt (α : Type) (n : Nat) where
  logLam : Lam α n
  mean : Vector α n
  ucov : Shape α n

/-- What the update reads from its chain: the recorded acceptance ratio of the last
    step, the acceptance ratios of the `n` virtual one-coordinate moves (evaluated by
    the componentwise variant only) and the current position. -/
structure ATIn (α : Type) (n : Nat) where
  ar : α
  vars : Vector α n
  x : Vector α n

/-- `log λ += g * (ar - target_rate)`. -/
def atLam (g xi l ar : α) : α := l + g * (ar - xi)

def atBody {n : Nat} (c : ATCfg α) (i : ATIn α n) (dk : Int) (s : ATSt α n) : ATSt α n :=
  let g := c.gain dk
  let df : Vector α n := Vector.ofFn fun j : Fin n => i.x[j] - s.mean[j]
  { logLam := match s.logLam with
      | .glob l => .glob (atLam g c.xi l i.ar)
      | .comp l => .comp (Vector.ofFn fun j : Fin n => atLam g c.xi l[j] i.vars[j])
    mean := Vector.ofFn fun j : Fin n => s.mean[j] + g * df[j]
    ucov := match s.ucov with
      | .diag v => .diag (Vector.ofFn fun j : Fin n => v[j] + g * (df[j] * df[j] - v[j]))
      | .full M => .full (Vector.ofFn fun j : Fin n => Vector.ofFn fun k : Fin n =>
          M[j][k] + g * (df[j] * df[k] - M[j][k])) }

/-- The factor of coordinate `j`: `sl j` stands for `exp(log λ)**0.5` (global: the same
    for every `j`). -/
def lamAt {n : Nat} (l : Lam α n) (j : Fin n) : α :=
  match l with
  | .glob l => l
  | .comp l => l[j]

/-- The scale the proposal jumps with, as variances / covariances:
    diagonal `_std**2 = exp(log λ_j) * unit_cov_j`; full
    `_cov = exp(log λ) * unit_cov` resp. `Λ^½ unit_cov Λ^½`.  `sl j = exp(log λ_j)**0.5`. -/
def atScale {n : Nat} (sl : Fin n → α) (s : ATSt α n) : Shape α n :=
  match s.ucov with
  | .diag v => .diag (Vector.ofFn fun j : Fin n => sl j * sl j * v[j])
  | .full M => .full (Vector.ofFn fun j : Fin n => Vector.ofFn fun k : Fin n =>
      sl j * M[j][k] * sl k)

/-! ## Adaptive eigenvector (`AdaptiveEigenvectorSupport._update`, window `1 < dk < T`) -/

structure EigSt (α : Type) (n : Nat) where
  cov : Mat α n
  mu : Vector α n
  logLam : α
  eigvals : Vector α n     -- what `_jump` uses as the 1-d scales

structure EigIn (α : Type) (n : Nat) where
  ar : α
  x : Vector α n
  /-- oracle: `numpy.linalg.eigh(cov)[0]` of the updated covariance -/
  w : Vector α n
  /-- oracle: `exp(log λ)` of the updated `log λ` -/
  el : α

/-- `recursive_covariance`, with `N = nsteps`. -/
def eigCov {n : Nat} (N : α) (cov : Mat α n) (dx : Vector α n) : Mat α n :=
  Vector.ofFn fun j : Fin n => Vector.ofFn fun k : Fin n =>
    (N - 1) / N * (cov[j][k] + N / (N * N - 1) * (dx[j] * dx[k]))

def eigMu {n : Nat} (N : α) (mu x : Vector α n) : Vector α n :=
  Vector.ofFn fun j : Fin n => (N * mu[j] + x[j]) / (N + 1)

/-- The `eigvals` setter: `none` = raises; tiny negative values become 0.
    `tol` is the literal `1e-12`. -/
def eigClip {n : Nat} (tol : α) (w : Vector α n) : Option (Vector α n) :=
  match vmax w with
  | none => some w
  | some mx =>
    if w.toList.all (fun v => !(decide (v < 0)) || (decide (-(v / mx) < tol) && decide (v / mx < tol)))
    then some (w.map fun v => if v < 0 then 0 else v)
    else none

def eigBody {n : Nat} (c : ATCfg α) (tol : α) (i : EigIn α n) (dk : Int) (N : Nat)
    (s : EigSt α n) : Option (EigSt α n) :=
  let dx : Vector α n := Vector.ofFn fun j : Fin n => i.x[j] - s.mu[j]
  let cov := eigCov (N : α) s.cov dx
  let mu := eigMu (N : α) s.mu i.x
  match eigClip tol i.w with
  | none => none
  | some w =>
    some { cov := cov, mu := mu
           logLam := atLam (c.gain dk) c.xi s.logLam i.ar
           eigvals := w.map fun v => v * i.el }

/-! ## Adaptive von Mises–Fisher (`AdaptiveIsotropicSolidAngleSupport._update`) -/

structure VmfSt (α : Type) where
  logKappa : α
  kappa : α
  norm : α

structure VmfIn (α : Type) where
  ar : α
  /-- oracle: `numpy.exp(_log_kappa)` -/
  ek : α
  /-- oracle: `kappa / (4*pi*sinh(kappa))` as numpy evaluates it (0 once `4 pi sinh kappa`
      overflows, i.e. for kappa > 707.94) -/
  nm : α

/-- `log κ += g * (target_rate - ar)`. -/
def vmfLogKappa (g xi l ar : α) : α := l + g * (xi - ar)

/-- The `kappa` setter raises unless `> 0`, the `norm` setter unless `>= 0` (the
    normalisation may underflow to 0; it is not used for drawing, and `_logpdf` uses the
    log-space `_lognormalisation`). -/
def vmfBody (c : ATCfg α) (i : VmfIn α) (dk : Int) (s : VmfSt α) : Option (VmfSt α) :=
  if 0 < i.ek then
    if 0 ≤ i.nm then
      some { logKappa := vmfLogKappa (c.gain dk) c.xi s.logKappa i.ar, kappa := i.ek, norm := i.nm }
    else none
  else none

end Numeric

/-! ## The five proposals as clocked machines -/

section Machines
variable {α : Type} [Add α] [Sub α] [Mul α] [Div α] [Neg α] [LT α] [LE α]
  [DecidableLT α] [DecidableLE α] [OfNat α 0] [OfNat α 1] [OfNat α 10] [NatCast α]

def veitchUpdate {n : Nat} (c : VeitchCfg α n) (a : Ad (Vector α n)) (accepted : Bool) :
    Option (Ad (Vector α n)) :=
  a.update (fun dk _ s => some (veitchBody c accepted dk s)) accepted

def ssUpdate {m : Nat} (c : SSCfg α) (a : Ad (SSSt α m)) (accepted : Bool) : Option (Ad (SSSt α m)) :=
  a.update (fun dk _ s => ssBody c accepted dk s) accepted

def atUpdate {n : Nat} (c : ATCfg α) (a : Ad (ATSt α n)) (accepted : Bool) (i : ATIn α n) :
    Option (Ad (ATSt α n)) :=
  a.update (fun dk _ s => some (atBody c i dk s)) accepted

def eigUpdate {n : Nat} (c : ATCfg α) (tol : α) (a : Ad (EigSt α n)) (accepted : Bool)
    (i : EigIn α n) : Option (Ad (EigSt α n)) :=
  a.update (fun dk N s => eigBody c tol i dk N s) accepted

def vmfUpdate (c : ATCfg α) (a : Ad (VmfSt α)) (accepted : Bool) (i : VmfIn α) :
    Option (Ad (VmfSt α)) :=
  a.update (fun dk _ s => vmfBody c i dk s) accepted

end Machines

end Epsie.Adapt
