/-
  EpsieModel.ExtLog — log-densities with the IEEE specials the real code meets: a likelihood
  that vanishes (`logl = -inf`), and the `nan` that `0 * -inf` or `inf - inf` produce.  The
  plumbing model keeps likelihoods finite (`Eval.logl : Rat`); this file carries the acceptance
  rule over the extended values so that the region `L = 0` is inside a theorem
  (EpsieProps/C01SourceExt.lean) instead of outside every one.  Core Lean only.
-/
import EpsieModel.Basic
namespace Epsie

/-- A float as far as the acceptance rule can tell: finite (exact rational), ±∞ or NaN. -/
inductive EL where
  | fin (q : Rat)
  | ninf
  | pinf
  | nan
deriving DecidableEq, Inhabited

namespace EL

instance : OfNat EL n := ⟨.fin (n : Rat)⟩

def neg : EL → EL
  | fin q => fin (-q)
  | ninf => pinf
  | pinf => ninf
  | nan => nan

/-- IEEE addition. -/
def add : EL → EL → EL
  | nan, _ => nan
  | _, nan => nan
  | fin a, fin b => fin (a + b)
  | fin _, ninf => ninf
  | fin _, pinf => pinf
  | ninf, fin _ => ninf
  | pinf, fin _ => pinf
  | ninf, ninf => ninf
  | pinf, pinf => pinf
  | ninf, pinf => nan
  | pinf, ninf => nan

/-- The infinity with the sign of `q`, `nan` for `q = 0` (`0 * inf`). -/
def infTimes (positiveInf : Bool) (q : Rat) : EL :=
  if q = 0 then nan
  else if (q > 0) = positiveInf then pinf else ninf

/-- IEEE multiplication. -/
def mul : EL → EL → EL
  | nan, _ => nan
  | _, nan => nan
  | fin a, fin b => fin (a * b)
  | fin a, ninf => infTimes false a
  | fin a, pinf => infTimes true a
  | ninf, fin b => infTimes false b
  | pinf, fin b => infTimes true b
  | ninf, ninf => pinf
  | pinf, pinf => pinf
  | ninf, pinf => ninf
  | pinf, ninf => ninf

instance : Add EL := ⟨add⟩
instance : Mul EL := ⟨mul⟩
instance : Neg EL := ⟨neg⟩
instance : Sub EL := ⟨fun a b => add a (neg b)⟩

/-- IEEE `a < b` (false whenever a NaN is involved). -/
def ltb : EL → EL → Bool
  | nan, _ => false
  | _, nan => false
  | fin a, fin b => decide (a < b)
  | fin _, pinf => true
  | fin _, ninf => false
  | ninf, ninf => false
  | ninf, _ => true
  | pinf, _ => false

instance : LT EL := ⟨fun a b => ltb a b = true⟩
instance (a b : EL) : Decidable (a < b) := inferInstanceAs (Decidable (ltb a b = true))

def isFinite : EL → Bool
  | fin _ => true
  | _ => false

end EL

/-- `numpy.exp` of an extended log-probability, symbolic as in `AR`. -/
inductive ARX where
  | zero            -- exp(-inf)
  | one             -- `ar = 1.` (logar > 0)
  | exp (l : Rat)   -- exp of a finite logar ≤ 0
  | inf             -- exp(+inf) (not reached by the acceptance rule: `logar > 0` is tested first)
  | nan
deriving DecidableEq, Inhabited

namespace ARX

def ofExp : EL → ARX
  | .fin l => .exp l
  | .ninf => .zero
  | .pinf => .inf
  | .nan => .nan

def isNan : ARX → Bool
  | .nan => true
  | _ => false

/-- The code's `u <= ar`, `u` uniform in (0,1) given by its logarithm. -/
def uLe (logu : Rat) : ARX → Bool
  | .zero => false
  | .one => true
  | .exp l => decide (logu ≤ l)
  | .inf => true
  | .nan => false

/-- The finite part as the plumbing model's `AR`. -/
def toAR : ARX → Option AR
  | .zero => some .zero
  | .one => some .one
  | .exp l => some (.exp l)
  | _ => none

end ARX

namespace Src

/-- `numpy.zeros(n)` holding (extended) acceptance probabilities. -/
def zerosARX (n : Int) : List ARX := List.replicate n.toNat ARX.zero

/-- `numpy.diff(x)` over extended values. -/
def diffX : List EL → List EL
  | a :: b :: rest => (b - a) :: diffX (b :: rest)
  | _ => []

end Src
end Epsie
