/-
  EpsieModel.Chain — `epsie.chain.Chain` (chain/chain.py) as a pure state
  machine fed by oracle values.

  Everything numerical library code produces (the point a proposal's `_jump`
  returns, the user's model outputs, reported log-densities, the uniform) is an
  input of `Chain.step`; everything that is logic is decided here.
-/
import EpsieModel.Proposal
namespace Epsie

structure Chain where
  beta : Rat
  props : List PropSt
  iteration : Nat := 0
  lastclear : Nat := 0
  scratchlen : Nat := 0                -- `_scratchlen`
  scratch : List (Option Rec) := []    -- rows of `_positions/_stats/_acceptance/_blobs`
  start : Option St := none            -- `_start`, `_stats0`, `_blob0`
  proposed : Option (List Val) := none -- `_proposed_position`
  hasblobs : Bool := false
  calls : Nat := 0                     -- evaluations of the user's model made by this chain
  chainId : Nat := 0
deriving Inhabited

namespace Chain

/-- `len(chain) = iteration - lastclear`. -/
def len (c : Chain) : Nat := c.iteration - c.lastclear

/-- `current_position`/`current_stats`/`current_blob`: the last record, or the
    start values when nothing is retained. `none` = start position not set. -/
def current (c : Chain) : Option St :=
  if c.len = 0 then c.start
  else (rowAt c.scratch (c.len - 1)).map (·.st)

/-- Setting the start position: one model call; rejects a start outside the prior. -/
def setStart (c : Chain) (pos : List Val) (e : Eval) : Option Chain :=
  match e.logp with
  | none => none                         -- "starting position is outside of the prior!"
  | some lp =>
    some { c with start := some { pos := pos, logl := e.logl, logp := lp, blob := e.blob }
                  hasblobs := !e.blob.isEmpty
                  calls := c.calls + 1 }

/-! ### The joint jump -/

/-- Overwrite the entries `ps` of `pos` with `vs` (a proposal's `_jump` result). -/
def applyJump (pos : List Val) : List Nat → List Val → List Val
  | p :: ps, v :: vs => applyJump (pos.set p v) ps vs
  | _, _ => pos

/-- `JointProposal._jump`: each constituent that is due replaces its own
    parameters; the others hand back the current values. -/
def jointJump (pos : List Val) : List PropSt → List (List Val) → List Val
  | p :: ps, j :: js =>
      jointJump (if p.callJump then applyJump pos p.cfg.params j else pos) ps js
  | _, _ => pos

/-- `JointProposal.symmetric = all(prop.symmetric)`. -/
def jointSymmetric (ps : List PropSt) : Bool := ps.all (·.cfg.symmetric)

/-- Does constituent `p` contribute a (non-zero) term to `JointProposal._logpdf`? -/
def contributes (p : PropSt) : Bool := !p.cfg.symmetric && p.callJump

/-- `Σ_{p non-symmetric, due} q_p`, for the reported values `qs`. -/
def sumContrib : List PropSt → List Rat → Rat
  | p :: ps, q :: qs => (if contributes p then q else 0) + sumContrib ps qs
  | _, _ => 0

/-- The Hastings term `logq(x|x') - logq(x'|x)`; absent when the joint proposal is symmetric. -/
def hastings (ps : List PropSt) (rev fwd : List Rat) : Rat :=
  if jointSymmetric ps then 0 else sumContrib ps rev - sumContrib ps fwd

/-! ### The acceptance decision -/

/-- `logar` of `Chain._acceptance_ratio`. -/
def logAR (beta : Rat) (cur : St) (logl logp : Rat) (h : Rat) : Rat :=
  logp + logl * beta - cur.logp - cur.logl * beta + h

inductive Decision where
  | forced            -- `logp == -inf`
  | sure              -- `logar > 0`
  | draw (l : Rat)    -- `u <= exp(logar)`, `l = logar ≤ 0`
deriving DecidableEq, Inhabited

def decision (beta : Rat) (cur : St) (e : Eval) (h : Rat) : Decision :=
  match e.logp with
  | none => .forced
  | some lp =>
    let l := logAR beta cur e.logl lp h
    if l > 0 then .sure else .draw l

/-- The test `u <= exp(logar)` in log space (`logu = log u`; see `C01_logspace_test`). -/
def Decision.accepted : Decision → Rat → Bool
  | .forced, _ => false
  | .sure, _ => true
  | .draw l, logu => decide (logu ≤ l)

def Decision.ar : Decision → AR
  | .forced => .zero
  | .sure => .one
  | .draw l => .exp l

def Decision.usesUniform : Decision → Bool
  | .draw _ => true
  | _ => false

/-! ### One step -/

structure StepIn where
  jumps : List (List Val)   -- per constituent: the values its `_jump` returns (read iff due)
  eval : Eval               -- the model at the proposed point
  rev : List Rat            -- per constituent: reported log q(x | x')   (read iff it contributes)
  fwd : List Rat            -- per constituent: reported log q(x' | x)
  logu : Rat                -- log of the uniform (read iff the decision is `draw`)
deriving Inhabited

/-- The record a step writes. -/
def stepRec (c : Chain) (cur : St) (i : StepIn) : Rec :=
  let prop := jointJump cur.pos c.props i.jumps
  let d := decision c.beta cur i.eval (hastings c.props i.rev i.fwd)
  if d.accepted i.logu then
    { st := { pos := prop, logl := i.eval.logl, logp := i.eval.logp.getD 0, blob := i.eval.blob }
      acc := { ar := d.ar, accepted := true } }
  else
    { st := cur, acc := { ar := d.ar, accepted := false } }

/-- Componentwise Andrieu–Thoms scaling makes one *virtual* evaluation of the model per
    parameter of the proposal, in every update that falls inside its adaptation window. -/
def extraCalls (ps : List PropSt) : Nat :=
  (ps.map fun p => if p.cfg.comp && p.callJump && p.inWindow then p.cfg.params.length else 0).sum

/-- `Chain.step`. `none` = the start position was never set (the real code raises). -/
def step (c : Chain) (i : StepIn) : Option Chain :=
  match c.current with
  | none => none
  | some cur =>
    let prop := jointJump cur.pos c.props i.jumps
    let r := stepRec c cur i
    some { c with
      proposed := some prop
      scratch := setAt c.scratch c.len r
      iteration := c.iteration + 1
      calls := c.calls + 1 + extraCalls c.props
      props := c.props.map (fun p => p.update r.acc.accepted r.acc.ar r.st.pos) }

/-! ### Memory management -/

/-- `scratchlen` setter: record `n`; grow the arrays if they are shorter. -/
def setScratchlen (c : Chain) (n : Nat) : Chain :=
  { c with scratchlen := n, scratch := growTo c.scratch n }

/-- The growth `Sampler.run(n)` requests: `scratchlen += max(n - (scratchlen - len), 0)`. -/
def extendFor (c : Chain) (n : Nat) : Chain :=
  c.setScratchlen (c.scratchlen + (((n : Int) - ((c.scratchlen : Int) - (c.len : Int))).toNat))

/-- `Chain.clear`. -/
def clear (c : Chain) : Chain :=
  if c.iteration > 0 then
    { c with start := c.current
             scratch := List.replicate c.scratchlen none
             lastclear := c.iteration }
  else { c with lastclear := c.iteration }

/-- `Chain.__getitem__` (any Python int index; `none` = the real code raises). -/
def getitem (c : Chain) (i : Int) : Option Rec :=
  if c.len = 0 then none                 -- `index % 0` raises ZeroDivisionError
  else rowAt c.scratch (pyModNat i c.len)

/-- The array views `positions/stats/acceptance/blobs`: rows `[:len]`. -/
def view (c : Chain) : List (Option Rec) := c.scratch.take c.len

/-- `reset_proposals`. -/
def resetProposals (c : Chain) : Chain := { c with props := c.props.map PropSt.reset }

/-! ### `state` / `set_state` -/

structure Saved where
  chainId : Nat
  beta : Rat
  iteration : Nat
  current : St
  proposed : Option (List Val)
  hasblobs : Bool
  props : List SavedProp
deriving DecidableEq, Inhabited

/-- `Chain.state` (`none`: the real code raises before a start position / first step). -/
def save (c : Chain) : Option Saved :=
  match c.current, c.iteration with
  | some cur, _ + 1 =>
    some { chainId := c.chainId, beta := c.beta, iteration := c.iteration, current := cur
           proposed := c.proposed, hasblobs := c.hasblobs
           props := c.props.map PropSt.save }
  | _, _ => none

def loadProps : List PropSt → List SavedProp → List PropSt
  | p :: ps, s :: ss => p.load s :: loadProps ps ss
  | ps, _ => ps

/-- `Chain.set_state`. -/
def load (c : Chain) (s : Saved) : Chain :=
  let c := c.clear
  { c with chainId := s.chainId
           beta := s.beta
           iteration := s.iteration
           lastclear := s.iteration
           start := some s.current
           hasblobs := s.hasblobs
           proposed := s.proposed
           props := loadProps c.props s.props }

end Chain
end Epsie
