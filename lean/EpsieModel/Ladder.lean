/-
  EpsieModel.Ladder — the temperature ladder (chain/ptchain.py): the `betas`
  setter (range check, sort coldest → hottest) and the recursion of
  `DynamicalAnnealer.__call__` that rewrites the intermediate betas, with
  `exp(S_i)` as oracle values.
-/
import EpsieModel.Basic
namespace Epsie
namespace Ladder

/-- The `betas` setter: every beta must lie in [0,1]; stored sorted from coldest (largest
    beta) to hottest. `none` = the real code raises ValueError. -/
def setBetas (input : List Rat) : Option (List Rat) :=
  if input.all (fun b => decide (0 ≤ b ∧ b ≤ 1)) then some (input.mergeSort (fun a b => decide (b ≤ a)))
  else none

/-- `for i in range(1, ntemps-1): betas[i] = 1/(1/betas[i-1] + exp(S[i-1]))` — in place, so
    each new beta is computed from the already updated colder neighbour. `es[i-1] = exp(S[i-1])`.
    `prev` is the (updated) beta of the level below; the last element (hottest) is kept. -/
def annealFrom (prev : Rat) : List Rat → List Rat → List Rat
  | [], _ => []
  | [last], _ => [last]
  | _ :: rest, e :: es =>
      let b := 1 / (1 / prev + e)
      b :: annealFrom b rest es
  | bs, [] => bs

/-- The whole update: the coldest beta is kept, the intermediate ones are recomputed, the
    hottest is kept. -/
def anneal : List Rat → List Rat → List Rat
  | [], _ => []
  | b0 :: rest, es => b0 :: annealFrom b0 rest es

end Ladder
end Epsie
