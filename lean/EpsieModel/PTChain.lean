/-
  EpsieModel.PTChain — `ParallelTemperedChain` (chain/ptchain.py): one `Chain`
  per inverse temperature, a swap sweep on schedule, the swap-history rows,
  `reset_after_swap`, and the place where a dynamically annealed ladder is
  written. A plain Metropolis–Hastings chain is the one-level case.
-/
import EpsieModel.Chain
import EpsieModel.Swap
namespace Epsie

structure PTChain where
  levels : List Chain
  betas : List Rat                       -- `_betas`, coldest first
  s : Nat                                -- `swap_interval`
  rows : List (Option Swap.Row) := []    -- `_temperature_swaps` / `_temperature_acceptance`
  resetAfterSwap : Bool := false
  dynamic : Bool := false                -- an adaptive annealer is attached
deriving Inhabited

namespace PTChain

def ntemps (c : PTChain) : Nat := c.levels.length
def iteration (c : PTChain) : Nat := (c.levels.headD default).iteration
def lastclear (c : PTChain) : Nat := (c.levels.headD default).lastclear
def scratchlen (c : PTChain) : Nat := (c.levels.headD default).scratchlen
def len (c : PTChain) : Nat := c.iteration - c.lastclear

/-- Number of sweeps since the last clear: one per multiple of `s` in `(lastclear, iteration]`
    (the specification; the code does not compute this). -/
def nsweeps (c : PTChain) : Nat := c.iteration / c.s - c.lastclear / c.s

/-- Number of rows the views return: `len(self) // swap_interval`. -/
def nrows (c : PTChain) : Nat := c.len / c.s

/-- The views `temperature_swaps` / `temperature_acceptance`. -/
def rowsView (c : PTChain) : List (Option Swap.Row) := c.rows.take c.nrows

/-- Replace the swappable part of the last record of a level. -/
def rewriteLast (l : Chain) (st : St) : Chain :=
  match rowAt l.scratch (l.len - 1) with
  | some r => { l with scratch := setAt l.scratch (l.len - 1) { r with st := st } }
  | none => l

def maybeRewrite (l : Chain) : Option St → Chain
  | some st => rewriteLast l st
  | none => l

def maybeReset (b : Bool) (l : Chain) : Chain := if b then l.resetProposals else l

/-- The "apply" block of `swap_temperatures`: level `t` receives what level
    `idx[t]` held; levels whose index changed are reset when requested. -/
def applySwap (reset : Bool) (levels : List Chain) (idx : List Nat) : List Chain :=
  let olds := levels.map (·.current)
  (levels.zip (List.range levels.length)).map fun (l, t) =>
    maybeReset (reset && idx.getD t t != t) (maybeRewrite l (olds.getD (idx.getD t t) none))

/-- Where the annealer writes the adapted ladder: the ladder array **and** the levels. -/
def setBetas (c : PTChain) (nb : List Rat) : PTChain :=
  { c with betas := nb
           levels := (c.levels.zip (List.range c.levels.length)).map fun (l, t) =>
                       { l with beta := nb.getD t l.beta } }

/-- The intermediate betas come from the annealer; the end points stay. -/
def annealedBetas (old nb : List Rat) : List Rat :=
  (old.zip (List.range old.length)).map fun (b, t) =>
    if t = 0 ∨ t + 1 = old.length then b else nb.getD t b

structure SweepIn where
  us : List Rat                 -- logs of the uniforms the sweep draws, in order
  newBetas : List Rat           -- annealer output (read iff `dynamic`)
deriving Inhabited

/-- What a completed sweep with outcome `row` does to the chain: apply the
    permutation, store the row, let the annealer rewrite the ladder. -/
def afterSweep (c : PTChain) (row : Swap.Row) (newBetas : List Rat) : PTChain :=
  let c' := { c with levels := applySwap c.resetAfterSwap c.levels row.idx
                     rows := setAt c.rows ((c.len - 1) / c.s) row }
  if c.dynamic then c'.setBetas (annealedBetas c.betas newBetas) else c'

/-- The current log-likelihood of every level (`self.current_stats['logl']`). -/
def logls (c : PTChain) : List Rat := c.levels.map fun l => (l.current.map (·.logl)).getD 0

/-- `swap_temperatures`. `none`: the uniform stream does not match the sweep's needs. -/
def swapTemperatures (c : PTChain) (i : SweepIn) : Option PTChain :=
  match Swap.sweep c.betas c.logls i.us with
  | some (row, []) => some (c.afterSweep row i.newBetas)
  | _ => none

/-- Is a sweep due after the step that brings the chain to iteration `it`? -/
def sweepDue (ntemps s it : Nat) : Bool := decide (ntemps > 1 ∧ it % s = 0)

def stepLevels : List Chain → List Chain.StepIn → Option (List Chain)
  | [], _ => some []
  | l :: ls, i :: is => do
      let l' ← l.step i
      let ls' ← stepLevels ls is
      pure (l' :: ls')
  | _ :: _, [] => none

structure StepIn where
  levels : List Chain.StepIn
  sweep : SweepIn
deriving Inhabited

/-- `ParallelTemperedChain.step`. -/
def step (c : PTChain) (i : StepIn) : Option PTChain := do
  let ls ← stepLevels c.levels i.levels
  let c' := { c with levels := ls }
  if sweepDue c'.ntemps c'.s c'.iteration then c'.swapTemperatures i.sweep else pure c'

/-- `scratchlen` setter. -/
def setScratchlen (c : PTChain) (n : Nat) : PTChain :=
  { c with levels := c.levels.map (·.setScratchlen n)
           rows := if c.ntemps > 1 then growTo c.rows (n / c.s) else c.rows }

def extendFor (c : PTChain) (n : Nat) : PTChain :=
  c.setScratchlen (c.scratchlen + (((n : Int) - ((c.scratchlen : Int) - (c.len : Int))).toNat))

/-- `ParallelTemperedChain.clear`. -/
def clear (c : PTChain) : PTChain :=
  let ls := c.levels.map Chain.clear
  { c with levels := ls
           rows := if c.ntemps > 1 then List.replicate (c.scratchlen / c.s) none else c.rows }

/-- `state` (`none`: the real code raises). -/
def save (c : PTChain) : Option (List Chain.Saved) := c.levels.mapM Chain.save

def loadLevels : List Chain → List Chain.Saved → List Chain
  | l :: ls, s :: ss => l.load s :: loadLevels ls ss
  | ls, _ => ls

/-- `set_state`: every level present in the saved state is loaded, and the ladder entry of
    that level is set to the level's (restored) beta. -/
def load (c : PTChain) (s : List Chain.Saved) : PTChain :=
  let ls := loadLevels c.levels s
  { c with levels := ls
           betas := (c.betas.zip (List.range c.betas.length)).map fun (b, t) =>
                      if t < s.length then (ls.getD t default).beta else b }

end PTChain
end Epsie
