/-
  EpsieModel.SrcPrelude — the handful of Python / numpy operations that the
  *translated* kernels of `EpsieModel/Generated/Source.lean` are written in
  (harness/gen_source.py turns the Python AST of selected epsie methods into
  Lean definitions over these).  Core Lean only.

  Conventions of the translation (see DESIGN.md §11):
  * Python `int` ↦ `Int`; numpy/Python floats ↦ exact `Rat`; `numpy.exp(l)`
    stays symbolic as `AR.exp l`; the float literals `1.`/`0.` assigned to an
    acceptance probability ↦ `AR.one`/`AR.zero`.
  * a uniform draw is read from a stream of *logarithms* of uniforms, and the
    code's test `u <= exp(l)` ↦ `Src.uLe u (AR.exp l)`, i.e. `log u ≤ l`
    (`C01_logspace_test` is the theorem that the two tests agree).
  * numpy arrays ↦ `List`, indexed with Python's rule for negative indices.
-/
import EpsieModel.Basic
namespace Epsie
namespace Src

/-- Python `a // b` on integers (floor division). -/
def fdiv (a b : Int) : Int := Int.fdiv a b

/-- Python `a % b` on integers (sign of the divisor). -/
def pmod (a b : Int) : Int := Int.fmod a b

/-- Python indexing `l[i]` (negative `i` counts from the end); out of range ↦ default. -/
def get {α} [Inhabited α] (l : List α) (i : Int) : α :=
  if i < 0 then l.getD ((l.length : Int) + i).toNat default else l.getD i.toNat default

/-- Python item assignment `l[i] = v` on a list / 1-d array. -/
def set {α} (l : List α) (i : Int) (v : α) : List α :=
  if i < 0 then l.set ((l.length : Int) + i).toNat v else l.set i.toNat v

/-- `numpy.arange(n, dtype=int)`. -/
def arange (n : Int) : List Int := (List.range n.toNat).map (fun (i : Nat) => (i : Int))

/-- `numpy.zeros(n)` holding acceptance probabilities. -/
def zerosAR (n : Int) : List AR := List.replicate n.toNat AR.zero

/-- `numpy.diff(x)`. -/
def diff : List Rat → List Rat
  | a :: b :: rest => (b - a) :: diff (b :: rest)
  | _ => []

/-- The values of `range(a, b, -1)`. -/
def rangeDown (a b : Int) : List Int :=
  (List.range (a - b).toNat).map (fun (i : Nat) => a - (i : Int))

/-- The values of `range(a, b)`. -/
def rangeUp (a b : Int) : List Int :=
  (List.range (b - a).toNat).map (fun (i : Nat) => a + (i : Int))

/-- `for v in <values>: body` with loop-carried state `σ`. -/
def forIn {σ} (vals : List Int) (init : σ) (body : Int → σ → σ) : σ :=
  vals.foldl (fun s v => body v s) init

/-- A write log: `arr[i] = v` on one of a chain's scratch arrays (or an attribute assignment keyed
    by the level) is recorded as `(i, v)`, in program order. -/
def wr {ι α} (log : List (ι × α)) (i : ι) (v : α) : List (ι × α) := log ++ [(i, v)]

/-- `arr[idx] = numpy.logical_not(arr[idx])` for an integer index array `idx`. -/
def flipAt (l : List Bool) (idx : List Int) : List Bool :=
  idx.foldl (fun acc i => set acc i (!(get acc i))) l

/-- The code's `u <= ar` with `u` given by its logarithm. -/
def uLe (logu : Rat) : AR → Bool
  | .zero => false
  | .one => true
  | .exp l => decide (logu ≤ l)

/-- Next value of the uniform stream (`0` when it ran dry: ties are stated for long enough streams). -/
def draw (us : List Rat) : Rat := us.headD 0

end Src
end Epsie
