/-
  EpsieModel.Streams — who owns which random stream, and what is shared
  between the chains of a sampler (properties C04 and C07).

  Part 1 (C04).  Construction of a sampler as an object graph.  Proposals,
  birth distributions, the model-index proposal, `NestedTransdimensional`,
  `JointProposal`, chains and parallel-tempered chains are records that carry
  the *identity* of the `BIT_GENERATOR` instance they would draw from
  (`Gen.id`) together with where that generator's numbers come from
  (`Gen.stream`: a spawn key of a seed, or a read of the OS entropy pool).
  The constructors re-seat generators exactly as the code in /repo does:

    * `BaseRandom.bit_generator` setter: an instance is kept, an `int`/`None`
      goes through `create_bit_generator` (`None` = `SeedSequence().entropy`);
    * `NestedTransdimensional.__init__/setup_proposals/setup_births` seat the
      in-model proposals, the model-index proposal and the births on the
      generator the nested proposal has *at construction*;
    * `JointProposal.__init__` seats its *direct* constituents on its own
      generator (`prop.bit_generator = self.bit_generator`);
    * `Chain._store_proposals` builds that `JointProposal`;
    * `ParallelTemperedChain.__init__` deep-copies the proposals once per
      temperature level and hands every level its one generator;
    * the samplers run `set_proposals` (default proposal for the parameters
      nobody covers), `create_bit_generators` = `SeedSequence(seed).spawn(n)`,
      and deep-copy every proposal once per chain;
    * `copy.deepcopy` copies a proposal's sub-graph: fresh identities, internal
      sharing of generators preserved, generator *state* duplicated.

  Three facts about the code are not hard-wired but read from the table that
  `harness/gen_sharing.py` measures on the live code on every run
  (`Variant`): how `set_proposals` orders the parameters of the default
  proposal, whether re-seating a `NestedTransdimensional` reaches what is
  inside it, and whether each chain ends up with an annealer of its own.  All
  theorems are stated for every variant; the generated table says which one
  /repo is today, and `decide` re-checks that the model under that variant
  predicts the measured object graphs.

  Everything the interpreter session can influence is an explicit adversary
  `Env`: the iteration order of every unordered container (`setOrder`), every
  read of the entropy pool (`entropy k` for the k-th read) and the state of the
  global generators (`globalRng`, which no definition below ever reads: the
  generated scan table has to show that the code does not either).

  Part 2 (C07).  A sampler as `n` chains over a heap of mutable objects; chain
  `i` reads and writes only its footprint; a map-like pool is a list of chunks,
  each evaluated serially on a private copy of the heap.

  Inputs the real code rejects and the model rejects too (`none`):
  `nchains < 1`, an empty ladder, two proposals for one parameter.  Not
  modelled (outside the statement): birth distributions that match no / several
  in-model proposals (ValueError at construction), a stand-alone
  `ParallelTemperedChain(bit_generator=None)` (samplers always pass an
  instance).  Parameter lists are assumed duplicate-free.
-/
namespace Epsie.Streams

abbrev Param := Nat

/-! ## Generators and streams -/

/-- What a `SeedSequence` was made from. -/
inductive Root where
  | seed (s : Nat)        -- an integer supplied by the user
  | entropy (k : Nat)     -- the k-th read of the OS entropy pool in this session
deriving DecidableEq, Repr

/-- Where a bit generator's numbers come from (nothing is drawn during construction). -/
inductive Stream where
  | spawn (r : Root) (i : Nat)   -- `SeedSequence(r).spawn(n)[i]`
  | direct (r : Root)            -- `SeedSequence(r)`  (`create_bit_generator(r)`)
deriving DecidableEq, Repr

/-- A `BIT_GENERATOR` instance: object identity and stream. A deep copy has a
    new identity and the same stream (same state, hence the same numbers). -/
structure Gen where
  id : Nat
  stream : Stream
deriving DecidableEq, Repr

/-- How `set_proposals` orders the parameters of the default proposal. -/
inductive DefaultOrder where
  | hashSet    -- iteration order of a Python `set` (depends on the string hash seed)
  | asGiven    -- order of the sampler's `parameters`
  | sorted     -- sorted by name
deriving DecidableEq, Repr

/-- The facts about the current code measured by `harness/gen_sharing.py`. -/
structure Variant where
  defaultOrder : DefaultOrder
  reseatsInner : Bool        -- seating a generator on a NestedTransdimensional reaches its in-model
                             -- proposals, model-index proposal and births
  annealerPerChain : Bool    -- every PT chain holds its own copy of the annealer (made by the sampler
                             -- or by the chain's constructor) instead of the user's one instance
deriving DecidableEq, Repr

/-- The interpreter session as an adversary. -/
structure Env where
  setOrder : List Param → List Param   -- iteration order of a set with these elements
  entropy : Nat → Nat                  -- value of the k-th read of the entropy pool
  globalRng : Nat                      -- state of numpy.random / random (never read below)

/-- A set iterates over exactly its elements. -/
def Env.Valid (e : Env) : Prop := ∀ l, (e.setOrder l).Perm l

/-- Allocation state of a session: next fresh object identity, entropy reads so far. -/
structure St where
  next : Nat
  ent : Nat
deriving DecidableEq, Repr

def St.bump (st : St) : St := { st with next := st.next + 1 }

/-- The argument of a `bit_generator` setter. -/
inductive GenArg where
  | inst (g : Gen)     -- an instance of BIT_GENERATOR: kept as is
  | int (s : Nat)      -- `create_bit_generator(s)`
  | none               -- `create_bit_generator(None)`: seeded from the entropy pool
deriving DecidableEq, Repr

/-- `BaseRandom.bit_generator.fset`. -/
def seat : GenArg → St → Gen × St
  | .inst g, st => (g, st)
  | .int s, st => (⟨st.next, .direct (.seed s)⟩, st.bump)
  | .none, st => (⟨st.next, .direct (.entropy st.ent)⟩, { next := st.next + 1, ent := st.ent + 1 })

/-! ## Objects -/

/-- An elementary jump proposal or a birth distribution. `gen = none`: the
    attribute `_bit_generator` does not exist yet (the getter would create one
    from the entropy pool at first use). -/
structure Leaf where
  oid : Nat
  params : List Param
  gen : Option Gen
deriving DecidableEq, Repr

/-- `NestedTransdimensional`: its own generator (used for choosing which
    components are born/killed), the model-index proposal, and the in-model
    proposals each with its birth distribution. -/
structure Nested where
  oid : Nat
  gen : Gen
  index : Leaf
  inner : List (Leaf × Leaf)
deriving DecidableEq, Repr

inductive PropO where
  | plain (l : Leaf)
  | nested (t : Nested)
deriving DecidableEq, Repr

structure JointO where
  gen : Gen
  props : List PropO
deriving DecidableEq, Repr

structure ChainO where
  joint : JointO
deriving DecidableEq, Repr

structure PTChainO where
  gen : Gen
  levels : List ChainO
  annealer : Option Nat      -- identity of the `adaptive_annealer` object
deriving DecidableEq, Repr

inductive AnyChain where
  | mh (c : ChainO)
  | pt (c : PTChainO)
deriving DecidableEq, Repr

structure SamplerO where
  chains : List AnyChain
deriving DecidableEq, Repr

def Nested.params (t : Nested) : List Param :=
  t.inner.flatMap (fun pb => pb.1.params) ++ t.index.params

def PropO.params : PropO → List Param
  | .plain l => l.params
  | .nested t => t.params

def PropO.isPlain : PropO → Bool
  | .plain _ => true
  | .nested _ => false

/-! ## User-side construction -/

/-- `Normal(params)` etc.; `touched`: the user has read `.bit_generator` /
    `.random_generator` of the fresh object before handing it over. -/
def mkLeaf (params : List Param) (touched : Bool) (st : St) : Leaf × St :=
  let oid := st.next
  let st := st.bump
  if touched then
    let r := seat .none st
    (⟨oid, params, some r.1⟩, r.2)
  else (⟨oid, params, none⟩, st)

/-- `NestedTransdimensional.__init__`: `self.bit_generator = bit_generator`, then
    `setup_proposals` (`prop.bit_generator = self.bit_generator`,
    `model_proposal.bit_generator = self.bit_generator`) and `setup_births`
    (`dist.bit_generator = prop.bit_generator`). -/
def mkNested (arg : GenArg) (index : Leaf) (inner : List (Leaf × Leaf)) (st : St) : Nested × St :=
  let oid := st.next
  let r := seat arg st.bump
  let g := r.1
  ({ oid := oid, gen := g, index := { index with gen := some g },
     inner := inner.map (fun pb => ({ pb.1 with gen := some g }, { pb.2 with gen := some g })) }, r.2)

/-- What the user hands to the sampler for one group of parameters. -/
inductive PropCfg where
  | plain (params : List Param) (touched : Bool)
  | nested (genArg : Option Nat) (index : Param) (inner : List (List Param))
deriving DecidableEq, Repr

def PropCfg.isPlain : PropCfg → Bool
  | .plain _ _ => true
  | .nested _ _ _ => false

def mkInnerLeaves : List (List Param) → St → List (Leaf × Leaf) × St
  | [], st => ([], st)
  | ps :: rest, st =>
    let p := mkLeaf ps false st
    let b := mkLeaf ps false p.2
    let r := mkInnerLeaves rest b.2
    ((p.1, b.1) :: r.1, r.2)

def mkUserProp : PropCfg → St → PropO × St
  | .plain ps touched, st => let r := mkLeaf ps touched st; (.plain r.1, r.2)
  | .nested ga ix inner, st =>
    let mp := mkLeaf [ix] false st
    let inn := mkInnerLeaves inner mp.2
    let arg := match ga with | some s => GenArg.int s | none => GenArg.none
    let r := mkNested arg mp.1 inn.1 inn.2
    (.nested r.1, r.2)

def mkUserProps : List PropCfg → St → List PropO × St
  | [], st => ([], st)
  | c :: cs, st =>
    let r := mkUserProp c st
    let rs := mkUserProps cs r.2
    (r.1 :: rs.1, rs.2)

/-! ## `copy.deepcopy` of one proposal -/

abbrev Memo := List (Nat × Gen)

def memoFind : Memo → Nat → Option Gen
  | [], _ => none
  | (k, g) :: m, id => if k = id then some g else memoFind m id

def copyGen (g : Gen) (m : Memo) (st : St) : Gen × Memo × St :=
  match memoFind m g.id with
  | some g' => (g', m, st)
  | none => (⟨st.next, g.stream⟩, (g.id, ⟨st.next, g.stream⟩) :: m, st.bump)

def copyOptGen : Option Gen → Memo → St → Option Gen × Memo × St
  | none, m, st => (none, m, st)
  | some g, m, st => let r := copyGen g m st; (some r.1, r.2.1, r.2.2)

def copyLeaf (l : Leaf) (m : Memo) (st : St) : Leaf × Memo × St :=
  let r := copyOptGen l.gen m st
  (⟨r.2.2.next, l.params, r.1⟩, r.2.1, r.2.2.bump)

def copyInner : List (Leaf × Leaf) → Memo → St → List (Leaf × Leaf) × Memo × St
  | [], m, st => ([], m, st)
  | pb :: rest, m, st =>
    let p := copyLeaf pb.1 m st
    let b := copyLeaf pb.2 p.2.1 p.2.2
    let r := copyInner rest b.2.1 b.2.2
    ((p.1, b.1) :: r.1, r.2.1, r.2.2)

def copyNested (t : Nested) (m : Memo) (st : St) : Nested × Memo × St :=
  let oid := st.next
  let g := copyGen t.gen m st.bump
  let ix := copyLeaf t.index g.2.1 g.2.2
  let inn := copyInner t.inner ix.2.1 ix.2.2
  ({ oid := oid, gen := g.1, index := ix.1, inner := inn.1 }, inn.2.1, inn.2.2)

/-- `copy.deepcopy(p)` (one memo per call, as in `[copy.deepcopy(p) for p in proposals]`). -/
def deepcopy : PropO → St → PropO × St
  | .plain l, st => let r := copyLeaf l [] st; (.plain r.1, r.2.2)
  | .nested t, st => let r := copyNested t [] st; (.nested r.1, r.2.2)

def copyProps : List PropO → St → List PropO × St
  | [], st => ([], st)
  | p :: ps, st =>
    let r := deepcopy p st
    let rs := copyProps ps r.2
    (r.1 :: rs.1, rs.2)

/-! ## `JointProposal`, `Chain`, `ParallelTemperedChain` -/

/-- `prop.bit_generator = g` as executed by `JointProposal.__init__`. -/
def reseat (v : Variant) (g : Gen) : PropO → PropO
  | .plain l => .plain { l with gen := some g }
  | .nested t =>
    if v.reseatsInner then
      .nested { t with gen := g, index := { t.index with gen := some g },
                       inner := t.inner.map (fun pb => ({ pb.1 with gen := some g }, { pb.2 with gen := some g })) }
    else .nested { t with gen := g }

def dedup : List Param → List Param
  | [] => []
  | a :: l => if a ∈ l then dedup l else a :: dedup l

/-- joint.py: `repeated = [p for p in set(all_params) if all_params.count(p) > 1]`,
    then `if repeated: raise ValueError(...)`. The set is iterated in the session's order. -/
def hasRepeated (env : Env) (all : List Param) : Bool :=
  !((env.setOrder (dedup all)).filter (fun p => decide (1 < all.count p))).isEmpty

/-- `JointProposal(*props, bit_generator=arg)`. -/
def mkJoint (v : Variant) (env : Env) (arg : GenArg) (props : List PropO) (st : St) : Option (JointO × St) :=
  if hasRepeated env (props.flatMap PropO.params) then none
  else
    let r := seat arg st
    some ({ gen := r.1, props := props.map (reseat v r.1) }, r.2)

/-- `Chain(parameters, model, proposals, bit_generator=arg)`. -/
def mkChain (v : Variant) (env : Env) (arg : GenArg) (props : List PropO) (st : St) : Option (ChainO × St) :=
  (mkJoint v env arg props st).map (fun r => (⟨r.1⟩, r.2))

/-- The levels of `ParallelTemperedChain(..., bit_generator=g)`: for each beta,
    `Chain(parameters, model, [copy.deepcopy(p) for p in proposals], bit_generator=self.bit_generator)`. -/
def mkLevels (v : Variant) (env : Env) (g : Gen) (props : List PropO) : Nat → St → Option (List ChainO × St)
  | 0, st => some ([], st)
  | n + 1, st =>
    let cp := copyProps props st
    match mkChain v env (.inst g) cp.1 cp.2 with
    | none => none
    | some c =>
      match mkLevels v env g props n c.2 with
      | none => none
      | some r => some (c.1 :: r.1, r.2)

def mkPTChain (v : Variant) (env : Env) (g : Gen) (props : List PropO) (ntemps : Nat)
    (ann : Option Nat) (st : St) : Option (PTChainO × St) :=
  if ntemps = 0 then none
  else (mkLevels v env g props ntemps st).map (fun r => ({ gen := g, levels := r.1, annealer := ann }, r.2))

/-! ## Samplers -/

inductive Kind where
  | mh
  | pt (ntemps : Nat) (annealer : Bool)
deriving DecidableEq, Repr

/-- A sampler construction, as the user writes it. -/
structure Cfg where
  params : List Param
  props : List PropCfg
  kind : Kind
  nchains : Nat
  seed : Option Nat
deriving DecidableEq, Repr

def insertSorted (a : Nat) : List Nat → List Nat
  | [] => [a]
  | b :: l => if a ≤ b then a :: b :: l else b :: insertSorted a l

def sortNat (l : List Nat) : List Nat := l.foldr insertSorted []

/-- The parameters of the default proposal, in the order the proposal will use them. -/
def defaultParams (v : Variant) (env : Env) (missing : List Param) : List Param :=
  match v.defaultOrder with
  | .hashSet => env.setOrder missing
  | .asGiven => missing
  | .sorted => sortNat missing

/-- `missing_params = set(self.parameters) - given_params`, listed in parameter order. -/
def missingOf (params : List Param) (given : List Param) : List Param :=
  params.filter (fun p => !(given.contains p))

/-- The parameters a user proposal covers (`prop.parameters`). -/
def PropCfg.params : PropCfg → List Param
  | .plain ps _ => ps
  | .nested _ ix inner => inner.flatMap id ++ [ix]

def givenOf (props : List PropCfg) : List Param := props.flatMap PropCfg.params

def Cfg.missing (cfg : Cfg) : List Param := missingOf cfg.params (givenOf cfg.props)

/-- `set_proposals`: append the default proposal for the parameters nobody covers. -/
def setProposals (v : Variant) (env : Env) (params : List Param) (uprops : List PropO) (st : St) :
    List PropO × St :=
  let missing := missingOf params (uprops.flatMap PropO.params)
  if missing.isEmpty then (uprops, st)
  else
    let r := mkLeaf (defaultParams v env missing) false st
    (uprops ++ [.plain r.1], r.2)

/-- `seed` setter: `create_seed(None)` reads the entropy pool. -/
def seedRoot : Option Nat → St → Root × St
  | some s, st => (.seed s, st)
  | none, st => (.entropy st.ent, { st with ent := st.ent + 1 })

/-- `create_bit_generators(n, seed)`: `SeedSequence(seed).spawn(n)`, one fresh generator each. -/
def spawnGens (root : Root) (base : Nat) : Nat → Nat → List Gen
  | _, 0 => []
  | i, n + 1 => ⟨base + i, .spawn root i⟩ :: spawnGens root base (i + 1) n

/-- The annealer object a chain is given: the one instance for everybody, or a per-chain
    copy (fresh identity). -/
def annealerFor (v : Variant) (ann : Option Nat) (st : St) : Option Nat × St :=
  match ann with
  | none => (none, st)
  | some a0 => if v.annealerPerChain then (some st.next, st.bump) else (some a0, st)

/-- One chain of a sampler: per-chain deep copies of the proposals, the chain's spawned
    generator, and (parallel tempered) the annealer object. -/
def mkAnyChain (v : Variant) (env : Env) (kind : Kind) (props : List PropO) (ann : Option Nat)
    (g : Gen) (st : St) : Option (AnyChain × St) :=
  let cp := copyProps props st
  match kind with
  | .mh => (mkChain v env (.inst g) cp.1 cp.2).map (fun r => (.mh r.1, r.2))
  | .pt ntemps _ =>
    let a := annealerFor v ann cp.2
    (mkPTChain v env g cp.1 ntemps a.1 a.2).map (fun r => (.pt r.1, r.2))

def mkChains (v : Variant) (env : Env) (kind : Kind) (props : List PropO) (ann : Option Nat) :
    List Gen → St → Option (List AnyChain × St)
  | [], st => some ([], st)
  | g :: gs, st =>
    match mkAnyChain v env kind props ann g st with
    | none => none
    | some c =>
      match mkChains v env kind props ann gs c.2 with
      | none => none
      | some r => some (c.1 :: r.1, r.2)

def Kind.hasAnnealer : Kind → Bool
  | .pt _ a => a
  | .mh => false

/-- The session up to and including `set_proposals`: the user's proposal objects, a
    user-made annealer instance (`DynamicalAnnealer()`) if any, the default proposal.
    Returns the proposals, the annealer's identity and the allocation state. -/
def prepare (v : Variant) (cfg : Cfg) (env : Env) : List PropO × Option Nat × St :=
  let up := mkUserProps cfg.props ⟨0, 0⟩
  let an : Option Nat × St := if cfg.kind.hasAnnealer then (some up.2.next, up.2.bump) else (none, up.2)
  let sp := setProposals v env cfg.params up.1 an.2
  (sp.1, an.1, sp.2)

/-- The root of the sampler's seed sequence (`seed` setter). -/
def rootOf (v : Variant) (cfg : Cfg) (env : Env) : Root := (seedRoot cfg.seed (prepare v cfg env).2.2).1

/-- Identity of chain 0's generator (`create_bit_generators` allocates `nchains` in a row). -/
def genBase (v : Variant) (cfg : Cfg) (env : Env) : Nat := (seedRoot cfg.seed (prepare v cfg env).2.2).2.next

/-- Everything from the first line of a fresh session to the constructed sampler:
    `prepare`, the seed, `create_bit_generators`, `create_chains`. Returns the
    allocation state too. -/
def buildSt (v : Variant) (cfg : Cfg) (env : Env) : Option (SamplerO × St) :=
  let pr := prepare v cfg env
  let sr := seedRoot cfg.seed pr.2.2
  if cfg.nchains < 1 then none
  else
    (mkChains v env cfg.kind pr.1 pr.2.1 (spawnGens sr.1 sr.2.next 0 cfg.nchains)
      ⟨sr.2.next + cfg.nchains, sr.2.ent⟩).map (fun r => (⟨r.1⟩, r.2))

def build (v : Variant) (cfg : Cfg) (env : Env) : Option SamplerO :=
  (buildSt v cfg env).map (·.1)

/-! ## Draw sites -/

/-- The random decisions of the code. -/
inductive SiteKind where
  | accept       -- `Chain._acceptance_ratio`: the Metropolis uniform
  | swap         -- `ParallelTemperedChain.swap_temperatures`: the swap uniform
  | jump         -- an elementary proposal's `_jump`
  | tdChoice     -- `NestedTransdimensional._jump`: which components are born / killed
  | modelIndex   -- the model-index proposal's `_jump`
  | birth        -- a birth distribution's draw
deriving DecidableEq, Repr

structure Site where
  kind : SiteKind
  params : List Param
  gen : Option Gen        -- the generator object the site draws from (`none`: created from entropy at first use)
deriving DecidableEq, Repr

def Leaf.site (k : SiteKind) (l : Leaf) : Site := ⟨k, l.params, l.gen⟩

def innerSites (pb : Leaf × Leaf) : List Site := [pb.1.site .jump, pb.2.site .birth]

def PropO.sites : PropO → List Site
  | .plain l => [l.site .jump]
  | .nested t => ⟨.tdChoice, [], some t.gen⟩ :: t.index.site .modelIndex :: t.inner.flatMap innerSites

def ChainO.sites (c : ChainO) : List Site :=
  ⟨.accept, [], some c.joint.gen⟩ :: c.joint.props.flatMap PropO.sites

/-- `ParallelTemperedChain.random_generator` is `self.chains[0].random_generator`. -/
def PTChainO.sites (c : PTChainO) : List Site :=
  (match c.levels with
   | l :: _ => [⟨.swap, [], some l.joint.gen⟩]
   | [] => []) ++ c.levels.flatMap ChainO.sites

def AnyChain.sites : AnyChain → List Site
  | .mh c => c.sites
  | .pt c => c.sites

/-- The generator handed to the chain by the sampler (`chain.bit_generator`). -/
def AnyChain.gen : AnyChain → Gen
  | .mh c => c.joint.gen
  | .pt c => c.gen

/-! ## What a session can observe of a built sampler -/

inductive RRoot where
  | seed (s : Nat)
  | entropy (value : Nat)
deriving DecidableEq, Repr

inductive RStream where
  | spawn (r : RRoot) (i : Nat)
  | direct (r : RRoot)
deriving DecidableEq, Repr

def Env.root (e : Env) : Root → RRoot
  | .seed s => .seed s
  | .entropy k => .entropy (e.entropy k)

def Env.resolve (e : Env) : Stream → RStream
  | .spawn r i => .spawn (e.root r) i
  | .direct r => .direct (e.root r)

/-- A draw site as it behaves: which decision, over which parameters in which order,
    fed by which actual stream (object identities are not observable). -/
structure OSite where
  kind : SiteKind
  params : List Param
  stream : Option RStream
deriving DecidableEq, Repr

def Site.observe (e : Env) (s : Site) : OSite := ⟨s.kind, s.params, s.gen.map (fun g => e.resolve g.stream)⟩

def observe (e : Env) (s : SamplerO) : List (List OSite) :=
  s.chains.map (fun c => c.sites.map (Site.observe e))

/-- The observable result of running the construction `cfg` in session `env`. -/
def obs (v : Variant) (cfg : Cfg) (env : Env) : Option (List (List OSite)) :=
  (build v cfg env).map (observe env)

/-! ## Footprints: the mutable objects reachable from a chain -/

def Leaf.ids (l : Leaf) : List Nat :=
  l.oid :: (match l.gen with | some g => [g.id] | none => [])

def innerIds (pb : Leaf × Leaf) : List Nat := pb.1.ids ++ pb.2.ids

def Nested.ids (t : Nested) : List Nat :=
  t.oid :: t.gen.id :: (t.index.ids ++ t.inner.flatMap innerIds)

def PropO.ids : PropO → List Nat
  | .plain l => l.ids
  | .nested t => t.ids

def ChainO.ids (c : ChainO) : List Nat := c.joint.gen.id :: c.joint.props.flatMap PropO.ids

def PTChainO.ids (c : PTChainO) : List Nat :=
  c.gen.id :: (c.annealer.toList ++ c.levels.flatMap ChainO.ids)

def AnyChain.ids : AnyChain → List Nat
  | .mh c => c.ids
  | .pt c => c.ids

def AnyChain.annealer : AnyChain → Option Nat
  | .mh _ => none
  | .pt c => c.annealer

def SamplerO.footprint (s : SamplerO) (i : Nat) : List Nat :=
  match s.chains[i]? with
  | some c => c.ids
  | none => []

/-- Identities that occur in a footprint and again in a later one, i.e. the objects
    reachable from at least two different chains (possibly listed more than once). -/
def sharedIds : List (List Nat) → List Nat
  | [] => []
  | fp :: rest => fp.filter (fun l => rest.any (fun fp' => fp'.contains l)) ++ sharedIds rest

def SamplerO.shared (s : SamplerO) : List Nat := dedup (sharedIds (s.chains.map AnyChain.ids))

/-! ## The rows of the generated table (`EpsieModel/Generated/Sharing.lean`) -/

inductive Origin where
  | spawn (i : Nat)     -- spawn key (i,) of the sampler's seed
  | other               -- anything else: entropy, another seed, a copy of such a generator
deriving DecidableEq, Repr

/-- One draw site of a freshly built real sampler, without addresses: generator
    objects and generator states are numbered by first occurrence in the walk
    chain 0, chain 1, … -/
structure SiteRow where
  kind : SiteKind
  params : List Param      -- sorted (the order is compared at run time, not in the table)
  genClass : Nat           -- which generator object
  streamClass : Nat        -- which (seed sequence, state)
  origin : Origin
deriving DecidableEq, Repr

structure SamplerRow where
  name : String
  cfg : Cfg
  chains : List (List SiteRow)
  crossChain : List String   -- kinds of the mutable objects reachable from two different chains
deriving DecidableEq, Repr

/-- A place in the source where the code could consult an unordered container, the
    entropy pool, or a foreign generator. -/
structure ScanSite where
  file : String
  func : String
  kind : String
  detail : String
  allowed : Bool           -- on the generator's justified allow-list of benign sites
deriving DecidableEq, Repr

/-- A class-level (or module-level) attribute of the package bound to a mutable value that
    some function mutates through an instance (without rebinding it on the instance first),
    through the class, or through an alias: one object per *process*, reachable from every
    instance of the class, contained in no pickled or deep-copied instance.  The traversal
    that measures `SamplerRow.crossChain` does not descend into classes (neither does
    pickle), so this is the sharing edge that column cannot see. -/
structure ClassState where
  file : String            -- where the attribute is bound
  owner : String           -- "class <name>" | "module"
  attr : String
  value : String           -- source text of the value it is bound to
  mutation : String        -- file: function: first mutating statement
  allowed : Bool           -- on the generator's justified allow-list
deriving DecidableEq, Repr

/-- Index of `x` among the distinct values seen so far (appending it if new). -/
def classIndex {α} [DecidableEq α] : List α → α → Nat
  | [], _ => 0
  | a :: l, x => if a = x then 0 else classIndex l x + 1

def numberAux {α} [DecidableEq α] : List α → List α → List Nat
  | _, [] => []
  | seen, x :: xs =>
    let seen' := if x ∈ seen then seen else seen ++ [x]
    classIndex seen' x :: numberAux seen' xs

/-- Number the values of a list by first occurrence. -/
def number {α} [DecidableEq α] (xs : List α) : List Nat := numberAux [] xs

def originOf (seed : Option Nat) : Stream → Origin
  | .spawn (.seed s) i => if seed = some s then .spawn i else .other
  | _ => .other

def zip3 : List Site → List Nat → List Nat → Option Nat → List SiteRow
  | s :: ss, g :: gs, t :: ts, seed =>
    ⟨s.kind, sortNat s.params, g, t, (match s.gen with | some gg => originOf seed gg.stream | none => .other)⟩ ::
      zip3 ss gs ts seed
  | _, _, _, _ => []

def splitLike {α β} : List (List α) → List β → List (List β)
  | [], _ => []
  | c :: cs, rows => rows.take c.length :: splitLike cs (rows.drop c.length)

/-- The table rows the model predicts for a built sampler. -/
def SamplerO.rows (s : SamplerO) (seed : Option Nat) : List (List SiteRow) :=
  let per := s.chains.map AnyChain.sites
  let all := per.flatMap id
  let gcls := number (all.map (fun x => x.gen.map (·.id)))
  let scls := number (all.map (fun x => x.gen.map (·.stream)))
  splitLike per (zip3 all gcls scls seed)

/-- The session in which tables are compared: sets iterate in list order. -/
def Env.canonical : Env := ⟨id, fun _ => 0, 0⟩

def modelRows (v : Variant) (cfg : Cfg) : Option (List (List SiteRow)) :=
  (build v cfg Env.canonical).map (fun s => s.rows cfg.seed)

/-- Kinds of the objects the model says are reachable from two chains. -/
def SamplerO.sharedKinds (s : SamplerO) : List String :=
  let sh := s.shared
  let anns := s.chains.filterMap AnyChain.annealer
  let gens := (s.chains.flatMap AnyChain.sites).filterMap (fun x => x.gen.map (·.id))
  dedup' (sh.map (fun l => if anns.contains l then "annealer" else if gens.contains l then "bit_generator" else "proposal"))
where
  dedup' : List String → List String
    | [] => []
    | a :: l => if a ∈ l then dedup' l else a :: dedup' l

def modelShared (v : Variant) (cfg : Cfg) : Option (List String) :=
  (build v cfg Env.canonical).map SamplerO.sharedKinds

/-- The places where the model itself consults the session (`Env`), as the scan of
    `harness/gen_sharing.py` names them (file, function, kind, detail).  Every scanned site
    must be one of these or on the generator's allow-list. -/
def modelledSites (v : Variant) : List (String × String × String × String) :=
  [ -- the one read of the entropy pool, and the ways to it: `seat .none` / `seat (.int s)`
    -- (`BaseRandom.bit_generator` setter), `mkLeaf … true` (its lazy getter), `seedRoot`
    -- (`seed` setter), `spawnGens` (`create_bit_generators(n, seed=self.seed)`)
    ("epsie/__init__.py", "create_seed", "entropy", "SeedSequence()"),
    ("epsie/__init__.py", "create_bit_generator", "entropy-call", "create_seed:seed=seed"),
    ("epsie/__init__.py", "create_bit_generators", "entropy-call", "create_seed:seed=seed"),
    ("epsie/proposals/base.py", "bit_generator", "entropy-call", "create_bit_generator:noseed"),
    ("epsie/proposals/base.py", "bit_generator", "entropy-call", "create_bit_generator:seed=bit_generator"),
    ("epsie/samplers/base.py", "seed", "entropy-call", "create_seed:seed=seed"),
    ("epsie/samplers/mhsampler.py", "create_chains", "entropy-call", "create_bit_generators:seed=self.seed"),
    ("epsie/samplers/ptsampler.py", "create_chains", "entropy-call", "create_bit_generators:seed=self.seed"),
    -- `hasRepeated`: the set iterated to name the repeated parameters in an error message
    ("epsie/proposals/joint.py", "__init__", "iterates-set", "set(all_params)") ] ++
  (match v.defaultOrder with
   | .hashSet =>   -- `defaultParams`: the set of missing parameters is ordered by the default proposal
     [("epsie/samplers/base.py", "set_proposals", "orders-set", "default_proposal(missing_params)")]
   | _ => [])

def ScanSite.accounted (v : Variant) (s : ScanSite) : Bool :=
  s.allowed || (modelledSites v).contains (s.file, s.func, s.kind, s.detail)

/-! ## Compact text for the run-time correspondence (`harness/streams.py`) -/

def SiteKind.tag : SiteKind → String
  | .accept => "accept" | .swap => "swap" | .jump => "jump"
  | .tdChoice => "tdchoice" | .modelIndex => "modelindex" | .birth => "birth"

def natsText (l : List Nat) : String := ",".intercalate (l.map toString)

def Origin.text : Origin → String
  | .spawn i => s!"spawn{i}"
  | .other => "other"

def SiteRow.text (r : SiteRow) : String :=
  s!"{r.kind.tag}[{natsText r.params}]g{r.genClass}s{r.streamClass}:{r.origin.text}"

def rowsText (rows : List (List SiteRow)) : String :=
  " | ".intercalate (rows.map (fun c => " ".intercalate (c.map SiteRow.text)))

/-- Parameter order of every draw site, per chain (compared with the real order at run time). -/
def SamplerO.orderText (s : SamplerO) : String :=
  " | ".intercalate (s.chains.map (fun c => " ".intercalate (c.sites.map (fun x => s!"{x.kind.tag}[{natsText x.params}]"))))

/-- A session whose sets of the size of `ord` iterate as `ord`. -/
def Env.withOrder (ord : List Param) : Env :=
  ⟨fun l => if l.length = ord.length ∧ l.all (ord.contains ·) then ord else l, fun _ => 0, 0⟩

def reportText (v : Variant) (cfg : Cfg) (ord : List Param) : String :=
  match build v cfg (Env.withOrder ord) with
  | none => "rejected"
  | some s => s!"rows {rowsText (s.rows cfg.seed)} ;; order {s.orderText} ;; shared {",".intercalate s.sharedKinds}"

/-! ## Part 2 — chains over a heap, map-like pools (C07) -/

/-- The mutable objects of a sampler by identity. -/
abbrev Heap (V : Type) := Nat → V

/-- A sampler as far as `run` is concerned: `n` chains; `fp i` = identities of the
    mutable objects reachable from chain `i`; `step i` = `_evolve_chain` on chain `i`
    (any number of iterations) as a heap transformer. -/
structure Sys (V : Type) where
  n : Nat
  fp : Nat → List Nat
  step : Nat → Heap V → Heap V

/-- A chain's evolution writes only objects it can reach, and what it writes there
    depends only on objects it can reach. -/
def Sys.Framed {V} (S : Sys V) : Prop :=
  ∀ i, (∀ h l, l ∉ S.fp i → S.step i h l = h l) ∧
       (∀ h h', (∀ l, l ∈ S.fp i → h l = h' l) → ∀ l, l ∈ S.fp i → S.step i h l = S.step i h' l)

/-- The `Shared` store: objects reachable from two different chains. -/
def Sys.shared {V} (S : Sys V) : List Nat := sharedIds ((List.range S.n).map S.fp)

def Sys.Disjoint {V} (S : Sys V) : Prop :=
  ∀ i j, i < S.n → j < S.n → i ≠ j → ∀ l, l ∈ S.fp i → l ∉ S.fp j

/-- A pool with the semantics of `map`: the chains are split into chunks; every chunk
    is evaluated serially, in the listed order, on a private copy of the sampler's
    objects (pickling / deep copy; sharing inside a chunk survives).  One chunk in
    index order is the built-in `map`. -/
abbrev Pool := List (List Nat)

def Pool.serial (n : Nat) : Pool := [List.range n]
/-- every call gets its own copy of its argument (a `map` that deep-copies, a process pool with chunksize 1) -/
def Pool.copying (n : Nat) : Pool := (List.range n).map (fun i => [i])
/-- in-process evaluation in another order -/
def Pool.permuted (π : List Nat) : Pool := [π]

/-- Every chain is evaluated exactly once. -/
def Pool.ValidFor (p : Pool) (n : Nat) : Prop := (p.flatMap id).Perm (List.range n)

instance (p : Pool) (n : Nat) : Decidable (p.ValidFor n) := by unfold Pool.ValidFor; infer_instance

def runChunk {V} (S : Sys V) (h : Heap V) (chunk : List Nat) : Heap V :=
  chunk.foldl (fun h i => S.step i h) h

def chunkOf : Pool → Nat → List Nat
  | [], _ => []
  | c :: cs, i => if c.contains i then c else chunkOf cs i

/-- The objects of chain `i` as `map` returns them: the state of the chunk that
    evaluated chain `i`, when that chunk is finished. -/
def result {V} (S : Sys V) (p : Pool) (h0 : Heap V) (i : Nat) : Heap V :=
  runChunk S h0 (chunkOf p i)

def ownerOf {V} (S : Sys V) (l : Nat) : Option Nat :=
  (List.range S.n).find? (fun i => (S.fp i).contains l)

/-- The sampler's objects after `run`: `self.chains = list(map(...))`. -/
def runPool {V} (S : Sys V) (p : Pool) (h0 : Heap V) : Heap V :=
  fun l => match ownerOf S l with
    | some i => result S p h0 i l
    | none => h0 l

/-- Successive `run` calls, each through its own pool. -/
def runMany {V} (S : Sys V) (pools : List Pool) (h0 : Heap V) : Heap V :=
  pools.foldl (fun h p => runPool S p h) h0

/-- The system of a built sampler object: footprints from the object graph. -/
def SamplerO.sys {V} (s : SamplerO) (step : Nat → Heap V → Heap V) : Sys V :=
  ⟨s.chains.length, s.footprint, step⟩

end Epsie.Streams
