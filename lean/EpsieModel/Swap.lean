/-
  EpsieModel.Swap — the loop of `ParallelTemperedChain.swap_temperatures`
  (chain/ptchain.py) verbatim: a hot→cold pass over adjacent pairs carrying
  the log-likelihood of the state currently in the hotter slot.
-/
import EpsieModel.Basic
namespace Epsie
namespace Swap

structure SweepSt where
  idx : List Nat        -- `swap_index`
  loglk : Rat           -- carried log-likelihood (`loglk`)
  ars : List AR         -- acceptance ratios in the order computed (pair n-2 first)
deriving DecidableEq, Inhabited

/-- Exchange entries `tj` and `tj+1` of `swap_index`. -/
def swapIdx (idx : List Nat) (tj : Nat) : List Nat :=
  match idx[tj]?, idx[tj+1]? with
  | some a, some b => (idx.set tj b).set (tj+1) a
  | _, _ => idx

/-- `logar = dbetas[tj] * (loglj - loglk)` with `dbetas = diff(betas)`. -/
def pairLogAR (betas logls : List Rat) (tj : Nat) (loglk : Rat) : Rat :=
  (betas.getD (tj+1) 0 - betas.getD tj 0) * (logls.getD tj 0 - loglk)

/-- The state update of one pair given the accept/reject outcome. -/
def pairStep (logls : List Rat) (s : SweepSt) (tj : Nat) (ar : AR) (swap : Bool) : SweepSt :=
  if swap then { idx := swapIdx s.idx tj, loglk := s.loglk, ars := s.ars ++ [ar] }
  else { idx := s.idx, loglk := logls.getD tj 0, ars := s.ars ++ [ar] }

/-- The loop `for tk in range(ntemps-1, 0, -1)`; `tk = tj + 1`. The stream `us`
    holds the logs of the uniforms in the order they are drawn; a uniform is
    consumed only when `logar ≤ 0`. `none` = the stream ran dry. -/
def loop (betas logls : List Rat) : Nat → SweepSt → List Rat → Option (SweepSt × List Rat)
  | 0, s, us => some (s, us)
  | tj+1, s, us =>
    let l := pairLogAR betas logls tj s.loglk
    if l > 0 then loop betas logls tj (pairStep logls s tj .one true) us
    else match us with
      | [] => none
      | u :: us => loop betas logls tj (pairStep logls s tj (.exp l) (decide (u ≤ l))) us

structure Row where
  idx : List Nat        -- `swap_index`, by level
  ars : List AR         -- `acceptance_ratio`, by pair `tj = 0 .. n-2`
deriving DecidableEq, Inhabited

/-- One sweep over `n = betas.length` levels with current log-likelihoods `logls`. -/
def sweep (betas logls : List Rat) (us : List Rat) : Option (Row × List Rat) :=
  let n := betas.length
  match loop betas logls (n - 1) { idx := List.range n, loglk := logls.getD (n-1) 0, ars := [] } us with
  | none => none
  | some (s, rest) => some ({ idx := s.idx, ars := s.ars.reverse }, rest)

/-- The same loop driven by a list of outcomes instead of uniforms (one per pair,
    hot to cold); used to state the refinement and path-probability theorems. -/
def loopDec (logls : List Rat) : Nat → SweepSt → List Bool → SweepSt
  | 0, s, _ => s
  | _, s, [] => s
  | tj+1, s, d :: ds => loopDec logls tj (pairStep logls s tj .one d) ds

end Swap
end Epsie
