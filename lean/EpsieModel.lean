import EpsieModel.Basic
import EpsieModel.Proposal
import EpsieModel.Chain
import EpsieModel.Swap
import EpsieModel.PTChain
import EpsieModel.Sampler
