import EpsieModel.Basic
import EpsieModel.Proposal
import EpsieModel.Chain
import EpsieModel.Swap
import EpsieModel.PTChain
import EpsieModel.Sampler
import EpsieModel.Tables
import EpsieModel.Generated.Tables
